#!/bin/sh
# tools/run_all.sh [tier] [ids...] : run the claimed checks one after the other, one summary line each
tier=${1:-quick}; shift 2>/dev/null
ids="$@"
[ -z "$ids" ] && ids=$(python3 -c "import json; print(' '.join(c['property_id'] for c in json.load(open('/verif/MANIFEST.json'))['checks']))")
for c in $ids; do
  t0=$(date +%s)
  out=$(cd /verif && ./check $c --tier $tier 2>&1); rc=$?
  echo "$c exit=$rc $(( $(date +%s) - t0 ))s $(printf '%s\n' "$out" | tail -n 1 | cut -c1-160)"
done
