#!/usr/bin/env python3
"""Regenerates /verif/MANIFEST.json from the table below (single source of truth)."""
import json, os
ROOT = os.path.dirname(os.path.dirname(os.path.abspath(__file__)))
ALL = [f"C{i:02d}" for i in range(1, 40)]

# id -> (level, technique, text, note, design_ref)
CLAIMS = {
 "C01": ("model_checking", "TLA+ reference semantics (SplitAlgebra!Expand) enumerated by TLC; every case replayed on pydra State and a sample through the public API",
         "TLC enumerates every splitter tree (n-ary outer/inner) over <=4 fields x every length vector and computes the expected job sequence from the set-theoretic spec; the real State.prepare_states and Task.split()() must agree on every case (jobs, values, order, rejection with zero jobs).",
         "Trusted: TLC, the SplitAlgebra spec as transcription of the documented semantics, the JSON bridge. Inner operands of equal flat length but different shape are not judged (statement silent).", "6/C01"),
 "C02": ("model_checking", "TLA+ reference semantics (SplitAlgebra!Groups, theorem IsOrderedPartition) enumerated by TLC; replayed on State and the public API",
         "TLC enumerates tree x lengths x non-empty combiner subsets, proves the ordered-partition theorem on every case of the spec and emits the expected groups; pydra's final_combined_ind_mapping/keys_final and the nested API outputs must agree on every case.",
         "Trusted: TLC, spec, JSON bridge. Lists of length 0 are outside the property's quantifier and are not generated.", "6/C02"),
 "C04": ("model_checking", "TLA+ reference (SplitAlgebra!Flat) enumerated by TLC over nested lists; replayed through Task.split(container_ndim=...)",
         "TLC enumerates every nested list of uniform depth <=3 (regular and ragged, inner lengths 0..3 / 0..2 at depth 3) x container dimension x context (alone, outer left/right, inner) and computes the depth-first element sequence; the real split must run exactly those jobs in that order.",
         "Trusted: TLC, spec, JSON bridge. Inner context pairs the nested field with a second field of the same nested shape (a flat partner has a different shape, which C01 leaves undecided).", "6/C04"),
 "C05": ("model_checking", "TLA+ Normalize theorem + WellFormed predicate enumerated by TLC; every spelling and every perturbed request replayed on the real API",
         "TLC proves Expand(t)=Expand(Normalize(t)) on every enumerated tree incl. unary wrappers and emits all spellings grouped by normal form; all spellings must run the spec's jobs on pydra (state level all, API sample) and agree with each other. SplitAlgebra_Req enumerates valid requests and all single-point perturbations; WellFormed=FALSE must give an error with zero executed bodies and no job directory.",
         "Trusted: TLC, spec, JSON bridge. Requests use lists of length 2. Unary wrappers: one per tree.", "6/C05"),
}
NOT_YET = "check not built yet (work in progress; the property is intended to be decided by the TLA+ suite, see DESIGN.md section 6)"

def main():
    checks = []
    for pid in ALL:
        if pid not in CLAIMS:
            continue
        level, tech, text, note, ref = CLAIMS[pid]
        checks.append({
            "property_id": pid,
            "quick_cmd": f"./check {pid} --tier quick",
            "thorough_cmd": f"./check {pid} --tier thorough",
            "evidence_file": f"/verif/evidence/{pid}.json",
            "replay_cmd_template": f"./check {pid} --replay {{path}}",
            "engine": "tlc+replay",
            "level_claimed": {"category": level, "text": text, "design_ref": f"DESIGN.md section {ref}"},
            "level_note": note,
            "technique": tech,
        })
    hook_commits = []
    hc = os.path.join(ROOT, "hook_commits.txt")
    if os.path.exists(hc):
        hook_commits = [l.split()[0] for l in open(hc) if l.strip()]
    man = {
        "version": 1,
        "setup_cmd": "./check --setup",
        "hooks": {
            "guard": "NIPYPE_PYDRA_VERIF",
            "enable": "export NIPYPE_PYDRA_VERIF=1 NIPYPE_PYDRA_VERIF_HANDLER=harness.handler PYTHONPATH=/repo:/verif (pure-python project: no build step; the checks import pydra from /repo's working tree)",
            "baseline_off_cmd": "cd /repo && env -u NIPYPE_PYDRA_VERIF /venv/bin/python -m pytest -ra -q -p no:cacheprovider --timeout=900 --continue-on-collection-errors",
            "source_commits": hook_commits,
            "add_only": True,
        },
        "engines": [
            {"name": "tlc+replay", "path": "/verif/check", "serves_properties": sorted(CLAIMS),
             "kind_free_text": "explicit TLA+ specifications (specs/*.tla) checked / enumerated by TLC 1.8; cases, behaviours and traces bound to the real pydra by replay and trace validation (harness/)"},
        ],
        "checks": checks,
        "not_applicable": [{"property_id": p, "reason": NOT_YET} for p in ALL if p not in CLAIMS],
        "notes": "See DESIGN.md. known_findings.json lists recorded genuine defects (status known) and repaired ones (status fixed).",
    }
    json.dump(man, open(os.path.join(ROOT, "MANIFEST.json"), "w"), indent=1)
    print("claimed", len(checks), "not_applicable", len(man["not_applicable"]))

if __name__ == "__main__":
    main()
