#!/usr/bin/env python3
"""Regenerates /verif/MANIFEST.json from the table below (single source of truth)."""
import json, os
ROOT = os.path.dirname(os.path.dirname(os.path.abspath(__file__)))
ALL = [f"C{i:02d}" for i in range(1, 40)]

# id -> (level, technique, text, note, design_ref)
CLAIMS = {
 "C01": ("model_checking", "TLA+ reference semantics (SplitAlgebra!Expand) enumerated by TLC; every case replayed on pydra State and a sample through the public API",
         "TLC enumerates every splitter tree (n-ary outer/inner) over <=4 fields x every length vector and computes the expected job sequence from the set-theoretic spec; the real State.prepare_states and Task.split()() must agree on every case (jobs, values, order, rejection with zero jobs).",
         "Trusted: TLC, the SplitAlgebra spec as transcription of the documented semantics, the JSON bridge. Inner operands of equal flat length but different shape must be rejected (the engine does so on the unchanged tree; the documentation requires equal lengths).", "6/C01"),
 "C02": ("model_checking", "TLA+ reference semantics (SplitAlgebra!Groups, theorem IsOrderedPartition) enumerated by TLC; replayed on State and the public API",
         "TLC enumerates tree x lengths x non-empty combiner subsets, proves the ordered-partition theorem on every case of the spec and emits the expected groups; pydra's final_combined_ind_mapping/keys_final and the nested API outputs must agree on every case.",
         "Trusted: TLC, spec, JSON bridge. Lists of length 0 are outside the property's quantifier and are not generated.", "6/C02"),
 "C04": ("model_checking", "TLA+ reference (SplitAlgebra!Flat) enumerated by TLC over nested lists; replayed through Task.split(container_ndim=...)",
         "TLC enumerates every nested list of uniform depth <=3 (regular and ragged, inner lengths 0..3 / 0..2 at depth 3) x container dimension x context (alone, outer left/right, inner) and computes the depth-first element sequence; the real split must run exactly those jobs in that order.",
         "Trusted: TLC, spec, JSON bridge. Inner context pairs the nested field with a second field of the same nested shape (a flat partner has a different shape, which C01 requires to be rejected).", "6/C04"),
 "C05": ("model_checking", "TLA+ Normalize theorem + WellFormed predicate enumerated by TLC; every spelling and every perturbed request replayed on the real API",
         "TLC proves Expand(t)=Expand(Normalize(t)) on every enumerated tree incl. unary wrappers and emits all spellings grouped by normal form; all spellings must run the spec's jobs on pydra (state level all, API sample) and agree with each other. SplitAlgebra_Req enumerates valid requests and all single-point perturbations; WellFormed=FALSE must give an error with zero executed bodies and no job directory.",
         "Trusted: TLC, spec, JSON bridge. Requests use lists of length 2. Unary wrappers: one per tree.", "6/C05"),
}

def C(level, technique, text, note, ref):
    return (level, technique, text, note, ref)

CLAIMS.update({
 "C03": C("model_checking", "TLA+ reference semantics WfState (named axes, natural join) evaluated by TLC per workflow record; every node output of the real workflow compared; recorded findings matched on as-built class + prediction",
          "Workflow records (all 1-2 node workflows in thorough, seeded 3-4 node samples, diamond, triangle and three-input families, nested-workflow nodes, splits over upstream outputs, list-maker and zero-job nodes) are evaluated by TLC with the nested-loop reference; each is materialised as source text and run for real; every node's output must equal TLC's symbolic term (pairing, order, loss, duplication).",
          "Trusted: TLC, WfState.tla, JSON bridge, generated source. Not replayed: records TLC flags as ragged/unsplittable upstream values or zero jobs under a partial combiner. Four recorded known-finding classes are matched only on class + as-built observation.", "6/C03"),
 "C06": C("model_checking", "Identity.tla (relational cache-identity spec): TLC-enumerated submission histories replayed on pydra, events validated by TLC (M4)",
          "TLC enumerates every 4-submission history over task pairs differing in one of 13 aspects; each history is executed in a fresh cache root and the (key, hit, output) events are validated against Identity!Submit (a hit only after an equal semantic key; outputs equal a fresh execution).",
          "Trusted: TLC, the aspect labelling of generated source text, textual output comparison; 32 concrete task pairs, debug worker.", "6/C06"),
 "C07": C("model_checking", "Identity.tla Deterministic/FoundByNext over observations recorded in several interpreter sessions, validated by TLC",
          "Digest, checksum and cache directory must be a function of the TLA+-built canonical key across sessions with different PYTHONHASHSEED, insertion orders, pickling, worker and cache-root path; a later session must find the result.",
          "Seeds are sampled (0,1,2,3,random); term_of projection trusted but checked per event.", "6/C07"),
 "C08": C("model_checking", "Identity_Obs: canonical keys built in TLA+; Deterministic, ContextFree, Injective checked by TLC over all observation pairs",
          "TLC generates the value grammar (depth 2 + extended atoms incl. types, functions, stateless callables - built-ins, ufuncs, method descriptors, itemgetters, partials -, objects, paths; arrays by shape x dtype); every term is hashed alone, reordered, shared, pickled, inside containers, after other values; TLC checks the three relations over all pairs.",
          "The relational oracle says nothing about values that raise (mixed-type sets).", "6/C08"),
 "C09": C("model_checking", "FileHash.tla state machine (ideal / as-built / documented-guard key modes) model-checked; TLC behaviours replayed on a real directory with two processes",
          "M1 on the three key modes; every behaviour of <=3 (quick) / <=4 (+2000 simulated length 5, thorough) file operations replayed with os.utime-controlled mtimes and a private persistent hash cache; directory projection compared after each step, each digest compared with a cold-cache digest.",
          "mtimes are set explicitly (file-system resolution not exercised). Known finding C09-mtime-key matched only when the digest equals the as-built model's prediction.", "6/C09"),
 "C10": C("model_checking", "JobProtocol.tla: TLC exhaustive interleavings (M1); TLC behaviours forced on real processes through gated hook points (M3); hook traces validated by TLC (M4); lock core proved for any number of processes with TLAPS (LockCore.tla) and linked to JobProtocol by a TLC-checked refinement",
          "3 processes x every interleaving in the model; mutual exclusion / one body / no partial output proved inductive for an arbitrary process set; two submitters of one slow workflow under the cf worker (asynchronous job lock with growing poll interval); complete 2-process behaviours (exhaustive) and simulated 3-process behaviours replayed on forked real processes calling task(cache_root=shared); adversarial free-running races; every trace checked action by action incl. logged file-system state; end state: one body execution, identical outputs.",
          "Trusted: TLC, hook placement (Appendix A), normalisation of the hook log, SoftFileLock mutual exclusion on a local FS.", "6/C10"),
 "C11": C("model_checking", "JobProtocol.tla (read-only caches, leftovers, rerun) + RerunProp.tla; TLC histories executed for real; traces validated by TLC",
          "M1 with two read-only caches, leftover directories and rerun flags; every one-process 3-submission history and simulated 2-process histories executed; body counts equal the behaviour's BodyStart steps; read-only caches byte-identical; workflow histories over (rerun, propagate_rerun) compared with RerunProp.",
          "Leftover 'partial' result = first half of a real result file.", "6/C11"),
 "C12": C("fault_enumeration", "JobProtocol.tla with Crash at every control point (M1 + liveness under fairness); real processes killed at every hook point; traces validated by TLC; every truncation length of a result file",
          "One kill per hook point on the execution path (ok / raising body; thorough: rerun over a result, double crash), two resubmissions each must return the correct result in time; M4 validation incl. StaleBreak; load_result on every prefix of a real _result.pklz.",
          "Assumes filelock>=3.13 stale-lock breaking on the same host (verified on each run). Time-outs are retried once alone with 4x the bound before being reported.", "6/C12"),
 "C13": C("model_checking", "JobProtocol.tla with body outcomes {ok, raise, collect-failure}: M1 + every 3-submission history executed (python, two-output python, workflow) + M4",
          "ErrNeverServed, RaiseIsReported, ErrorRecorded in the model; per history: statuses, body counts and error text must match the behaviour; traces validated. Failure histories [fail, cause removed, resubmit, resubmit] for shell commands (exit 1, exit 3, SIGKILL, SIGTERM) and for a workflow with a failing node under max_concurrent 0/1/2 and the debug/cf workers: failed, executed again, then served from the cache.",
          "Same identity made to succeed later through a side file (not part of the cache identity).", "6/C13"),
 "C14": C("model_checking", "Submitter.tla (expansion loop + worker pool) M1 over DAGs x failing subsets; TLC schedules forced on a real cf Submitter with token-gated bodies; traces validated by TLC",
          "IndependentJobsRun, DependentsNeverRun, ErrorNamesEveryFailedJob, FailureIsReported, NeverCrashes for every interleaving of worker progress and scans; sampled schedules replayed (bodies released/failed in order, waiting for the loop's scan in between).",
          "Scan is modelled atomically; launch order within a pass is not controlled.", "6/C14"),
 "C15": C("model_checking", "Submitter.tla M1 (StartAfterPredsSucceeded, EachJobOnce) + TLC schedules on real cf/debug Submitter + M4",
          "Chains, fan-in/out, diamonds, split nodes, a zero-job node x K x every interleaving in the model; sampled completion orders forced on the cf worker; debug worker ungated; body start/end events validated.",
          "Node-level gating as in the code (a node starts when all jobs of all predecessors are done).", "6/C15"),
 "C16": C("model_checking", "Submitter.tla WithinLimit M1 + held bodies on a real cf Submitter, concurrency measured from events by TLC",
          "K in 1..3 over independent/split/chained jobs, every interleaving; schedules replayed with 8 pool processes so only max_concurrent limits; in-flight count evaluated by the WithinLimit invariant on the trace.",
          "In flight = launched and body not ended.", "6/C16"),
 "C17": C("model_checking", "WfState.tla reference (TLC) as single oracle for every worker configuration; Submitter.tla covers schedule independence of the loop",
          "C03 generator (incl. nested workflows, splits over upstream outputs, the empty-split family) x {debug, cf 1/2/4/8 procs} x max_concurrent x seeded per-job delays; all node outputs equal TLC's terms.",
          "Completion orders permuted by delays, not forced (forced orders: C15). Records of recorded C03 findings skipped.", "6/C17"),
 "C18": C("model_checking", "Liveness by TLC: Submitter.tla <>Terminated under fairness; GraphSort.tla terminates for every edge set (cycles included); every edge set built for real under a time bound",
          "GraphSort enumerates all edge sets over 3 (4) nodes with expected verdict; sampled sets x typed/untyped x worker built through node input assignment and submitted in a child with a wall-clock bound; killed = violation; verdict/outputs as specified.",
          "40 s bound, retried once alone with 160 s.", "6/C18"),
 "C19": C("model_checking", "InputIntegrity.tla (aliasing model) enumerated by TLC; every case run for real",
          "8 input kinds x {debug, cf} x mutates: caller value unchanged or error naming the field; result stored under the original identity; copy-mode files leave the original.",
          "Thin use of TLA+ (32 cases).", "6/C19"),
 "C20": C("model_checking", "TypeCoerce.tla: TLC enumerates (type, value) pairs; TypeParser / task field / setattr observations validated by TLC (Conforms, StrSeqConfusion, idempotence)",
          "All atom and depth-1 types + seeded depth-2 slice (quick) / all 685 types (thorough) x ~105 values; accepted results must conform, not confuse str/sequence, and be stable under re-coercion.",
          "Grammar depth <=2, File/Directory only; several outcomes observed only (str->set, bytes->ints).", "6/C20"),
 "C21": C("model_checking", "TypeCoerce_Triples: TLC enumerates (S, T, v) over statically accepted pairs; runtime coercion executed; two-node workflows on a sample",
          "check_type without superclass_auto_cast over ordered pairs; every judged triple must be accepted at run time.",
          "Tuple arity and file existence set aside.", "6/C21"),
 "C22": C("model_checking", "ShellArgv.tla admissible argv sets enumerated by TLC; replay on _command_args and executed argv (argvdump)",
          "Every 1-field and reduced 2-field definition x positions x values, seeded 2-4 field definitions; argv must be in TLC's admissible set.",
          "4 open points admitted as sets; definition-time position rejections observed only.", "6/C22"),
 "C23": C("model_checking", "ShellArgv.tla Intact + TLA+ shlex model as as-built predictor; all strings <=3 over a 10-char alphabet x 10 placements",
          "Each element must arrive verbatim as its own argument or inside the argument its argstr/separator builds.",
          "Known retokenisation findings matched only on the exact as-built argv.", "6/C23"),
 "C24": C("model_checking", "PosixWords.tla POSIX word-splitting machine (TLC-stepped, cross-checked with /bin/sh); (cmdline, argv) pairs validated by TLC",
          "Pairs recorded from the C23 space and seeded C22 definitions; faithful iff Split(cmdline) is ok and equals argv.",
          "POSIX-unspecified renderings observed only.", "6/C24"),
 "C25": C("model_checking", "CmdTemplate.tla: TLC enumerates templates of the documented grammar with expected field table and argv; replay on shell.define and executed runs",
          "Exhaustive <=1 element of a 212-element menu and <=4 of a 13-element core menu, seeded pair shards, -simulate walks to 6 elements.",
          "6-token space sampled.", "6/C25"),
 "C26": C("model_checking", "PathTemplate.tla: TLC generation (M2) + TLC validation of observations (M4)",
          "Template x file name x second input x keep_extension x output setting x output type; Job.inputs (twice), executed argv and collected outputs validated against PathTemplate!Failures.",
          "Exact file name recorded, not judged.", "6/C26"),
 "C27": C("model_checking", "ContainerEnv.tla enumerated by TLC; real Job/Submitter/Docker/Singularity with environments.base.execute replaced by a recorder",
          "Definition x layout x copy mode x root x runtime; runtime prefix, bind set with modes, workdir and remapped argv compared; native run as relational cross-check.",
          "No container runtime in the sandbox.", "6/C27"),
 "C28": C("model_checking", "BatchWorker.tla (adversarial scheduler, prophecy-chosen response script) M1 + liveness; behaviours replayed on real SlurmWorker/SgeWorker against fake scheduler executables",
          "Every response sequence <=6 and every -J/-o/-e/--no-requeue combination in the model; generated behaviours replayed step-wise (submit/poll/requeue events, verdict, argv).",
          "Scheduler simulated by fake sbatch/squeue/sacct/scontrol/qsub/qstat/qacct.", "6/C28"),
 "C29": C("model_checking", "Shipping.tla (Ship = stuttering step on the job projection) validating recorded round trips through a fresh interpreter",
          "C03 workflow records, python and shell tasks x worker/submitter configurations enumerated by TLC (Shipping_Gen: plugin x by name/class/instance x parameter set x caches x audit x max_concurrent): projection (every scalar worker parameter, pool size) before/after cloudpickle in another interpreter, outputs of the shipped run, result read back, reference run.",
          "Thin use of TLA+ (one action + a configuration generator); batch-system workers are shipped and projected, not run.", "6/C29"),
 "C30": C("model_checking", "WfConstructCache.tla M1 (Transparent, NoLeak) + every TLC history replayed in one interpreter and compared with fresh constructions",
          "Histories of construct(w, inputs, lazy)/run over two definitions (one value-dependent), three vectors, every lazy set, and over a definition with a file input given the same file at two paths (as-built switch KeyOnContentOnly shows TLC the leak); projection of each returned workflow equals a fresh construction's; no shared node objects between different constructions.",
          "Usage assumption made explicit by TLC: branch inputs are never lazy.", "6/C30"),
 "C35": C("fault_enumeration", "JobProtocol.tla with exception injection (M1, intended vs as-built switch); exception raised from every hook point of the real code; traces validated against both; hook counts",
          "CwdRestored, InfoRemoved, DirHasJobAndResult, TaskHooksOncePerExecution; injected runs accepted by the intended design or exactly by the as-built switch within the recorded class.",
          "Injection at a point = failure of the step following that point.", "6/C35"),
 "C36": C("model_checking", "Provenance.tla M1 + FileMessenger messages ordered/attributed through audit hook events, validated by TLC",
          "Pool of 6 task kinds x {PROV, ALL} (+cf on workflows): one start and one end record per executed job with the job's own id, end flag = job result.",
          "Message attribution uses the activity id the job held at audit_started/audit_finalized.", "6/C36"),
 "C39": C("model_checking", "LmodEnv.tla enumerated by TLC; real Lmod.execute with a fake lmod and an environment-dumping executable",
          "Caller environments x module scripts x quoted values; argv, pass-through and module-set projections compared.",
          "No Lmod in the sandbox; unset outcome left open.", "6/C39"),
})
CLAIMS.update({
 "C31": C("model_checking", "Rules.tla (Executable transcribed with quantifiers) enumerated by TLC per definition with a verdict table per assignment; replay on _check_rules and executed runs (direct, workflow node, lazy inputs)",
          "Every definition of the bounded families (<=4 fields exhaustively, 5 on a seed-chosen shard; requires with/without allowed values; xor groups with/without None) x every value assignment; python.define and shell.define classes must agree; violations reported with no task body run and no job directory.",
          "Falsy-but-set values, self-requirements and allowed values on non-str fields are outside the menu.", "6/C31"),
 "C32": C("model_checking", "DefRoundTrip.tla (FromDict o ToDict preserves the projection, checked by TLC) + real unstructure->structure compared with the TLC projection, verdicts and command lines",
          "The C31 rule space and field-template definitions (help, allowed values, argstr, sep, default, positions, rules): the re-created class must have the spec's projection (incl. field order and output order) and give the same rule verdict / cmdline on every assignment and the same outputs on an executed sample.",
          "TLA+ serves mainly as relational/projection oracle here; JSON leg is an observation; the `requires` finding is fixed (its as-built reference remains as model sensitivity).", "6/C32"),
 "C33": C("model_checking", "Staging.tla enumerated by TLC (one state per nested output value); replayed on real one-node workflows",
          "Shape, content, destinations inside the workflow directory, distinct sources to disjoint destinations, sources intact.",
          "Values to depth 2; quick is a seeded sample.", "6/C33"),
 "C34": C("model_checking", "Staging.tla + copy-mode table enumerated by TLC; replayed through Job.inputs of real Jobs with inode / write-through probes",
          "copy => independent (write probes both ways), link/hardlink/symlink => shows the original, shape and non-file values kept, same object staged once; two file fields of one task are each staged by their own mode (Staging!LeafDemand), also when they hold the same object.",
          "Destinations across fields are left open by the statement.", "6/C34"),
 "C37": C("model_checking", "DiGraphSpec.tla state machine: TLC design check (all valid orders) + TLC behaviours (BFS paths, -simulate 12 steps / 6 nodes) replayed step by step on a real DiGraph + TLC validation of recorded sorted lists",
          "SortedValid, AcyclicInv on <=4 nodes exhaustively; every behaviour replayed in four call variants comparing nodes, edges, wip, predecessors, successors, sorted_nodes after each step.",
          "add_edges while a removed node still has connections is left open by the statement.", "6/C37"),
 "C38": C("model_checking", "Mounts.tla (longest component-wise prefix) enumerated by TLC (tables x query paths); replayed through parse_mount_table / patch_table / get_mount / on_cifs / on_same_mount on Linux and macOS renderings",
          "Every table of <=3 entries over <=2-3 component mount points x 40+ query paths, two renderings, shuffled lines.",
          "Non-CIFS mounts are dropped from the table by design.", "6/C38"),
})
NOT_YET = "check still being built in this session (the property is intended to be decided by the TLA+ suite, see DESIGN.md section 6)"

def main():
    checks = []
    for pid in ALL:
        if pid not in CLAIMS:
            continue
        level, tech, text, note, ref = CLAIMS[pid]
        checks.append({
            "property_id": pid,
            "quick_cmd": f"./check {pid} --tier quick",
            "thorough_cmd": f"./check {pid} --tier thorough",
            "evidence_file": f"/verif/evidence/{pid}.json",
            "replay_cmd_template": f"./check {pid} --replay {{path}}",
            "engine": "tlc+replay",
            "level_claimed": {"category": level, "text": text, "design_ref": f"DESIGN.md section {ref}"},
            "level_note": note,
            "technique": tech,
        })
    hook_commits = []
    hc = os.path.join(ROOT, "hook_commits.txt")
    if os.path.exists(hc):
        hook_commits = [l.split()[0] for l in open(hc) if l.strip()]
    man = {
        "version": 1,
        "setup_cmd": "./check --setup",
        "hooks": {
            "guard": "NIPYPE_PYDRA_VERIF",
            "enable": "export NIPYPE_PYDRA_VERIF=1 NIPYPE_PYDRA_VERIF_HANDLER=harness.handler PYTHONPATH=/repo:/verif (pure-python project: no build step; the checks import pydra from /repo's working tree)",
            "baseline_off_cmd": "cd /repo && env -u NIPYPE_PYDRA_VERIF /venv/bin/python -m pytest -ra -q -p no:cacheprovider --timeout=900 --continue-on-collection-errors",
            "source_commits": hook_commits,
            "add_only": True,
        },
        "engines": [
            {"name": "tlc+replay", "path": "/verif/check", "serves_properties": sorted(CLAIMS),
             "kind_free_text": "explicit TLA+ specifications (specs/*.tla) checked / enumerated by TLC 1.8; cases, behaviours and traces bound to the real pydra by replay and trace validation (harness/)"},
        ],
        "checks": checks,
        "not_applicable": [{"property_id": p, "reason": NOT_YET} for p in ALL if p not in CLAIMS],
        "notes": "See DESIGN.md. known_findings.json lists recorded genuine defects (status known) and repaired ones (status fixed).",
    }
    json.dump(man, open(os.path.join(ROOT, "MANIFEST.json"), "w"), indent=1)
    print("claimed", len(checks), "not_applicable", len(man["not_applicable"]))

if __name__ == "__main__":
    main()
