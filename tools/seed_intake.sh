#!/bin/sh
# tools/seed_intake.sh <worktree> <seed-name> : copy seed files, confirm the demo fails with / passes without the change
wt=$1; name=$2
mkdir -p /verif/seeded/$name
cp $wt/seed/patch.diff $wt/seed/meta.json /verif/seeded/$name/
demo=$(ls $wt/seed/demo.py $wt/seed/test_demo.py 2>/dev/null | head -1)
cp $demo /verif/seeded/$name/
cd $wt
git checkout -q -- pydra; git apply seed/patch.diff || { echo "patch does not apply"; exit 2; }
run() { case $demo in *test_demo.py) PYTHONPATH=$wt NIPYPE_PYDRA_VERIF=1 timeout 1500 /venv/bin/python -m pytest -q -p no:cacheprovider $demo >/tmp/intake_$name.$1.log 2>&1;; *) PYTHONPATH=$wt NIPYPE_PYDRA_VERIF=1 timeout 1500 /venv/bin/python $demo >/tmp/intake_$name.$1.log 2>&1;; esac; echo $?; }
w=$(run with)
git apply -R seed/patch.diff
wo=$(run without)
git apply seed/patch.diff
echo "INTAKE $name demo_with=$w demo_without=$wo"
