#!/bin/sh
# tools/seed_regression.sh [seed-id ...] : re-run every seeded change (or the given ones) against the check of its property;
# prints one line per seed; exit 1 if a seed is no longer detected (or its patch no longer applies)
cd /verif
ids="$@"; [ -z "$ids" ] && ids=$(ls seeded)
bad=0
for id in $ids; do
  prop=$(printf '%s' "$id" | cut -c1-3)
  line=$(tools/run_seed.sh "$id" "$prop" 2>&1 | grep "^SEED\|^PATCH" | cut -c1-180)
  echo "$line"
  case "$line" in *"exit=1 "*) ;; *) bad=1;; esac
done
exit $bad
