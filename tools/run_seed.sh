#!/bin/sh
# tools/run_seed.sh <seed-id> <check> [<check> ...]
# Applies /verif/seeded/<seed-id>/patch.diff to a scratch copy of /repo's working tree and runs the
# given checks (quick tier) against it with VERIF_REPO; prints one line per check; removes the copy.
id=$1; shift
d=$(mktemp -d /tmp/seedrun_XXXXXX)
cp -r /repo/pydra "$d/pydra"
pf=/verif/seeded/$id/patch.diff
[ -f /verif/seeded/$id/patch_rebased.diff ] && pf=/verif/seeded/$id/patch_rebased.diff   # the tree moved under the seed (a later fix: commit)
if ! (cd "$d" && patch -p1 -s < $pf); then echo "PATCH-FAILED $id"; rm -rf "$d"; exit 2; fi
for c in "$@"; do
  out=$(cd /verif && VERIF_REPO="$d" VERIF_EVIDENCE_DIR="$d/evidence" VERIF_REPLAYS_DIR="$d/replays" ./check "$c" --tier ${TIER:-quick} 2>&1)
  rc=$?
  nv=$(printf '%s\n' "$out" | grep -c '^VIOLATION')
  first=$(printf '%s\n' "$out" | grep -m1 'what:' | cut -c1-160)
  echo "SEED $id CHECK $c exit=$rc violations=$nv $first"
done
rm -rf "$d"
