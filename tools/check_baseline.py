#!/usr/bin/env python3
"""Compare a junit xml of the repository suite with BASELINE.json stable_pass."""
import json, sys, xml.etree.ElementTree as ET
b = json.load(open('/root/.vp/BASELINE.json'))
want = set(b['stable_pass'])
passed, failed = set(), set()
for tc in ET.parse(sys.argv[1]).getroot().iter('testcase'):
    name = f"{tc.get('classname')}::{tc.get('name')}"
    bad = any(c.tag in ('failure', 'error') for c in tc)
    skipped = any(c.tag == 'skipped' for c in tc)
    (failed if bad else passed).add(name) if not skipped else None
missing = sorted(want - passed)
print("stable_pass:", len(want), "passed now:", len(passed & want), "not passing:", len(missing))
for m in missing[:40]:
    print("  ", m, "(failed)" if m in failed else "(absent/skipped)")
sys.exit(1 if missing else 0)
