#!/usr/bin/env python3
"""tools/seed_record.py <seed-id> <demo_with_exit> <demo_without_exit> "<check results...>" : records the lead's confirmation in meta.json"""
import json, sys
sid, w, wo, res = sys.argv[1:5]
p = f"/verif/seeded/{sid}/meta.json"
m = json.load(open(p))
m["lead_confirmation"] = {"demo_exit_with_change": int(w), "demo_exit_without_change": int(wo),
                          "how": "demo run in the seeder's scratch worktree with the change, then with the change stashed; checks run with tools/run_seed.sh (scratch copy of /repo + patch, VERIF_REPO)",
                          "checks": res}
json.dump(m, open(p, "w"), indent=1)
