import os, sys, time, tempfile, subprocess
from pathlib import Path
from pydra.compose import python

@python.define
def Crashy(x: int, flag: str) -> int:
    import os
    if os.path.exists(flag):
        os._exit(137)
    return x + 1

if __name__ == "__main__":
    if sys.argv[1] == "child":
        out = Crashy(x=1, flag=sys.argv[3])(cache_root=sys.argv[2])
        print("child out", out.out)
    else:
        tmp = tempfile.mkdtemp(); cache = os.path.join(tmp, "c"); flag = os.path.join(tmp, "flag")
        Path(flag).touch()
        env = dict(os.environ, PYTHONPATH="/repo")
        r = subprocess.run([sys.executable, __file__, "child", cache, flag], env=env, capture_output=True, text=True)
        print("crashed rc", r.returncode, sorted(os.listdir(cache)))
        os.unlink(flag)
        t0 = time.time()
        try:
            r = subprocess.run([sys.executable, __file__, "child", cache, flag], env=env, capture_output=True, text=True, timeout=30)
            print("resubmit rc", r.returncode, r.stdout.strip(), r.stderr.strip()[-300:], round(time.time()-t0,2))
        except subprocess.TimeoutExpired:
            print("resubmit HUNG")
        print(sorted(os.listdir(cache)))
