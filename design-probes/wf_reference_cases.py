import sys, json
sys.argv = sys.argv[:1]
from wf_reference_prototype import *
inputs = {"A": [1,2], "B": [10,20,30], "s": 5}
def W(nodes, outs=None):
    return dict(inputs=list(inputs), nodes=nodes, outputs=outs or {"o0": nodes[-1]["name"]})
n = lambda name, x=None, y=None, **kw: dict(name=name, x=x, y=y, **kw)
wf_, nd, cst = (lambda k: ("wf", k)), (lambda k: ("node", k)), (lambda v: ("const", v))
cases = {
 "diamond": W([n("a", wf_("A"), split="x"), n("b", nd("a")), n("c", nd("a")), n("d", nd("b"), nd("c"))]),
 "direct+via": W([n("a", wf_("A"), split="x"), n("b", nd("a")), n("d", nd("a"), nd("b"))]),
 "via+direct": W([n("a", wf_("A"), split="x"), n("b", nd("a")), n("d", nd("b"), nd("a"))]),
 "diamond-own-split-branch": W([n("a", wf_("A"), split="x"), n("b", nd("a"), wf_("B"), split="y"), n("c", nd("a")), n("d", nd("b"), nd("c"))]),
 "two-origins-diamond": W([n("a", wf_("A"), split="x"), n("e", wf_("B"), split="x"), n("b", nd("a"), nd("e")), n("c", nd("a")), n("d", nd("b"), nd("c"))]),
 "comb-upstream-axis-at-downstream": W([n("a", wf_("A"), split="x"), n("e", wf_("B"), split="x"), n("d", nd("a"), nd("e"), comb=["a.x"])]),
 "comb-all-upstream-with-own-split": W([n("a", wf_("A"), split="x"), n("d", nd("a"), wf_("B"), split="y", comb=["a.x"])]),
 "comb-own-keep-upstream": W([n("a", wf_("A"), split="x"), n("d", nd("a"), wf_("B"), split="y", comb=["y"])]),
 "zip-comb-one-then-downstream": W([n("a", wf_("A"), wf_("A"), split=(".", ["x","y"]), comb=["y"]), n("d", nd("a"))]),
 "chain3-comb-middle": W([n("a", wf_("A"), wf_("B"), split=("*", ["x","y"])), n("b", nd("a"), comb=["a.x"]), n("c", nd("b"))]),
 "fanout-then-join-after-comb": W([n("a", wf_("A"), wf_("B"), split=("*", ["x","y"])), n("b", nd("a"), comb=["a.x"]), n("c", nd("a"), comb=["a.y"]), n("d", nd("b"), nd("c"))]),
}
for name, wf in cases.items():
    ref = ref_eval(wf, inputs)
    try:
        got = run_pydra(wf, inputs); gerr = None
    except Exception as e:
        got = None; gerr = f"{type(e).__name__}: {str(e)[:100]}"
    if gerr: verdict = "PYDRA-ERROR " + gerr
    elif ref[0] == "OK" and norm(got) == norm(ref[1]): verdict = "agree"
    else: verdict = "MISMATCH"
    print(f"{name:38s} {verdict}")
    if verdict == "MISMATCH":
        g = got["o0"]; r = ref[1]["o0"]
        print("      got n=%d %s" % (len(g), str(g)[:260])); print("      ref n=%d %s" % (len(r), str(r)[:260]))
