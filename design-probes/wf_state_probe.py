import tempfile, typing as ty
from pydra.compose import python, workflow
from pydra.engine.workflow import Workflow

@python.define
def N(name: str, x: ty.Any = None, y: ty.Any = None) -> ty.Any:
    return (name, x, y)

def run(wfcls, **kw):
    tmp = tempfile.mkdtemp()
    try:
        out = wfcls(**kw)(cache_root=tmp)
        return out
    except Exception as e:
        return f"ERR {type(e).__name__}: {str(e)[:150]}"

# fan-in of two independent splits
@workflow.define
def FanIn(xs, ys):
    a = workflow.add(N(name="a").split(x=xs), name="a")
    b = workflow.add(N(name="b").split(x=ys), name="b")
    c = workflow.add(N(name="c", x=a.out, y=b.out), name="c")
    return c.out
print("FanIn", run(FanIn, xs=[1,2], ys=[10,20,30]))

# diamond: shared origin aligned
@workflow.define
def Diamond(xs):
    a = workflow.add(N(name="a").split(x=xs), name="a")
    b = workflow.add(N(name="b", x=a.out), name="b")
    c = workflow.add(N(name="c", x=a.out), name="c")
    d = workflow.add(N(name="d", x=b.out, y=c.out), name="d")
    return d.out
print("Diamond", run(Diamond, xs=[1,2]))

# same upstream used twice
@workflow.define
def Twice(xs):
    a = workflow.add(N(name="a").split(x=xs), name="a")
    d = workflow.add(N(name="d", x=a.out, y=a.out), name="d")
    return d.out
print("Twice", run(Twice, xs=[1,2]))

# upstream + own splitter, y first in fields? own splitter on y
@workflow.define
def Own(xs, ys):
    a = workflow.add(N(name="a").split(x=xs), name="a")
    d = workflow.add(N(name="d", x=a.out).split("y", y=ys), name="d")
    return d.out
print("Own", run(Own, xs=[1,2], ys=[10,20]))

# combine upstream axis at downstream node
@workflow.define
def CombDown(xs, ys):
    a = workflow.add(N(name="a").split(x=xs), name="a")
    d = workflow.add(N(name="d", x=a.out).split("y", y=ys).combine("a.x"), name="d")
    e = workflow.add(N(name="e", x=d.out), name="e")
    return e.out
print("CombDown", run(CombDown, xs=[1,2], ys=[10,20]))

# combine own at a, feed list to b
@workflow.define
def CombUp(xs, ys):
    a = workflow.add(N(name="a").split(["x","y"], x=xs, y=ys).combine("x"), name="a")
    b = workflow.add(N(name="b", x=a.out), name="b")
    return b.out
print("CombUp", run(CombUp, xs=[1,2], ys=[10,20]))

# diamond where one branch adds a split
@workflow.define
def Diamond2(xs, ys):
    a = workflow.add(N(name="a").split(x=xs), name="a")
    b = workflow.add(N(name="b", x=a.out).split("y", y=ys), name="b")
    c = workflow.add(N(name="c", x=a.out), name="c")
    d = workflow.add(N(name="d", x=b.out, y=c.out), name="d")
    return d.out
print("Diamond2", run(Diamond2, xs=[1,2], ys=[10,20]))
