import os, tempfile
from pathlib import Path
from fileformats.generic import File
from pydra.compose import shell
from pydra.engine.submitter import Submitter
from pydra.environments import docker, singularity, base as envbase
tmp = Path(tempfile.mkdtemp())
def mkf(d, name):
    p = tmp / d; p.mkdir(exist_ok=True); f = p / name; f.write_text("x"); return f
calls = []
def fake_execute(cmd, strip=False, **kw):
    calls.append(list(map(str, cmd))); return (0, "out", "")
envbase.execute = fake_execute
def run(env, **fields_vals):
    calls.clear()
    Sh = shell.define("cat", inputs={"f": shell.arg(type=File, argstr=""), "g": shell.arg(type=File, argstr="-g", copy_mode=File.CopyMode.copy), "fs": shell.arg(type=list[File], argstr="-l", default=None) if False else shell.arg(type=list[File], argstr="-l")})
    t = Sh(**fields_vals)
    cache = tmp / "cache"
    with Submitter(cache_root=cache, environment=env) as sub:
        try:
            sub(t)
        except Exception as e:
            return f"ERR {type(e).__name__}: {str(e)[:120]}"
    return [c.replace(str(tmp), "<T>") for c in calls[-1]]
f1 = mkf("d 1", "a.txt"); f2 = mkf("d2", "b.txt"); f3 = mkf("d2", "c.txt"); f4 = mkf("d3", "e.txt")
for env in [docker.Docker(image="img", tag="1"), singularity.Singularity(image="img", root="/r/")]:
    print(type(env).__name__, run(env, f=File(f2), g=File(f4), fs=[File(f3), File(f4)]))
print("space in dir:", run(docker.Docker(image="img"), f=File(f1), g=File(f4), fs=[File(f3)]))
