"""Prototype (design probe): named-axes reference evaluation of small workflows vs pydra."""
import itertools, random, tempfile, typing as ty, json, sys, traceback, collections
from pydra.compose import python, workflow

@python.define
def N(name: str, x: ty.Any = None, y: ty.Any = None) -> ty.Any:
    return [name, x, y]

# ---------- workflow record ----------
# node = dict(name, x=src, y=src, split=None|"x"|"y"|("*",["x","y"])|(".",["x","y"]) , spell="bare"|"kw", comb=[axis names])
# src = ("wf", key) | ("node", name) | ("const", v) | None
def tree_fields(t):
    if t is None: return []
    if isinstance(t, str): return [t]
    return [f for k in t[1] for f in tree_fields(k)]

def expand(t, lens):
    """list of dict field->index ; None if ill-shaped"""
    if isinstance(t, str): return [{t: i} for i in range(lens[t])]
    op, kids = t
    es = [expand(k, lens) for k in kids]
    if any(e is None for e in es): return None
    if op == "*":
        out = [{}]
        for e in es: out = [dict(a, **b) for a in out for b in e]
        return out
    if len({len(e) for e in es}) != 1: return None
    return [dict(collections.ChainMap(*[e[i] for e in es])) for i in range(len(es[0]))]

def axes_groups(t):
    """partition of fields into zipped axes (list of sets, in order)"""
    if isinstance(t, str): return [{t}]
    op, kids = t
    gs = [axes_groups(k) for k in kids]
    if op == "*": return [g for k in gs for g in k]
    return [set().union(*[k[i] for k in gs]) for i in range(len(gs[0]))]

def ref_eval(wf, inputs, align=True):
    nodes = wf["nodes"]; info = {}
    for nd in nodes:
        nm = nd["name"]
        # upstream coords relation
        R = [{}]; zgroups = []   # zgroups: list of sets of axis ids that are zipped
        ups = [nd[f][1] for f in ("x","y") if nd.get(f) and nd[f][0]=="node"]
        seen_up = []
        for u in ups:
            if u in seen_up: continue
            seen_up.append(u)
            ui = info[u]
            newR = []
            for r in R:
                for e in ui["keys"]:
                    if align:
                        if all(r.get(a, e[a]) == e[a] for a in e): newR.append({**r, **e})
                    else:
                        raise NotImplementedError
            R = newR
            zgroups += [g for g in ui["zrem"] if g not in zgroups]
        # own splitter
        own = nd.get("split")
        if own is not None:
            lens = {f: len(inputs[nd[f][1]]) for f in tree_fields(own)}
            ex = expand(own, lens)
            if ex is None: return ("REJECT", nm)
            R = [{**r, **{f"{nm}.{f}": i for f, i in e.items()}} for r in R for e in ex]
            zgroups += [{f"{nm}.{f}" for f in g} for g in axes_groups(own)]
        # jobs
        jobs = []
        for r in R:
            vals = {}
            for f in ("x","y"):
                s = nd.get(f)
                if s is None: vals[f] = None
                elif s[0] == "const": vals[f] = s[1]
                elif s[0] == "wf":
                    v = inputs[s[1]]
                    vals[f] = v[r[f"{nm}.{f}"]] if own is not None and f in tree_fields(own) else v
                else:
                    ui = info[s[1]]
                    key = tuple(sorted((a, r[a]) for a in ui["rem"]))
                    vals[f] = ui["out"][key]
            jobs.append((r, [nm, vals["x"], vals["y"]]))
        # combiner
        comb = set(nd.get("comb") or [])
        comb = {c if "." in c else f"{nm}.{c}" for c in comb}
        allaxes = []
        for r, _ in jobs[:1]: allaxes = list(r.keys())
        if not jobs:
            allaxes = []
        closure = set()
        for g in zgroups:
            if g & comb: closure |= g
        rem = [a for a in allaxes if a not in closure]
        out = collections.OrderedDict()
        for r, term in jobs:
            key = tuple(sorted((a, r[a]) for a in rem))
            if closure:
                out.setdefault(key, []).append(term)
            else:
                out[key] = term
        keys = [dict(k) for k in out.keys()]
        info[nm] = dict(jobs=jobs, rem=rem, keys=keys, out=out, zrem=[g - closure for g in zgroups if g - closure], njobs=len(jobs))
    res = {}
    for oname, nm in wf["outputs"].items():
        ui = info[nm]
        if ui["rem"]: res[oname] = list(ui["out"].values())
        else:
            vals = list(ui["out"].values())
            res[oname] = vals[0] if vals else []
    return ("OK", res, {n: info[n]["njobs"] for n in info})

# ---------- build pydra workflow from record ----------
def to_spl(t):
    if isinstance(t, str): return t
    op, kids = t
    ks = [to_spl(k) for k in kids]
    return ks if op == "*" else tuple(ks)

def build(wf):
    in_names = wf["inputs"]
    def constructor(**kw):
        outs = {}
        for nd in wf["nodes"]:
            args = {}; splitargs = {}
            own = nd.get("split"); ofields = tree_fields(own)
            for f in ("x","y"):
                s = nd.get(f)
                if s is None: continue
                v = kw[s[1]] if s[0]=="wf" else (outs[s[1]].out if s[0]=="node" else s[1])
                if f in ofields: splitargs[f] = v
                else: args[f] = v
            t = N(name=nd["name"], **args)
            if own is not None:
                if nd.get("spell") == "kw" and isinstance(own, str):
                    t = t.split(**splitargs)
                else:
                    t = t.split(to_spl(own), **splitargs)
            if nd.get("comb"):
                t = t.combine(list(nd["comb"]))
            outs[nd["name"]] = workflow.add(t, name=nd["name"])
        return tuple(outs[n].out for n in wf["outputs"].values())
    constructor.__name__ = "GenWf"
    import inspect
    params = [inspect.Parameter(n, inspect.Parameter.POSITIONAL_OR_KEYWORD, annotation=ty.Any) for n in in_names]
    constructor.__signature__ = inspect.Signature(params)
    return workflow.define(constructor, outputs={o: ty.Any for o in wf["outputs"]})

def run_pydra(wf, inputs):
    from pydra.engine.workflow import Workflow
    Workflow.clear_cache()
    W = build(wf)
    out = W(**inputs)(cache_root=tempfile.mkdtemp())
    return {o: getattr(out, o) for o in wf["outputs"]}

def norm(v):
    if isinstance(v, (list, tuple)): return [norm(i) for i in v]
    return v

# ---------- generator ----------
def gen(rng, nmax=3):
    n = rng.randint(1, nmax)
    inputs = {"A": [1,2], "B": [10,20,30][:rng.randint(1,3)], "s": 5}
    nodes = []
    for i in range(n):
        nm = f"n{i}"
        nd = dict(name=nm)
        lists_used = []
        for f in ("x","y"):
            c = rng.random()
            if i > 0 and c < 0.5: nd[f] = ("node", f"n{rng.randrange(i)}")
            elif c < 0.8:
                k = rng.choice(["A","B"]); nd[f] = ("wf", k); lists_used.append(f)
            elif c < 0.9: nd[f] = ("wf", "s")
            else: nd[f] = None
        if lists_used and rng.random() < 0.7:
            if len(lists_used) == 2 and rng.random() < 0.6:
                op = rng.choice(["*","."])
                fs = lists_used[:] ; rng.shuffle(fs)
                nd["split"] = (op, fs)
            else:
                nd["split"] = rng.choice(lists_used)
                nd["spell"] = rng.choice(["bare","bare","bare","kw"])
        # combiner
        cands = [f for f in tree_fields(nd.get("split"))]
        if cands and rng.random() < 0.3: nd["comb"] = [rng.choice(cands)]
        nodes.append(nd)
    outs = {"o0": nodes[-1]["name"]}
    if n > 1 and rng.random() < 0.5: outs["o1"] = nodes[rng.randrange(n-1)]["name"]
    return dict(inputs=list(inputs), nodes=nodes, outputs=outs), inputs

if __name__ == "__main__":
    seed = int(sys.argv[1]) if len(sys.argv) > 1 else 0
    num = int(sys.argv[2]) if len(sys.argv) > 2 else 50
    rng = random.Random(seed)
    stats = collections.Counter(); shown = collections.Counter()
    for i in range(num):
        wf, inputs = gen(rng, nmax=int(sys.argv[3]) if len(sys.argv)>3 else 3)
        try:
            ref = ref_eval(wf, inputs)
        except Exception as e:
            stats["ref-error"] += 1; print("REFERR", wf, repr(e)); continue
        try:
            got = run_pydra(wf, inputs); gerr = None
        except Exception as e:
            got = None; gerr = f"{type(e).__name__}: {str(e)[:100]}"
        if ref[0] == "REJECT":
            k = "reject-agree" if gerr else "REJECT-BUT-RAN"
        elif gerr:
            k = "PYDRA-ERROR"
        elif norm(got) == norm(ref[1]):
            k = "agree"
        else:
            k = "MISMATCH"
        stats[k] += 1
        if k.isupper() and shown[k] < 6:
            shown[k] += 1
            print(k, json.dumps(wf["nodes"]), gerr or "", "\n   got", str(got)[:300], "\n   ref", str(ref[1])[:300] if ref[0]=="OK" else ref)
    print(dict(stats))
