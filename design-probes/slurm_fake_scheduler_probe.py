import os, sys, tempfile, asyncio, traceback
from pydra.compose import python
from pydra.engine.submitter import Submitter
@python.define
def Add(x: int) -> int:
    return x + 1
def trial(responses, sbatch_args=""):
    tmp = tempfile.mkdtemp(); st = os.path.join(tmp, "st"); os.mkdir(st)
    open(os.path.join(st, "responses"), "w").write("\n".join(responses)+"\n")
    os.environ.update(FAKE_LOG=os.path.join(tmp,"log"), FAKE_STATE=st)
    try:
        with Submitter(worker="slurm", cache_root=os.path.join(tmp,"c"), poll_delay=0, sbatch_args=sbatch_args) as sub:
            res = sub(Add(x=1), raise_errors=True)
        print("OK", res.outputs.out)
    except Exception as e:
        print("EXC", type(e).__name__, str(e)[:150].replace("\n"," "))
    print("   ", [l.split()[0] for l in open(os.path.join(tmp,"log"))], [l for l in open(os.path.join(tmp,"log")) if l.startswith("sbatch")][0][:200].strip())
trial(["123 COMPLETED 0:0"])
trial(["123 RUNNING 0:0", "123 COMPLETED 0:0"])
trial(["123 CANCELLED 0:0", "123 COMPLETED 0:0"])
trial(["123 COMPLETED 0:0"], sbatch_args="-J myname -o /tmp/exp/slurm/out.txt")
trial(["123 COMPLETED 0:0"], sbatch_args="-e /tmp/exp/slurm/err.txt")
