---- MODULE SplitProbe2 ----
(* probe: reference semantics for Expand + Groups, emitted as JSON for replay *)
EXTENDS Naturals, Sequences, FiniteSets, TLC, Json, SequencesExt, Functions, FiniteSetsExt
CONSTANTS Fields, MaxLen, MinLen

Leaf(f) == [op |-> "f", name |-> f, kids |-> <<>>]
Node(o, ks) == [op |-> o, name |-> "", kids |-> ks]
RECURSIVE Splits(_)
Splits(s) == IF Len(s) < 2 THEN {}
             ELSE UNION { { <<SubSeq(s,1,i)>> \o rest : rest \in ({<<SubSeq(s,i+1,Len(s))>>} \cup Splits(SubSeq(s,i+1,Len(s)))) } : i \in 1..(Len(s)-1) }
RECURSIVE SeqProd(_)
SeqProd(sets) == IF sets = <<>> THEN {<<>>} ELSE { <<h>> \o t : h \in Head(sets), t \in SeqProd(Tail(sets)) }
RECURSIVE Trees(_)
Trees(s) == IF Len(s) = 1 THEN {Leaf(s[1])}
            ELSE UNION { { Node(o, ks) : o \in {"*","."}, ks \in SeqProd([i \in 1..Len(parts) |-> Trees(parts[i])]) } : parts \in Splits(s) }

RECURSIVE ProdSeq(_,_)
ProdSeq(a, b) == IF a = <<>> THEN <<>> ELSE [j \in 1..Len(b) |-> a[1] @@ b[j]] \o ProdSeq(Tail(a), b)
RECURSIVE FoldOuter(_)
FoldOuter(es) == IF Len(es) = 1 THEN es[1] ELSE ProdSeq(es[1], FoldOuter(Tail(es)))
RECURSIVE FoldInner(_)
FoldInner(es) == IF Len(es) = 1 THEN es[1] ELSE LET r == FoldInner(Tail(es)) IN [j \in 1..Len(r) |-> es[1][j] @@ r[j]]
RECURSIVE Expand(_,_)
Expand(t, len) ==
  IF t.op = "f" THEN [i \in 1..len[t.name] |-> (t.name :> (i-1))]
  ELSE LET es == [k \in 1..Len(t.kids) |-> Expand(t.kids[k], len)] IN
       IF t.op = "*" THEN FoldOuter(es) ELSE FoldInner(es)
RECURSIVE Shape(_,_)
Shape(t, len) == IF t.op = "f" THEN <<len[t.name]>>
                 ELSE IF t.op = "*" THEN FlattenSeq([k \in 1..Len(t.kids) |-> Shape(t.kids[k], len)])
                 ELSE Shape(t.kids[1], len)
RECURSIVE WellShaped(_,_)
WellShaped(t, len) == IF t.op = "f" THEN TRUE
   ELSE /\ \A k \in 1..Len(t.kids) : WellShaped(t.kids[k], len)
        /\ (t.op = "." => \A k \in 2..Len(t.kids) : Shape(t.kids[k], len) = Shape(t.kids[1], len))
RECURSIVE FlatLen(_,_)
FlatLen(t, len) == IF t.op = "f" THEN len[t.name]
   ELSE IF t.op = "*" THEN FoldFunction(LAMBDA a, b : a * b, 1, [k \in 1..Len(t.kids) |-> FlatLen(t.kids[k], len)])
   ELSE FlatLen(t.kids[1], len)
RECURSIVE FlatOk(_,_)   \* inner children agree at least on flat length
FlatOk(t, len) == IF t.op = "f" THEN TRUE
   ELSE /\ \A k \in 1..Len(t.kids) : FlatOk(t.kids[k], len)
        /\ (t.op = "." => \A k \in 2..Len(t.kids) : FlatLen(t.kids[k], len) = FlatLen(t.kids[1], len))

\* axes: sequence of sets of fields, in shape order
RECURSIVE AxesOf(_)
AxesOf(t) == IF t.op = "f" THEN << {t.name} >>
             ELSE IF t.op = "*" THEN FlattenSeq([k \in 1..Len(t.kids) |-> AxesOf(t.kids[k])])
             ELSE LET as == [k \in 1..Len(t.kids) |-> AxesOf(t.kids[k])] IN
                  [i \in 1..Len(as[1]) |-> UNION { as[k][i] : k \in 1..Len(as) }]
Closure(t, C) == UNION { a \in Range(AxesOf(t)) : a \cap C # {} }
\* groups: ordered by first occurrence of the projection on remaining fields
Remaining(t, C) == (UNION Range(AxesOf(t))) \ Closure(t, C)
Proj(e, R) == [f \in R |-> e[f]]
RECURSIVE GroupKeys(_,_,_)
GroupKeys(es, R, seen) == IF es = <<>> THEN <<>>
    ELSE LET k == Proj(es[1], R) IN
         IF k \in seen THEN GroupKeys(Tail(es), R, seen) ELSE <<k>> \o GroupKeys(Tail(es), R, seen \cup {k})
Groups(t, len, C) == LET es == Expand(t, len)  R == Remaining(t, C)  ks == GroupKeys(es, R, {}) IN
    [g \in 1..Len(ks) |-> SelectSeq([i \in 1..Len(es) |-> i-1], LAMBDA i : Proj(es[i+1], R) = ks[g])]

Perms == { s \in [1..Cardinality(Fields) -> Fields] : \A i, j \in DOMAIN s : i # j => s[i] # s[j] }
VARIABLES tree, lens, comb, done
Init == /\ \E p \in Perms : tree \in Trees(p)
        /\ lens \in [Fields -> MinLen..MaxLen]
        /\ comb \in SUBSET Fields
        /\ done = FALSE
Next == done = FALSE /\ done' = TRUE /\ UNCHANGED <<tree, lens, comb>>
        /\ LET ok == WellShaped(tree, lens) fok == FlatOk(tree, lens) IN
           PrintT(ToJson([t |-> tree, l |-> lens, c |-> SetToSeq(comb), ok |-> ok, fok |-> fok,
                          jobs |-> IF ok THEN Expand(tree, lens) ELSE <<>>,
                          groups |-> IF ok /\ comb # {} THEN Groups(tree, lens, comb) ELSE <<>>,
                          rem |-> IF ok THEN SetToSeq(Remaining(tree, comb)) ELSE <<>> ]))
====
