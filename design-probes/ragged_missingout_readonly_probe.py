import tempfile, os, shutil
from pathlib import Path
from pydra.compose import python, workflow, shell

@python.define
def Id(x) -> int:
    return x

tmp = tempfile.mkdtemp()
# C04 ragged
try:
    print("ragged nd=2:", Id().split(x=[[1,2],[3]], container_ndim={"x":2})(cache_root=tmp).out)
except Exception as e:
    print("ragged ERR", type(e).__name__, str(e)[:100])
print("regular nd=2:", Id().split(x=[[1,2],[3,4]], container_ndim={"x":2})(cache_root=tmp).out)
try:
    print("ragged nd=2 b:", Id().split(x=[[1],[2,3]], container_ndim={"x":2})(cache_root=tmp).out)
except Exception as e:
    print("ragged ERR", type(e).__name__, str(e)[:100])
print("empty:", Id().split(x=[])(cache_root=tmp).out)

# C13 dict missing outputs
@python.define(outputs=["a","b"])
def TwoOut(x: int):
    return {"a": x}
try:
    o = TwoOut(x=1)(cache_root=tmp)
    print("missing out:", o)
except Exception as e:
    print("missing out ERR", type(e).__name__, str(e)[:200])

# C11 incomplete dir + readonly
ro = tempfile.mkdtemp(); rw = tempfile.mkdtemp()
calls = Path(tempfile.mkdtemp())/"calls"
@python.define
def Cnt(x: int, log: str) -> int:
    with open(log,"a") as f: f.write("x")
    return x+1
t = Cnt(x=1, log=str(calls))
t(cache_root=ro)
print("calls after first:", len(calls.read_text()))
(Path(rw)/t._checksum).mkdir()
t(cache_root=rw, readonly_caches=[ro])
print("calls after ro w/ incomplete dir in rw:", len(calls.read_text()))
rw2 = tempfile.mkdtemp()
t(cache_root=rw2, readonly_caches=[ro])
print("calls after ro clean:", len(calls.read_text()), os.listdir(rw2))
