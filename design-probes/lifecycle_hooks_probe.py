import os, tempfile, typing as ty
from pathlib import Path
from pydra.compose import python
from pydra.engine.hooks import TaskHooks
from pydra.engine.submitter import Submitter
@python.define
def Add(x: int) -> int:
    return x + 1
def boom(*a, **k): raise RuntimeError("hook boom")
calls = []
def rec(name):
    def f(*a, **k): calls.append(name)
    return f
def trial(label, hooks, x=1, cache=None):
    cache = cache or tempfile.mkdtemp(); cwd0 = os.getcwd(); calls.clear()
    try:
        r = Add(x=x)(cache_root=cache, hooks=hooks); out = f"OK {r.out}"
    except Exception as e:
        out = f"{type(e).__name__}: {str(e)[:60]}"
    cwd1 = os.getcwd()
    files = sorted(os.listdir(cache)); jd = [f for f in files if f.startswith("python-") and not f.endswith(".lock")]
    inside = sorted(os.listdir(os.path.join(cache, jd[0]))) if jd else None
    print(f"{label:22s} {out:40s} cwd_restored={cwd0==cwd1} info_left={[f for f in files if f.endswith('_info.json')]!=[]} lock_left={[f for f in files if f.endswith('.lock')]!=[]} jobdir={inside} calls={calls}")
    os.chdir(cwd0)
    return cache
trial("no hooks", None)
c = trial("recording hooks", TaskHooks(pre_run=rec("pre_run"), pre_run_task=rec("pre_run_task"), post_run_task=rec("post_run_task"), post_run=rec("post_run")))
trial("recording hooks (hit)", TaskHooks(pre_run=rec("pre_run"), pre_run_task=rec("pre_run_task"), post_run_task=rec("post_run_task"), post_run=rec("post_run")), cache=c)
trial("pre_run raises", TaskHooks(pre_run=boom))
trial("pre_run_task raises", TaskHooks(pre_run_task=boom))
trial("post_run_task raises", TaskHooks(post_run_task=boom))
trial("post_run raises", TaskHooks(post_run=boom))
