import tempfile, typing as ty
from pydra.compose import python, workflow
from pydra.engine.workflow import Workflow

@python.define
def N(name: str, x: ty.Any = None, y: ty.Any = None) -> ty.Any:
    return (name, x, y)

@workflow.define
def W(x: int, ys: list, flag: bool = True) -> ty.Any:
    a = workflow.add(N(name="a", x=x), name="a")
    if flag:
        b = workflow.add(N(name="b", x=a.out).split("y", y=ys), name="b")
    else:
        b = workflow.add(N(name="b2", x=a.out, y=ys), name="b")
    return b.out

def graph(wf):
    return {n.name: (type(n._task).__name__, repr(n.state.splitter) if n.state else None, {k:(repr(v)[:40]) for k,v in n.input_values if k in("name","x","y")}) for n in wf.nodes}

t1 = W(x=1, ys=[10,20])
wf_lazy = Workflow.construct(t1, lazy=["x","ys"])      # partially lazy (flag concrete)
print("lazy  ", graph(wf_lazy))
wf1 = Workflow.construct(t1)                            # superset hit expected
print("wf1   ", graph(wf1), wf1 is wf_lazy)
t2 = W(x=2, ys=[1,2,3])
wf2 = Workflow.construct(t2)
print("wf2   ", graph(wf2), wf2.inputs.x, wf2.inputs.ys)
print("wf1 inputs after wf2:", wf1.inputs.x, wf1.inputs.ys)
tmp = tempfile.mkdtemp()
print("run t1", t1(cache_root=tmp))
print("run t2", t2(cache_root=tmp))
print("run t1", t1(cache_root=tempfile.mkdtemp()))
t3 = W(x=1, ys=[10,20], flag=False)
print("run t3", t3(cache_root=tempfile.mkdtemp()))
