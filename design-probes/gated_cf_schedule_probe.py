import os, sys, time, tempfile, threading, json
from pathlib import Path
from pydra.compose import python, workflow
from pydra.engine.submitter import Submitter

@python.define
def Gated(label: str, ctl: str, x: int = 0) -> int:
    import os, time
    from pathlib import Path
    d = Path(ctl)
    with open(d/"log", "a") as f: f.write(f"S {label} {os.getpid()}\n")
    while not (d/f"{label}.go").exists():
        time.sleep(0.005)
    fail = (d/f"{label}.fail").exists()
    with open(d/"log", "a") as f: f.write(f"E {label} {'err' if fail else 'ok'}\n")
    if fail:
        raise RuntimeError(f"boom {label}")
    return x + 1

@workflow.define(outputs=["o1","o2","o3"])
def W(ctl: str):
    a = workflow.add(Gated(label="a", ctl=ctl), name="a")
    b = workflow.add(Gated(label="b", ctl=ctl), name="b")
    c = workflow.add(Gated(label="c", ctl=ctl, x=b.out), name="c")   # depends on b only
    return a.out, b.out, c.out

def started(ctl, label):
    try:
        return any(l.split()[:2]==["S",label] for l in open(Path(ctl)/"log"))
    except FileNotFoundError:
        return False

def controller(ctl, schedule):
    d = Path(ctl)
    for step in schedule:
        kind, label = step
        if kind == "wait_start":
            while not started(ctl, label): time.sleep(0.005)
        elif kind == "sleep":
            time.sleep(label)
        elif kind == "ok":
            (d/f"{label}.go").touch()
        elif kind == "fail":
            (d/f"{label}.fail").touch(); (d/f"{label}.go").touch()

if __name__ == "__main__":
    tmp = tempfile.mkdtemp(); ctl = os.path.join(tmp,"ctl"); os.mkdir(ctl)
    # schedule: a and b start; b finishes ok first (so loop iterates and sees a 'running'), then a fails; c must still run.
    sched = [("wait_start","a"),("wait_start","b"),("ok","b"),("wait_start","c"),("sleep",0.5),("fail","a"),("sleep",0.5),("ok","c")]
    th = threading.Thread(target=controller, args=(ctl, sched), daemon=True); th.start()
    t0=time.time()
    try:
        with Submitter(worker="cf", n_procs=4, cache_root=os.path.join(tmp,"c")) as sub:
            res = sub(W(ctl=ctl), raise_errors=True)
        print("RESULT", res.errored, res.outputs)
    except Exception as e:
        print("EXC", type(e).__name__, str(e)[:300].replace("\n"," | "))
    print("elapsed", round(time.time()-t0,2))
    print(open(os.path.join(ctl,"log")).read())
