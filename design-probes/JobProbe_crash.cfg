SPECIFICATION Spec
CONSTANTS
 Procs = {p1, p2, p3}
 FirstExistingDirDecides = TRUE
 AllowCrash = TRUE
 RoInit = "absent"
 RootInit = "absent"
INVARIANT Mutex
INVARIANT OneBody
INVARIANT NoPartialReturn
INVARIANT ReuseComplete
PROPERTY Returns
CHECK_DEADLOCK FALSE
