import os, sys, tempfile, json
from pathlib import Path
from pydra.compose import shell
from pydra.environments import lmod
tmp = Path(tempfile.mkdtemp())
dump = tmp / "dump.py"; dump.write_text("import os, sys, json\njson.dump({'env': dict(os.environ), 'argv': sys.argv[1:]}, open(sys.argv[1], 'w'))\n")
os.environ["MODULESHOME"] = "/tmp/exp/lmod"
os.environ["CALLER_VAR"] = "keepme"; os.environ["OVERRIDE_ME"] = "old"
out = tmp / "lmod.out"; os.environ["FAKE_LMOD_OUT"] = str(out)
out.write_text('os.environ["NEWVAR"] = "hello world";\nos.environ["OVERRIDE_ME"] = "new";\nos.environ["PATH"] = "/opt/mod/bin:%s";\nos.environ["QUOTED"] = "say \\"hi\\"";\n' % os.environ["PATH"])
Sh = shell.define(sys.executable, inputs={"script": shell.arg(type=str, argstr=""), "dst": shell.arg(type=str, argstr=""), "x": shell.arg(type=str, argstr="-x")})
res = tmp / "res.json"
try:
    Sh(script=str(dump), dst=str(res), x="val")(cache_root=tmp / "c", environment=lmod.Lmod(modules=["m1"]))
    d = json.load(open(res))
    e = d["env"]
    print("argv", d["argv"])
    print({k: e.get(k) for k in ["CALLER_VAR", "OVERRIDE_ME", "NEWVAR", "QUOTED", "HOME"]}, "PATH starts", e.get("PATH", "")[:14], "n_env", len(e))
except Exception as ex:
    print("ERR", type(ex).__name__, str(ex)[:300])
