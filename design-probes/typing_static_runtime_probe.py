import typing as ty, itertools
from pathlib import Path
from pydra.utils.typing import TypeParser, MultiInputObj
inh = {
 int:[0,1,True], float:[1.5], bool:[True,False], str:["a","","ab"], bytes:[b"a"], Path:[Path("p")],
 int|None:[1,None], int|str:[1,"a"], float|int:[1,1.5], list[int]:[[1,2],[]], list[float]:[[1.5]], list[str]:[["a","b"]],
 tuple[int,...]:[(1,2),()], tuple[int,str]:[(1,"a")], dict[str,int]:[{"k":1}], set[int]:[{1,2}], list[list[int]]:[[[1],[2]]],
 list[int|str]:[[1,"a"]], list[Path]:[[Path("p")]], list[bool]:[[True]], ty.Any:[1,"a",[1]], list:[[1,"a"]], tuple:[(1,"a")], ty.Sequence[int]:[[1],(1,)], ty.Sequence[str]:[["a"],("a",)],
 MultiInputObj[int]:[[1,2]], str|None:["a",None], list[int]|None:[[1],None], dict[str,list[int]]:[{"k":[1]}], tuple[str,...]:[("a","b")], set[str]:[{"a"}], frozenset[int]:[frozenset({1})],
}
types = list(inh)
bad=[]; okpairs=0
for S in types:
    for T in types:
        try:
            TypeParser(T).check_type(S)
        except TypeError:
            continue
        except Exception as e:
            bad.append(("STATIC-EXC", S, T, type(e).__name__, str(e)[:60])); continue
        okpairs+=1
        for v in inh[S]:
            try:
                TypeParser(T)(v)
            except TypeError as e:
                bad.append(("RUNTIME-REJECT", S, T, v))
            except Exception as e:
                bad.append(("RUNTIME-EXC", S, T, v, type(e).__name__))
for b in bad: print(b)
print(len(bad), okpairs)
