---- MODULE MCSub ----
EXTENDS SubProbe
MCNodes == <<"a","b","c","d">>
MCPreds == [a |-> {}, b |-> {}, c |-> {}, d |-> {}]
MCFailsNone == {}
MCNodes2 == <<"a","b","c","d">>
MCPreds2 == [a |-> {}, b |-> {}, c |-> {"b"}, d |-> {"c"}]
MCFailsA == {"a"}
====
