import tempfile, numpy as np
from pydra.compose import python, workflow, shell
from pydra.utils.hash import hash_function

# numpy shape/dtype collisions
a = np.zeros((2,3)); b = np.zeros((3,2)); c = np.zeros(6); d=np.zeros(6,dtype='int64')
print("np shape collide:", hash_function(a)==hash_function(b), hash_function(a)==hash_function(c), "dtype collide:", hash_function(c)==hash_function(d))

# closure
def mk(k):
    def f(x: int) -> int:
        return x + k
    return f
T1 = python.define(mk(1)); T2 = python.define(mk(2))
print("closure checksum equal:", T1(x=1)._checksum == T2(x=1)._checksum)
tmp = tempfile.mkdtemp()
print(T1(x=1)(cache_root=tmp).out, T2(x=1)(cache_root=tmp).out)

# frozenset of frozensets
fs = frozenset({frozenset({'a','b'}), frozenset({'c','d'}), frozenset({'e','f'})})
print("fs hash", hash_function(fs))
try:
    print(hash_function(frozenset({'a', None})))
except Exception as e:
    print("ERR", type(e), e)
