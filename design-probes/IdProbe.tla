---- MODULE IdProbe ----
EXTENDS Naturals, Sequences, FiniteSets, TLC, Json, IOUtils, SequencesExt
Obs == ndJsonDeserialize(IOEnv.TRACE_FILE)   \* {"term": {...}, "digest": "..."}
RECURSIVE Canon(_)
Canon(t) ==
  IF t.k \in {"int","float","bool","str","bytes","none"} THEN [k |-> t.k, v |-> t.v]
  ELSE IF t.k \in {"list","tuple"} THEN [k |-> t.k, v |-> [i \in 1..Len(t.v) |-> Canon(t.v[i])]]
  ELSE IF t.k \in {"set","frozenset"} THEN [k |-> t.k, v |-> { Canon(t.v[i]) : i \in 1..Len(t.v) }]
  ELSE IF t.k = "dict" THEN [k |-> "dict", v |-> { <<Canon(t.v[i][1]), Canon(t.v[i][2])>> : i \in 1..Len(t.v) }]
  ELSE IF t.k = "ndarray" THEN [k |-> "ndarray", v |-> <<t.dtype, t.shape, t.v>>]
  ELSE [k |-> "unknown", v |-> t]
N == Len(Obs)
Keys == [i \in 1..N |-> Canon(Obs[i].term)]
Deterministic == \A i, j \in 1..N : Keys[i] = Keys[j] => Obs[i].digest = Obs[j].digest
Injective == \A i, j \in 1..N : Obs[i].digest = Obs[j].digest => Keys[i] = Keys[j]
Bad == { <<i, j>> \in (1..N) \X (1..N) : i < j /\ ((Keys[i] = Keys[j]) # (Obs[i].digest = Obs[j].digest)) }
VARIABLE x
Init == x = 0
Next == x = 0 /\ x' = 1 /\ PrintT(<<"BAD", Bad>>) /\ PrintT(<<"DET", Deterministic, "INJ", Injective>>)
====
