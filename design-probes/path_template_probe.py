import os, tempfile
from pathlib import Path
from fileformats.generic import File
from pydra.compose import shell
from pydra.engine.job import Job
from pydra.engine.submitter import Submitter
tmp = Path(tempfile.mkdtemp())
def mkf(name):
    d = tmp / "in"; d.mkdir(exist_ok=True); p = d / name; p.write_text("x"); return p
def resolve(template, keep_ext, outval=None, **vals):
    ins = {"in_file": shell.arg(type=File, argstr=""), "s": shell.arg(type=str, argstr="-s", default="S"), "n": shell.arg(type=int, argstr="-n", default=3)}
    outs = {"out_file": shell.outarg(type=File, argstr="-o", path_template=template, keep_extension=keep_ext)}
    try:
        T = shell.define("cmd", inputs=ins, outputs=outs)
        kw = dict(vals)
        if outval is not None: kw["out_file"] = outval
        t = T(**kw)
        with Submitter(cache_root=tmp / "c") as sub:
            j = Job(t, submitter=sub, name="j"); j.cache_dir.mkdir(parents=True, exist_ok=True)
            v = j.inputs["out_file"]
            inside = isinstance(v, Path) and Path(v).parent == j.cache_dir
            return (str(v).replace(str(j.cache_dir), "<job>").replace(str(tmp), "<tmp>"), "inside" if inside else "OUTSIDE")
    except Exception as e:
        return f"ERR {type(e).__name__}: {str(e)[:100]}"
for name in ["a.txt", "a.nii.gz", "a"]:
    f = mkf(name)
    for tpl in ["{in_file}_out", "out_{in_file}", "{in_file}", "{in_file}.bak", "pre_{s}_{n}", "{in_file}_{s}.dat", "sub/{in_file}_x"]:
        print(f"{name:9s} {tpl:20s} keep={resolve(tpl, True, in_file=File(f))}  drop={resolve(tpl, False, in_file=File(f))}")
f = mkf("a.txt")
print("explicit path:", resolve("{in_file}_out", True, outval=tmp / "elsewhere" / "o.txt", in_file=File(f)))
print("explicit relative:", resolve("{in_file}_out", True, outval=Path("rel.txt"), in_file=File(f)))
print("explicit str:", resolve("{in_file}_out", True, outval="named.txt", in_file=File(f)))
