import os, tempfile, typing as ty
from pathlib import Path
from fileformats.generic import File
from pydra.compose import shell
from pydra.engine.job import Job
from pydra.engine.submitter import Submitter
tmp = Path(tempfile.mkdtemp())
def mk(d, name, content):
    p = tmp / d; p.mkdir(exist_ok=True); f = p / name; f.write_text(content); return f
a1 = mk("d1", "f.txt", "one"); a2 = mk("d2", "f.txt", "two"); a3 = mk("d3", "g.txt", "three")
def stage(mode, fields, **vals):
    Sh = shell.define("cat", inputs={k: shell.arg(type=tp, argstr="", copy_mode=getattr(File.CopyMode, mode)) for k, tp in fields.items()})
    t = Sh(**vals)
    d = tempfile.mkdtemp(dir=tmp)
    with Submitter(cache_root=d) as sub:
        j = Job(t, submitter=sub, name="j"); j.cache_dir.mkdir(parents=True, exist_ok=True)
        try:
            inp = j.inputs
        except Exception as e:
            return f"ERR {type(e).__name__}: {str(e)[-90:]}"
    out = {}
    for k in fields:
        v = inp[k]
        def desc(x):
            x = Path(x); return (x.name, x.read_text(), "same-inode" if os.path.samefile(x, {"one": a1, "two": a2, "three": a3}[x.read_text()]) else "copy", "symlink" if x.is_symlink() else "")
        out[k] = [desc(x) for x in v] if isinstance(v, (list, tuple)) else desc(v)
    return out
for mode in ["copy", "link", "any", "hardlink", "symlink"]:
    print(mode, "single:", stage(mode, {"f": File}, f=File(a1)))
    print(mode, "list same-name:", stage(mode, {"fs": list[File]}, fs=[File(a1), File(a2), File(a3)]))
    print(mode, "list repeated obj:", stage(mode, {"fs": list[File]}, fs=[File(a1), File(a1)]))
    print(mode, "two fields same-name:", stage(mode, {"f": File, "g": File}, f=File(a1), g=File(a2)))
