SPECIFICATION Spec
CONSTANTS
 Procs = {p1, p2, p3}
 FirstExistingDirDecides = TRUE
 AllowCrash = FALSE
 RoInit = "ok"
 RootInit = "empty"
INVARIANT Mutex
INVARIANT OneBody
INVARIANT NoPartialReturn
INVARIANT ReuseComplete
PROPERTY Returns
CHECK_DEADLOCK FALSE
