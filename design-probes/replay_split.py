import json, sys, collections
from pydra.engine.state import State
def to_spl(t):
    if t["op"] == "f": return t["name"]
    kids = [to_spl(k) for k in t["kids"]]
    return kids if t["op"] == "*" else tuple(kids)
stats = collections.Counter(); examples = {}
for line in open(sys.argv[1]):
    if not line.startswith('"{'): continue
    c = json.loads(json.loads(line))
    spl = to_spl(c["t"]); lens = c["l"]; comb = c["c"]
    inputs = {f"N.{f}": [f"{f}{i}" for i in range(n)] for f, n in lens.items()}
    kind = None
    try:
        st = State(name="N", splitter=spl, combiner=comb or None)
        st.prepare_states(inputs)
        jobs = [{k.split(".")[1]: v for k, v in d.items()} for d in st.states_ind]
        groups = [st.final_combined_ind_mapping[g] for g in sorted(st.final_combined_ind_mapping)]
        err = None
    except Exception as e:
        err = f"{type(e).__name__}: {str(e)[:80]}"
    if not c["ok"]:
        if err is None:
            kind = "accepted-illshaped-flatok" if c["fok"] else "ACCEPTED-ILLSHAPED"
        else:
            kind = "rejected-ok"
    else:
        if err is not None:
            kind = "ERROR-ON-VALID"
        elif jobs != c["jobs"]:
            kind = "JOBS-MISMATCH"
        elif comb and groups != c["groups"]:
            kind = "GROUPS-MISMATCH"
        else:
            kind = "agree"
    stats[kind] += 1
    if kind not in examples:
        examples[kind] = (spl, lens, comb, err, c["jobs"][:4], jobs[:4] if err is None else None, c["groups"], groups if err is None else None)
print(dict(stats))
for k, v in examples.items():
    if k.isupper() or "-" in k and k != "rejected-ok": print(k, v)
