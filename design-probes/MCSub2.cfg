SPECIFICATION Spec
CONSTANTS
 Nodes <- MCNodes2
 Preds <- MCPreds2
 K = 0
 Fails <- MCFailsA
INVARIANT IndependentRun
INVARIANT NoDependentRun
CHECK_DEADLOCK FALSE
