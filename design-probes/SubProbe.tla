---- MODULE SubProbe ----
EXTENDS Naturals, Sequences, FiniteSets, TLC, SequencesExt, FiniteSetsExt
CONSTANTS Nodes,      \* sequence of node names in sorted order
          Preds,      \* [node -> set of nodes]
          K,          \* max concurrent (0 = unlimited)
          Fails       \* set of nodes whose (single) job fails
\* one job per node in this probe
NodeSet == Range(Nodes)
VARIABLES st,        \* [node -> "none"|"blocked"|"queued"|"running"|"successful"|"errored"|"unrunnable"]
          w,         \* worker side [node -> "idle"|"submitted"|"locked"|"ok"|"err"]
          tasks,     \* sequence of nodes returned by last Scan
          futured, futures, errors, pc, seenRunning
vars == <<st, w, tasks, futured, futures, errors, pc, seenRunning>>

Started(n) == st[n] # "none"
\* update_status as built. Returns new st or "RAISE"
JobDoneRaises(n) == w[n] = "err"
UpdQueued(s, n) == IF s[n] = "queued" THEN
                      IF w[n] = "ok" THEN [s EXCEPT ![n] = "successful"]
                      ELSE IF w[n] = "err" THEN [s EXCEPT ![n] = "errored"]
                      ELSE IF w[n] = "locked" THEN [s EXCEPT ![n] = "running"]
                      ELSE s
                   ELSE s
\* running loop: job.done raises ValueError if errored (as-built)
UpdRunningRaises(s, n) == s[n] = "running" /\ w[n] = "err"
UpdRunning(s, n) == IF s[n] = "running" /\ w[n] = "ok" THEN [s EXCEPT ![n] = "successful"] ELSE s
NodeDone(s, n) == s[n] \in {"successful","errored","unrunnable"}

\* Scan: iterate nodes in order; functional fold with accumulator [s, tasks, notStarted, stop, raise]
RECURSIVE ScanFrom(_, _)
ScanFrom(i, acc) ==
  IF i > Len(Nodes) \/ acc.stop \/ acc.raise THEN acc
  ELSE LET n == Nodes[i]
           \* node.done -> update_status
           raises == UpdRunningRaises(UpdQueued(acc.s, n), n)
           s1 == UpdRunning(UpdQueued(acc.s, n), n)
       IN IF raises THEN [acc EXCEPT !.raise = TRUE, !.s = UpdQueued(acc.s, n)]
          ELSE IF NodeDone(s1, n) THEN ScanFrom(i+1, [acc EXCEPT !.s = s1])
          ELSE IF Preds[n] \cap acc.ns # {} THEN [acc EXCEPT !.s = s1, !.stop = TRUE]
          ELSE LET ns1 == IF s1[n] = "none" THEN acc.ns \cup {n} ELSE acc.ns
                   predBad == \E p \in Preds[n] : s1[p] \in {"errored","unrunnable"}
                   \* p.done for preds triggers update_status on preds too; they were visited earlier in sorted order
                   predsDone == \A p \in Preds[n] : NodeDone(s1, p)
                   s2 == IF predBad THEN [s1 EXCEPT ![n] = "unrunnable"]
                         ELSE IF predsDone /\ s1[n] \in {"none","blocked"} THEN [s1 EXCEPT ![n] = "queued"]
                         ELSE s1
                   t2 == IF s2[n] = "queued" THEN Append(acc.tasks, n) ELSE acc.tasks
               IN ScanFrom(i+1, [acc EXCEPT !.s = s2, !.tasks = t2, !.ns = ns1])
Scan(s) == LET r == ScanFrom(1, [s |-> s, tasks |-> <<>>, ns |-> {}, stop |-> FALSE, raise |-> FALSE])
               t == IF K > 0 /\ Len(r.tasks) > K THEN SubSeq(r.tasks, 1, K) ELSE r.tasks
           IN [r EXCEPT !.tasks = t]

AnyNotDone(s) == \E n \in NodeSet : ~NodeDone(s, n)   \* (ignores the update side-effect of n.done here)

Init == /\ st = [n \in NodeSet |-> "none"] /\ w = [n \in NodeSet |-> "idle"]
        /\ tasks = <<>> /\ futured = {} /\ futures = {} /\ errors = {} /\ pc = "scan" /\ seenRunning = {}

DoScan == /\ pc = "scan"
          /\ LET r == Scan(st) IN
             /\ st' = r.s
             /\ seenRunning' = seenRunning \cup {n \in NodeSet : r.s[n] = "running"}
             /\ IF r.raise THEN pc' = "raised" /\ tasks' = <<>>
                ELSE /\ tasks' = r.tasks
                     /\ pc' = IF r.tasks # <<>> \/ futures # {} \/ AnyNotDone(r.s) THEN "launch" ELSE "finished"
          /\ UNCHANGED <<w, futured, futures, errors>>
DoLaunch == /\ pc = "launch"
            /\ IF tasks = <<>> /\ futures = {} THEN pc' = "stalled" /\ UNCHANGED <<w, futured, futures>>
               ELSE LET new == {n \in Range(tasks) : n \notin futured} IN
                    /\ w' = [n \in NodeSet |-> IF n \in new THEN "submitted" ELSE w[n]]
                    /\ futured' = futured \cup new /\ futures' = futures \cup new
                    /\ pc' = "wait"
            /\ UNCHANGED <<st, tasks, errors, seenRunning>>
DoWait == /\ pc = "wait"
          /\ IF futures = {} THEN pc' = "scan" /\ UNCHANGED <<futures, errors>>
             ELSE LET fin == {n \in futures : w[n] \in {"ok","err"}} IN
                  /\ fin # {}
                  /\ futures' = futures \ fin
                  /\ errors' = errors \cup {n \in fin : w[n] = "err"}
                  /\ pc' = "scan"
          /\ UNCHANGED <<st, w, tasks, futured, seenRunning>>
WorkerLock(n) == w[n] = "submitted" /\ w' = [w EXCEPT ![n] = "locked"] /\ UNCHANGED <<st, tasks, futured, futures, errors, pc, seenRunning>>
WorkerFinish(n) == w[n] = "locked" /\ w' = [w EXCEPT ![n] = IF n \in Fails THEN "err" ELSE "ok"] /\ UNCHANGED <<st, tasks, futured, futures, errors, pc, seenRunning>>
Next == DoScan \/ DoLaunch \/ DoWait \/ \E n \in NodeSet : WorkerLock(n) \/ WorkerFinish(n)
Spec == Init /\ [][Next]_vars

ConcLimit == K > 0 => Cardinality({n \in NodeSet : w[n] = "locked"}) <= K
RECURSIVE Anc(_)
Anc(n) == Preds[n] \cup UNION {Anc(p) : p \in Preds[n]}
Terminal == pc \in {"finished","raised","stalled"}
IndependentRun == (Terminal /\ futures = {}) => \A n \in NodeSet : (Anc(n) \cup {n}) \cap Fails = {} => w[n] = "ok"
NoDependentRun == \A n \in NodeSet : Anc(n) \cap Fails # {} => w[n] = "idle"
====
