import tempfile, os
from pathlib import Path
from pydra.compose import shell
from pydra.utils.general import get_fields
def show(tpl, **vals):
    try:
        T = shell.define(tpl)
        fl = {f.name: (getattr(f.type, "__name__", str(f.type)), f.default if not f.mandatory else "MAND", f.argstr, f.position, getattr(f, "path_template", None)) for f in get_fields(T) if f.name not in ("executable","append_args")}
        print(tpl, "\n    fields:", fl)
        if vals is not None:
            t = T(**vals)
            v = {k: getattr(t,k) for k in [f.name for f in get_fields(T)]}
            print("    argv:", t._command_args(v) if not any(getattr(f,"path_template",None) for f in get_fields(T)) else t.cmdline)
    except Exception as e:
        print(tpl, "\n    ERR", type(e).__name__, str(e)[:150])
tmp = tempfile.mkdtemp(); f1 = os.path.join(tmp, "in.txt"); Path(f1).write_text("x"); os.chdir(tmp)
show("cmd <a:int> <b:str>", a=1, b="B")
show("cmd <b:str> <a:int>", a=1, b="B")
show("cmd --opt <a:int> <b:str>", a=1, b="B")
show("cmd <b:str> --opt <a:int>", a=1, b="B")
show("cmd <a:int?> <b:str>", b="B")
show("cmd <a:int?> <b:str>", a=3, b="B")
show("cmd <a:int+>", a=[1,2])
show("cmd <a:int*> <b:str>", b="B")
show("cmd <a:int=3> <b:str>", b="B")
show("cmd -v<verbose> <b:str>", b="B", verbose=True)
show("cmd -v<verbose> <b:str>", b="B")
show("cmd <in_file:generic/file> <out|out_file:generic/file>", in_file=f1)
show("cmd <in_file:generic/file> <out|out_file$out.txt>", in_file=f1)
show("cmd <x:int,str>", x=(1,"a"))
show("cmd <x:int,...>", x=(1,2,3))
show("cmd sub <a:int>", a=1)
show("cmd <a:float> -f <b:float?>", a=1.5)
