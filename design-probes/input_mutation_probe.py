import os, tempfile, typing as ty, numpy as np
from pathlib import Path
from fileformats.generic import File
from pydra.compose import python
def trial(label, task, worker="debug", **kw):
    cache = tempfile.mkdtemp()
    pre = task._checksum
    try:
        r = task(cache_root=cache, worker=worker, **kw); out = f"OK {str(r.out)[:30]}"
    except Exception as e:
        out = f"{type(e).__name__}: {str(e)[:70]}".replace("\n", " ")
    dirs = [d for d in os.listdir(cache) if d.startswith("python-") and os.path.isdir(os.path.join(cache, d))]
    print(f"{label:28s} [{worker}] {out:75s} stored_under_orig={dirs == [pre]}")
@python.define
def MutList(x: list) -> int:
    x.append(99); return len(x)
@python.define
def MutDict(x: dict) -> int:
    x["new"] = 1; return len(x)
@python.define
def MutSet(x: set) -> int:
    x.add(99); return len(x)
@python.define
def MutNp(x: np.ndarray) -> float:
    x[0] = 42; return float(x.sum())
@python.define
def ReshapeNp(x: np.ndarray) -> int:
    x.shape = (x.size,); return x.size
@python.define
def NoMut(x: list) -> int:
    return len(x)
@python.define
def MutFile(f: File) -> str:
    Path(f).write_text("changed"); return Path(f).read_text()
if __name__ == "__main__":
    for w in ["debug", "cf"]:
        l = [1, 2]; trial("list append", MutList(x=l), w); print("    caller's list after:", l)
        trial("dict add", MutDict(x={"a": 1}), w)
        trial("set add", MutSet(x={1}), w)
        a = np.zeros(3); trial("numpy setitem", MutNp(x=a), w); print("    caller's array after:", a)
        trial("numpy reshape in place", ReshapeNp(x=np.zeros((2, 3))), w)
        trial("no mutation", NoMut(x=[1]), w)
        p = Path(tempfile.mkdtemp()) / "f.txt"; p.write_text("orig")
        trial("file write (copy_mode any)", MutFile(f=File(p)), w); print("    original file now:", p.read_text())
