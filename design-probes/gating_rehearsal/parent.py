import os, sys, time, subprocess, tempfile, json
from pathlib import Path
def replay(behaviour, nproc=2):
    tmp = Path(tempfile.mkdtemp()); ctl = tmp / "ctl"; (ctl / "at").mkdir(parents=True); (ctl / "go").mkdir()
    procs = {}
    for i in range(nproc):
        lab = f"p{i+1}"
        env = dict(os.environ, PYTHONPATH="/repo", VERIF_CTL=str(ctl), VERIF_PROC=lab, VERIF_CACHE=str(tmp / "cache"))
        procs[lab] = subprocess.Popen([sys.executable, "child.py"], env=env, stdout=subprocess.PIPE, text=True)
    cnt = {p: 0 for p in procs}
    for (p, name) in behaviour:
        cnt[p] += 1
        at = ctl / "at" / f"{p}.{cnt[p]}"
        t0 = time.time()
        while not at.exists():
            time.sleep(0.002)
            if time.time() - t0 > 6: return f"NONCONFORMANT: {p} never reached step {cnt[p]} ({name})"
        got = at.read_text()
        if got != name: return f"NONCONFORMANT: {p} at '{got}' but behaviour says '{name}'"
        (ctl / "go" / f"{p}.{cnt[p]}").touch()
    # let remaining points pass freely
    deadline = time.time() + 20
    while any(pr.poll() is None for pr in procs.values()) and time.time() < deadline:
        for p in procs:
            nxt = ctl / "at" / f"{p}.{cnt[p]+1}"
            if nxt.exists(): cnt[p] += 1; (ctl / "go" / f"{p}.{cnt[p]}").touch()
        time.sleep(0.002)
    outs = {p: pr.communicate()[0].strip() for p, pr in procs.items()}
    execs = len((ctl / "bodylog").read_text()) if (ctl / "bodylog").exists() else 0
    log = [json.loads(l) for l in open(ctl / "log.ndjson")]
    return dict(outs=outs, body_execs=execs, events=[(e["p"], e["a"]) for e in log])
b1 = [("p1","pre_lock"),("p1","locked"),("p1","checked"),("p1","populated"),("p1","saved"),("p1","releasing"),("p2","pre_lock"),("p2","locked"),("p2","checked"),("p2","releasing")]
print(replay(b1))
# an infeasible behaviour: p2 acquires while p1 holds the lock -> must be reported as nonconformant, not hang
b2 = [("p1","pre_lock"),("p1","locked"),("p2","pre_lock"),("p2","locked")]
print(replay(b2))
