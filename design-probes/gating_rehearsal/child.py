"""Rehearsal of hook gating without repo hooks: monkeypatch the calls that the real hooks will sit next to."""
import os, sys, time, json
from pathlib import Path
CTL = Path(os.environ["VERIF_CTL"]); PROC = os.environ["VERIF_PROC"]
_n = 0
def point(name, **fields):
    global _n
    _n += 1
    fd = os.open(CTL / "log.ndjson", os.O_WRONLY | os.O_APPEND | os.O_CREAT)
    os.write(fd, (json.dumps({"p": PROC, "q": _n, "a": name, **fields}) + "\n").encode()); os.close(fd)
    at = CTL / "at" / f"{PROC}.{_n}"; at.write_text(name)
    go = CTL / "go" / f"{PROC}.{_n}"
    t0 = time.time()
    while not go.exists():
        time.sleep(0.002)
        if time.time() - t0 > 30: os._exit(3)

import pydra.engine.job as J
import pydra.engine.result as R
from filelock import SoftFileLock as _SFL
class GatedLock(_SFL):
    def acquire(self, *a, **k):
        point("pre_lock"); r = super().acquire(*a, **k); point("locked"); return r
    def release(self, *a, **k):
        point("releasing"); return super().release(*a, **k)
J.SoftFileLock = GatedLock
_orig_result = J.Job.result
def result(self, *a, **k):
    r = _orig_result(self, *a, **k); point("checked", hit=bool(r is not None and not r.errored)); return r
J.Job.result = result
_orig_pop = J.Job._populate_filesystem
def pop(self):
    _orig_pop(self); point("populated")
J.Job._populate_filesystem = pop
_orig_save = J.save
def save(task_path, result=None, job=None, **k):
    _orig_save(task_path, result=result, job=job, **k)
    if result is not None: point("saved", errored=bool(result.errored))
J.save = save

from pydra.compose import python
@python.define
def Body(x: int, log: str) -> int:
    with open(log, "a") as f: f.write("x")
    return x + 1
out = Body(x=1, log=str(CTL / "bodylog"))(cache_root=os.environ["VERIF_CACHE"])
J.Job.result = _orig_result
print(PROC, "out", out.out)
