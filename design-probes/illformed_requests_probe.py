import tempfile, os, typing as ty
from pathlib import Path
from pydra.compose import python, workflow
log = Path(tempfile.mkdtemp()) / "log"
@python.define
def Id(a=None, b=None, c=None, log: str = "") -> ty.Any:
    with open(log, "a") as f: f.write("x")
    return (a, b, c)
def attempt(label, fn):
    if log.exists(): log.unlink()
    cache = tempfile.mkdtemp()
    try:
        r = fn(cache); out = f"OK {r}"
    except Exception as e:
        out = f"{type(e).__name__}: {str(e)[:90]}"
    n = len(log.read_text()) if log.exists() else 0
    dirs = sorted(p[:8] for p in os.listdir(cache) if os.path.isdir(os.path.join(cache, p)))
    print(f"{label:34s} execs={n} dirs={dirs} -> {out[:150]}")
L = str(log)
attempt("valid", lambda c: Id(log=L).split(["a","b"], a=[1,2], b=[3])(cache_root=c).out)
attempt("field split twice", lambda c: Id(log=L).split(["a","a"], a=[1,2])(cache_root=c).out)
attempt("field split twice nested", lambda c: Id(log=L).split(["a",("b","a")], a=[1,2], b=[1,2])(cache_root=c).out)
attempt("split again w/o overwrite", lambda c: Id(log=L).split("a", a=[1,2]).split("b", b=[1])(cache_root=c).out)
attempt("missing value", lambda c: Id(log=L).split(["a","b"], a=[1,2])(cache_root=c).out)
attempt("extra value", lambda c: Id(log=L).split("a", a=[1,2], b=[3])(cache_root=c).out)
attempt("combiner not split", lambda c: Id(log=L).split("a", a=[1,2]).combine("b")(cache_root=c).out)
attempt("combiner unknown field", lambda c: Id(log=L).split("a", a=[1,2]).combine("zz")(cache_root=c).out)
attempt("combine without split", lambda c: Id(log=L, a=1).combine("a")(cache_root=c).out)
attempt("non-sequence value", lambda c: Id(log=L).split("a", a=5)(cache_root=c).out)
attempt("string value", lambda c: Id(log=L).split("a", a="xy")(cache_root=c).out)
attempt("inner diff lengths", lambda c: Id(log=L).split(("a","b"), a=[1,2], b=[3])(cache_root=c).out)
@workflow.define
def W(xs, log):
    n = workflow.add(Id(log=log).split("a", a=xs).combine("b"), name="n")
    return n.out
attempt("wf node combiner not split", lambda c: W(xs=[1,2], log=L)(cache_root=c).out)
