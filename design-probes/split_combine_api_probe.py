import tempfile, typing as ty
from pydra.compose import python
@python.define
def Id(a=None, b=None, c=None, k=7) -> ty.Any:
    return (a, b, c, k)
def run(t):
    try: return t(cache_root=tempfile.mkdtemp()).out
    except Exception as e: return f"ERR {type(e).__name__}: {str(e)[:120]}"
print(1, run(Id().split(["a","b"], a=[1,2], b=[10,20])))
print(2, run(Id().split(["a","b"], a=[1,2], b=[10,20]).combine("a")))
print(3, run(Id().split(["a","b"], a=[1,2], b=[10,20]).combine("b")))
print(4, run(Id().split(["a","b"], a=[1,2], b=[10,20]).combine(["a","b"])))
print(5, run(Id().split(("a","b"), a=[1,2], b=[10,20]).combine("a")))
print(6, run(Id().split([("a","b"),"c"], a=[1,2], b=[10,20], c=[5,6]).combine("b")))
print(7, run(Id().split(["a","b"], a=[], b=[10,20])))
print(8, run(Id().split(["a","b"], a=[], b=[10,20]).combine("a")))
print(9, run(Id().split(("a","b"), a=[1,2], b=[10])))
print(10, run(Id().split(a=[1,2])))
print(11, run(Id().split(("a",), a=[1,2])))
print(12, run(Id().split([["a"],"b"], a=[1,2], b=[3])))
