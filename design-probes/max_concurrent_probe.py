import tempfile, os, sys, time, json
from pydra.compose import python, workflow
from pydra.engine.submitter import Submitter

@python.define
def Slp(x: int, log: str) -> int:
    import time, os
    with open(log, "a") as f: f.write(f"S {x} {time.time()}\n")
    time.sleep([0.3,3.0,1.0,1.0,1.0,1.0][x])
    with open(log, "a") as f: f.write(f"E {x} {time.time()}\n")
    return x

if __name__ == "__main__":
    tmp = tempfile.mkdtemp(); log = os.path.join(tmp, "log.txt")
    t = Slp(log=log).split(x=list(range(6)))
    with Submitter(worker="cf", n_procs=6, cache_root=os.path.join(tmp,"c"), max_concurrent=2) as sub:
        res = sub(t)
    ev = sorted((float(l.split()[2]), l.split()[0]) for l in open(log))
    cur = mx = 0
    for _, k in ev:
        cur += 1 if k == "S" else -1
        mx = max(mx, cur)
    print("max concurrent observed:", mx, "limit 2")
