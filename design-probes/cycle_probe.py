import tempfile, os, sys, signal, typing as ty
from pydra.compose import python, workflow

@python.define
def Add(x, y=0) -> ty.Any:
    return x + y

@workflow.define
def Cyc(x) -> ty.Any:
    a = workflow.add(Add(x=x), name="a")
    b = workflow.add(Add(x=a.out), name="b")
    wf = workflow.this()
    wf["a"].inputs.y = b.out
    return b.out

signal.alarm(8)
tmp = tempfile.mkdtemp()
try:
    print(Cyc(x=1)(cache_root=tmp))
except BaseException as e:
    print("ERR", type(e).__name__, str(e)[:200])
