import os, tempfile, typing as ty
from pathlib import Path
from fileformats.generic import File, Directory
from pydra.compose import python, workflow
from pydra.utils.typing import copy_nested_files
from pydra.engine.job import Job
from pydra.engine.submitter import Submitter
tmp = Path(tempfile.mkdtemp())
def mk(d, name, content):
    p = tmp / d; p.mkdir(exist_ok=True); f = p / name; f.write_text(content); return f
a1 = mk("d1", "f.txt", "one"); a2 = mk("d2", "f.txt", "two"); a3 = mk("d3", "g.txt", "three")

# C33: workflow returning files with colliding names
@python.define(outputs={"out": list[File]})
def Mk(paths: list[str]):
    return [File(p) for p in paths]
@python.define(outputs={"out": dict[str, ty.Any]})
def MkD(paths: list[str]):
    return {"k": [File(paths[0]), (File(paths[1]), 3)], "same": File(paths[0])}
@workflow.define(outputs={"o": list[File], "d": dict[str, ty.Any]})
def W(paths: list[str]):
    m = workflow.add(Mk(paths=paths)); d = workflow.add(MkD(paths=paths))
    return m.out, d.out
cache = tmp / "cache"
res = W(paths=[str(a1), str(a2), str(a3)])(cache_root=cache)
print("o:", [(str(f).replace(str(tmp), ""), Path(f).read_text()) for f in res.o])
print("d:", res.d)
wfdir = [p for p in cache.iterdir() if p.name.startswith("workflow") and p.is_dir()][0]
print("wf dir files:", sorted(p.name for p in wfdir.iterdir()))

# C34: staging with copy modes
for mode in ["copy", "link", "any"]:
    @python.define
    def Rd(f: File, extra: ty.Any = None) -> str:
        return Path(f).read_text()
    from pydra.compose import shell
    Sh = shell.define("cat", inputs={"f": shell.arg(type=File, argstr="", copy_mode=getattr(File.CopyMode, mode)), "fs": shell.arg(type=list[File], argstr="", copy_mode=getattr(File.CopyMode, mode))})
    t = Sh(f=File(a1), fs=[File(a1), File(a2), File(a1)])
    with Submitter(cache_root=tmp / f"c_{mode}") as sub:
        j = Job(t, submitter=sub, name="j")
        j.cache_dir.mkdir(parents=True, exist_ok=True)
        inp = j.inputs
    f = Path(inp["f"]); fs = [Path(x) for x in inp["fs"]]
    print(mode, "f staged:", str(f).replace(str(tmp), ""), "samefile(orig):", os.path.samefile(f, a1), "islink:", f.is_symlink(), "| fs:", [str(x).replace(str(tmp), "")[-22:] for x in fs], "contents", [x.read_text() for x in fs])
