import os, tempfile, shutil, time
from pathlib import Path
from fileformats.generic import File
from pydra.utils.hash import hash_function, PersistentCache, Cache
tmp = tempfile.mkdtemp(); os.environ["PYDRA_HASH_CACHE"] = os.path.join(tmp, "hc")
def H(p, fresh=False):
    if fresh:
        d = tempfile.mkdtemp(); return hash_function(File(p), persistent_cache=d)
    return hash_function(File(p), persistent_cache=os.path.join(tmp, "hc"))
p = os.path.join(tmp, "f.txt")
Path(p).write_text("AAAA"); st = os.stat(p)
h1 = H(p); print("h1 fresh-equal", h1 == H(p, True))
# same-size write, restore mtime
Path(p).write_text("BBBB"); os.utime(p, ns=(st.st_atime_ns, st.st_mtime_ns))
h2 = H(p); print("restore-mtime: stale?", h2 == h1, "correct?", h2 == H(p, True))
# different size write, restore mtime
Path(p).write_text("CCCCCC"); os.utime(p, ns=(st.st_atime_ns, st.st_mtime_ns))
h3 = H(p); print("diff-size restore-mtime: stale?", h3 == h1, "correct?", h3 == H(p, True))
# rapid rewrite without touching mtime explicitly
q = os.path.join(tmp, "g.txt"); Path(q).write_text("1111"); g1 = H(q); Path(q).write_text("2222"); g2 = H(q)
print("rapid rewrite: stale?", g1 == g2, "correct?", g2 == H(q, True))
# copy with preserved timestamps over
r = os.path.join(tmp, "r.txt"); Path(r).write_text("XXXX"); r1 = H(r)
s = os.path.join(tmp, "s.txt"); Path(s).write_text("YYYY"); os.utime(s, ns=(os.stat(r).st_atime_ns, os.stat(r).st_mtime_ns))
shutil.copy2(s, r); r2 = H(r); print("copy2-over same mtime: stale?", r2 == r1, "correct?", r2 == H(r, True))
# rename over
u = os.path.join(tmp, "u.txt"); Path(u).write_text("UUUU"); u1 = H(u)
v = os.path.join(tmp, "v.txt"); Path(v).write_text("VVVV"); os.utime(v, ns=(os.stat(u).st_atime_ns, os.stat(u).st_mtime_ns)); os.replace(v, u)
u2 = H(u); print("rename-over same mtime: stale?", u2 == u1, "correct?", u2 == H(u, True))
