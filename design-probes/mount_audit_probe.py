import tempfile, os, json, glob
from pathlib import Path
from pydra.utils.mount_identifier import MountIndentifier as M
tbl = M.parse_mount_table(0, "//srv/share on /data type cifs (rw)\n/dev/sda on / type ext4 (rw)\n/dev/sdb on /data2 type ext4 (rw)\n")
print(tbl)
with M.patch_table(tbl):
    print(M.get_mount("/data2/x"), M.on_cifs("/data2/x"), M.on_cifs("/data/x"), M.on_cifs("/database/x"))

# C36 audit with workflow
from pydra.compose import python, workflow
from pydra.utils.messenger import AuditFlag, FileMessenger
@python.define
def Add(x: int) -> int:
    return x + 1
@workflow.define
def W(x: int) -> int:
    a = workflow.add(Add(x=x), name="a")
    b = workflow.add(Add(x=a.out), name="b")
    return b.out
tmp = tempfile.mkdtemp(); md = os.path.join(tmp, "msgs")
W(x=1)(cache_root=os.path.join(tmp,"c"), audit_flags=AuditFlag.PROV, messengers=FileMessenger(), messenger_args={"message_dir": md})
msgs = []
for f in glob.glob(md + "/*.jsonld"):
    m = json.load(open(f)); msgs.append(m)
starts = [m["@id"] for m in msgs if "startedAtTime" in m]
ends = [(m["@id"], m.get("errored")) for m in msgs if "endedAtTime" in m]
print("starts", sorted(starts)); print("ends", sorted(ends))
