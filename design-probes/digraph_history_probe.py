"""Design probe: random add/remove histories on DiGraph, check topological validity."""
import random, collections, signal
from pydra.engine.graph import DiGraph
class Nd:
    def __init__(s, n): s.name = n
    def __repr__(s): return s.name
def valid(g):
    names = [n.name for n in g.sorted_nodes]
    if sorted(names) != sorted(n.name for n in g.nodes): return "not-a-permutation %s vs %s" % (names, [n.name for n in g.nodes])
    pos = {n: i for i, n in enumerate(names)}
    for a, b in g.edges:
        if a.name in pos and b.name in pos and pos[a.name] >= pos[b.name]: return f"order {a}->{b} in {names}"
    return None
def reach(edges, a, b):
    seen = set(); st = [a]
    while st:
        x = st.pop()
        if x == b: return True
        for (u, v) in edges:
            if u is x and v not in seen: seen.add(v); st.append(v)
    return False
stats = collections.Counter(); shown = 0
signal.alarm(600)
for seed in range(3000):
    rng = random.Random(seed)
    pool = [Nd(f"n{i}") for i in range(6)]
    g = DiGraph(); hist = []
    try:
        for step in range(12):
            op = rng.choice(["addn", "adde", "adde", "rm", "sort"])
            if op == "addn":
                cand = [n for n in pool if n not in g.nodes and n not in g._node_wip]
                if not cand: continue
                n = rng.choice(cand); g.add_nodes(n); hist.append(("addn", n.name))
            elif op == "adde":
                ns = list(g.nodes)
                if len(ns) < 2: continue
                a, b = rng.sample(ns, 2)
                if (a, b) in g.edges or reach(g.edges, b, a): continue
                g.add_edges((a, b)); hist.append(("adde", a.name, b.name))
            elif op == "rm":
                # engine usage: remove a node without predecessors, then its connections
                cand = [n for n in g.nodes if not g.predecessors[n.name]]
                if not cand: continue
                n = rng.choice(cand); g.remove_nodes(n); g.remove_nodes_connections(n); hist.append(("rm", n.name))
            else:
                g.sorting(); hist.append(("sort",))
            v = valid(g)
            if v:
                stats["INVALID"] += 1
                if shown < 6: shown += 1; print("INVALID", v, hist)
                break
        else:
            stats["ok"] += 1
    except Exception as e:
        stats["EXC " + type(e).__name__] += 1
        if shown < 6: shown += 1; print("EXC", type(e).__name__, str(e)[:80], hist)
print(dict(stats))
