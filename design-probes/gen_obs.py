import json, sys, numpy as np
from pydra.utils.hash import hash_function
def term(v):
    if v is None: return {"k": "none", "v": "None"}
    if isinstance(v, bool): return {"k": "bool", "v": str(v)}
    if isinstance(v, int): return {"k": "int", "v": str(v)}
    if isinstance(v, float): return {"k": "float", "v": repr(v)}
    if isinstance(v, str): return {"k": "str", "v": v}
    if isinstance(v, bytes): return {"k": "bytes", "v": v.hex()}
    if isinstance(v, np.ndarray): return {"k": "ndarray", "dtype": str(v.dtype), "shape": list(v.shape), "v": [repr(x) for x in v.ravel().tolist()]}
    if isinstance(v, (list, tuple)): return {"k": type(v).__name__, "v": [term(x) for x in v]}
    if isinstance(v, (set, frozenset)): return {"k": type(v).__name__, "v": [term(x) for x in v]}
    if isinstance(v, dict): return {"k": "dict", "v": [[term(a), term(b)] for a, b in v.items()]}
    raise TypeError(v)
vals = [1, 1.0, True, "1", b"1", None, [1], (1,), [1, 2], [2, 1], {1, 2}, {2, 1}, frozenset({1, 2}), {"a": 1, "b": 2}, {"b": 2, "a": 1}, [[1], [2]], [[1, 2]], [1, [2]],
        frozenset({frozenset({"a", "b"}), frozenset({"c", "d"})}), frozenset({frozenset({"c", "d"}), frozenset({"a", "b"})}),
        np.zeros((2, 3)), np.zeros((3, 2)), np.zeros(6), np.zeros(6, dtype="int64"), {"k": [1, (2, 3)]}, {"k": [1, [2, 3]]}]
with open(sys.argv[1], "w") as f:
    for v in vals:
        f.write(json.dumps({"term": term(v), "digest": hash_function(v)}) + "\n")
