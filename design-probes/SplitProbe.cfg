INIT Init
NEXT Next
CONSTANTS Fields = {"a","b","c"}
MaxLen = 2
CHECK_DEADLOCK FALSE
