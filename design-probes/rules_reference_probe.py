"""Design probe: reference predicate for requires/xor vs pydra _check_rules (python tasks)."""
import itertools, typing as ty, collections, sys
from pydra.compose import python
from pydra.compose.base import field as bf

KINDS = {"b": (bool, False, [False, True]), "s": (str | None, None, [None, "v", "w"])}
def is_set(kind, v):
    return v is not None and v is not False
def req_ok(req, vals, kinds):
    f, allowed = req
    v = vals[f]
    if v is None or (kinds[f] == "b" and v is False): return False
    return allowed is None or v in allowed
def executable(fields, kinds, requires, xors, vals):
    # requires: {field: [ [ (f, allowed|None), ...], ...]}
    for f in fields:
        if is_set(kinds[f], vals[f]) and requires.get(f):
            if not any(all(req_ok(r, vals, kinds) for r in rs) for rs in requires[f]): return False
    for grp, allow_none in xors:
        n = sum(1 for f in grp if is_set(kinds[f], vals[f]))
        if n > 1: return False
        if n == 0 and not allow_none: return False
    return True

def build(fields, kinds, requires, xors):
    inputs = {}
    for f in fields:
        tp, dflt, _ = KINDS[kinds[f]]
        kw = {}
        if requires.get(f):
            kw["requires"] = [[ (r[0], r[1]) if r[1] is not None else r[0] for r in rs] for rs in requires[f]]
        inputs[f] = python.arg(type=tp, default=dflt, **kw)
    xor = [tuple(list(g) + ([None] if an else [])) for g, an in xors]
    src = "def F(" + ", ".join(fields) + "):\n    return 1\n"
    ns = {}; exec(src, ns)
    return python.define(ns["F"], inputs=inputs, outputs={"out": int}, xor=xor)

stats = collections.Counter(); shown = 0
fields = ["p", "q", "r"]
reqsets_for = lambda f: [None] + [[[(g, None)]] for g in fields if g != f] + [[[(g, None)], [(h, None)]] for g, h in itertools.combinations([x for x in fields if x != f], 2)] + [[[(g, None), (h, None)]] for g, h in itertools.combinations([x for x in fields if x != f], 2)] + [[[(g, ["v"])]] for g in fields if g != f]
xor_opts = [[]] + [[(g, an)] for g in [("p","q"), ("p","q","r"), ("q","r")] for an in (False, True)]
for kinds_t in itertools.product("bs", repeat=3):
    kinds = dict(zip(fields, kinds_t))
    for rp in reqsets_for("p"):
        for rq in [None, [[("r", None)]], [[("p", ["v"])]]]:
            requires = {k: v for k, v in (("p", rp), ("q", rq)) if v}
            # allowed values only make sense for str fields
            if any(r[1] and kinds[r[0]] != "s" for rss in requires.values() for rs in rss for r in rs): continue
            for xors in xor_opts:
                try:
                    T = build(fields, kinds, requires, xors)
                except Exception as e:
                    stats["define-error:" + type(e).__name__] += 1; continue
                for vs in itertools.product(*[KINDS[kinds[f]][2] for f in fields]):
                    vals = dict(zip(fields, vs))
                    exp = executable(fields, kinds, requires, xors, vals)
                    try:
                        T(**vals)._check_rules(); got = True
                    except ValueError:
                        got = False
                    except Exception as e:
                        got = "EXC " + type(e).__name__
                    k = "agree" if got == exp else f"MISMATCH exp={exp} got={got}"
                    stats[k] += 1
                    if k != "agree" and shown < 8:
                        shown += 1; print(k, kinds, requires, xors, vals)
print(dict(stats))
