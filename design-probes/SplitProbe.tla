---- MODULE SplitProbe ----
EXTENDS Naturals, Sequences, FiniteSets, TLC, Json, SequencesExt, Functions, FiniteSetsExt
CONSTANTS Fields, MaxLen

Leaf(f) == [op |-> "f", name |-> f, kids |-> <<>>]
Node(o, ks) == [op |-> o, name |-> "", kids |-> ks]

\* all trees with exactly the leaves in sequence s (in that order), n-ary, ops "*" "."
RECURSIVE Splits(_)
\* all ways to cut sequence s into >=2 consecutive non-empty parts
Splits(s) == IF Len(s) < 2 THEN {}
             ELSE UNION { { <<SubSeq(s,1,i)>> \o rest : rest \in ({<<SubSeq(s,i+1,Len(s))>>} \cup Splits(SubSeq(s,i+1,Len(s)))) } : i \in 1..(Len(s)-1) }
RECURSIVE Trees(_)
RECURSIVE SeqProd(_)
SeqProd(sets) == IF sets = <<>> THEN {<<>>} ELSE { <<h>> \o t : h \in Head(sets), t \in SeqProd(Tail(sets)) }
Trees(s) == IF Len(s) = 1 THEN {Leaf(s[1])}
            ELSE UNION { { Node(o, ks) : o \in {"*","."}, ks \in SeqProd([i \in 1..Len(parts) |-> Trees(parts[i])]) } : parts \in Splits(s) }

RECURSIVE Expand(_,_)
\* result: sequence of functions field -> index ; "REJECT" modelled by <<"rej">>
RECURSIVE ProdSeq(_,_)
ProdSeq(a, b) == IF a = <<>> THEN <<>> ELSE [j \in 1..Len(b) |-> a[1] @@ b[j]] \o ProdSeq(Tail(a), b)
RECURSIVE FoldOuter(_)
FoldOuter(es) == IF Len(es) = 1 THEN es[1] ELSE ProdSeq(es[1], FoldOuter(Tail(es)))
RECURSIVE FoldInner(_)
FoldInner(es) == IF Len(es) = 1 THEN es[1] ELSE LET r == FoldInner(Tail(es)) IN [j \in 1..Len(r) |-> es[1][j] @@ r[j]]
Expand(t, len) ==
  IF t.op = "f" THEN [i \in 1..len[t.name] |-> (t.name :> (i-1))]
  ELSE LET es == [k \in 1..Len(t.kids) |-> Expand(t.kids[k], len)] IN
       IF t.op = "*" THEN FoldOuter(es) ELSE FoldInner(es)
RECURSIVE Shape(_,_)
Shape(t, len) == IF t.op = "f" THEN <<len[t.name]>>
                 ELSE IF t.op = "*" THEN FlattenSeq([k \in 1..Len(t.kids) |-> Shape(t.kids[k], len)])
                 ELSE Shape(t.kids[1], len)
RECURSIVE WellShaped(_,_)
WellShaped(t, len) == IF t.op = "f" THEN TRUE
   ELSE /\ \A k \in 1..Len(t.kids) : WellShaped(t.kids[k], len)
        /\ (t.op = "." => \A k \in 2..Len(t.kids) : Shape(t.kids[k], len) = Shape(t.kids[1], len))

Perms == { s \in [1..Cardinality(Fields) -> Fields] : \A i, j \in DOMAIN s : i # j => s[i] # s[j] }
VARIABLES tree, lens, done
Init == /\ \E p \in Perms : tree \in Trees(p)
        /\ lens \in [Fields -> 0..MaxLen]
        /\ done = FALSE
Next == done = FALSE /\ done' = TRUE /\ UNCHANGED <<tree, lens>>
        /\ LET ok == WellShaped(tree, lens) IN
           PrintT(ToJson([t |-> tree, l |-> lens, ok |-> ok, n |-> IF ok THEN Len(Expand(tree, lens)) ELSE 0]))
====
