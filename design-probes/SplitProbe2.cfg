INIT Init
NEXT Next
CONSTANTS Fields = {"a","b","c"}
MaxLen = 2
MinLen = 0
CHECK_DEADLOCK FALSE
