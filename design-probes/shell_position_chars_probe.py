from pydra.compose import shell
from pydra.utils.general import get_fields
T = shell.define("cmd", inputs={"x": shell.arg(type=str, argstr="-x"), "y": shell.arg(type=str, argstr="-y", position=2), "z": shell.arg(type=str, argstr="-z", position=-1), "u": shell.arg(type=str, argstr="-u")})
print({f.name: f.position for f in get_fields(T)})
t = T(x="X", y="Y", z="Z", u="U")
print(t.cmdline)
T2 = shell.define("cmd", inputs={"x": shell.arg(type=str, argstr="-x"), "y": shell.arg(type=str, argstr="-y", position=1), "u": shell.arg(type=str, argstr="-u")})
print({f.name: f.position for f in get_fields(T2)}); print(T2(x="X", y="Y", u="U").cmdline)
t3 = T(x="a b", y="c;d", z='e$f*', u="g\\h")
print(t3._command_args({k: getattr(t3,k) for k in ["executable","x","y","z","u","append_args"]}))
print(t3.cmdline)
