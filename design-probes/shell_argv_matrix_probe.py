import typing as ty, itertools, tempfile
from pathlib import Path
from pydra.compose import shell
from pydra.utils.typing import MultiInputObj
def argv(fields, **vals):
    try:
        T = shell.define("cmd", inputs=fields)
        t = T(**vals)
        v = {k: getattr(t,k) for k in list(fields)+["executable","append_args"]}
        return t._command_args(v)
    except Exception as e:
        return f"ERR {type(e).__name__}: {str(e)[:90]}"
A = shell.arg
print("bool flag T/F", argv({"x": A(type=bool, argstr="-v", default=False)}, x=True), argv({"x": A(type=bool, argstr="-v", default=False)}, x=False))
print("bool templ", argv({"x": A(type=bool, argstr="-v {x}", default=False)}, x=True), argv({"x": A(type=bool, argstr="-v {x}", default=False)}, x=False))
print("str plain", argv({"x": A(type=str, argstr="")}, x="val"), argv({"x": A(type=str, argstr="-f")}, x="val"), argv({"x": A(type=str, argstr="--k={x}")}, x="val"))
print("opt None", argv({"x": A(type=str|None, argstr="-f", default=None)}), argv({"x": A(type=str|None, argstr="-f", default=None)}, x="v"))
print("int 0", argv({"x": A(type=int, argstr="-n")}, x=0), argv({"x": A(type=int, argstr="")}, x=0), argv({"x": A(type=int, argstr="-n {x}")}, x=0))
print("float", argv({"x": A(type=float, argstr="-n")}, x=1.5), argv({"x": A(type=float, argstr="-n {x:.3f}")}, x=1.5))
print("list sep", argv({"x": A(type=list[str], argstr="-l", sep=",")}, x=["a","b"]), argv({"x": A(type=list[str], argstr="-l")}, x=["a","b"]), argv({"x": A(type=list[str], argstr="-l...")}, x=["a","b"]), argv({"x": A(type=list[str], argstr="-l {x}...")}, x=["a","b"]))
print("list templ", argv({"x": A(type=list[str], argstr="--l={x}", sep=",")}, x=["a","b"]), argv({"x": A(type=list[str], argstr="", sep=" ")}, x=["a","b"]))
print("empty list", argv({"x": A(type=list[str], argstr="-l")}, x=[]), argv({"x": A(type=MultiInputObj[str], argstr="-l")}, x=[]))
print("multi", argv({"x": A(type=MultiInputObj[str], argstr="-m")}, x=["a","b"]), argv({"x": A(type=MultiInputObj[str], argstr="-m")}, x="a"), argv({"x": A(type=MultiInputObj[str], argstr="-m...")}, x=["a","b"]))
print("no argstr", argv({"x": A(type=str, argstr=None)}, x="val"))
print("append", argv({"x": A(type=str, argstr="-f")}, x="v", append_args=["z1","z2"]))
print("empty str", argv({"x": A(type=str, argstr="-f")}, x=""), argv({"x": A(type=str, argstr="")}, x=""))
