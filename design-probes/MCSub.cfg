SPECIFICATION Spec
CONSTANTS
 Nodes <- MCNodes
 Preds <- MCPreds
 K = 2
 Fails <- MCFailsNone
INVARIANT ConcLimit
CHECK_DEADLOCK FALSE
