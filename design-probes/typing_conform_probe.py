import typing as ty, itertools
from pathlib import Path
from pydra.utils.typing import TypeParser, MultiInputObj
atoms = [0, 1, True, 1.5, 1.0, "a", "", "ab", b"ab", None, Path("p"), [1,2], (1,2), ["a"], ("a","b"), {1,2}, {"k":1}, {"k":"v"}, [[1],[2]], [1,"a"], (1,"a"), [True], [1.0], frozenset({1})]
types = [int, float, bool, str, bytes, Path, int|None, int|str, str|int, float|int, int|float, list[int], list[float], list[str], tuple[int,...], tuple[int,str], dict[str,int], set[int], list[int]|int, MultiInputObj[int], MultiInputObj[str], list[list[int]], list[int|str], ty.Any, list, tuple, dict[str, list[int]], list[Path], list[bool]]
def conf(v, t):
    o = ty.get_origin(t); a = ty.get_args(t)
    if t is ty.Any: return True
    if t is None or t is type(None): return v is None
    import types
    if o in (ty.Union, types.UnionType): return any(conf(v,x) for x in a)
    if o is None:
        if t is MultiInputObj: return isinstance(v, list)
        return isinstance(v, t)
    if o is MultiInputObj: return isinstance(v, list) and all(conf(x,a[0]) for x in v)
    if o in (list, set, frozenset): return isinstance(v, o) and all(conf(x, a[0]) for x in v)
    if o is tuple:
        if not isinstance(v, tuple): return False
        if len(a)==2 and a[1] is Ellipsis: return all(conf(x,a[0]) for x in v)
        return len(v)==len(a) and all(conf(x,y) for x,y in zip(v,a))
    if o is dict: return isinstance(v, dict) and all(conf(k,a[0]) and conf(x,a[1]) for k,x in v.items())
    return False
bad=[]
for t in types:
    p = TypeParser(t)
    for v in atoms:
        try:
            r = p(v)
        except TypeError:
            continue
        except Exception as e:
            bad.append(("EXC", t, v, type(e).__name__)); continue
        if not conf(r, t): bad.append(("NONCONF", t, v, r))
        try:
            r2 = p(r)
            if r2 != r or type(r2) is not type(r): bad.append(("NONIDEM", t, v, r, r2))
        except Exception as e:
            bad.append(("REJECT2", t, v, r, type(e).__name__))
        if isinstance(v, str) and isinstance(r,(list,tuple,set)) and len(v)!=1 and list(r)==list(v): bad.append(("STRSPLIT", t, v, r))
for b in bad: print(b)
print(len(bad))
