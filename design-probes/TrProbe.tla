---- MODULE TrProbe ----
EXTENDS Naturals, Sequences, FiniteSets, TLC, Json, IOUtils
\* tiny lock protocol: procs acquire lock, check, run body, save, release
VARIABLES lock, result, execs, pc
sv == <<lock, result, execs, pc>>
Procs == {"p1","p2"}
SInit == lock = "free" /\ result = "none" /\ execs = 0 /\ pc = [p \in Procs |-> "idle"]
Acquire(p) == pc[p] = "idle" /\ lock = "free" /\ lock' = p /\ pc' = [pc EXCEPT ![p] = "locked"] /\ UNCHANGED <<result, execs>>
CheckHit(p) == pc[p] = "locked" /\ lock = p /\ result = "ok" /\ pc' = [pc EXCEPT ![p] = "releasing"] /\ UNCHANGED <<lock, result, execs>>
CheckMiss(p) == pc[p] = "locked" /\ lock = p /\ result # "ok" /\ pc' = [pc EXCEPT ![p] = "body"] /\ UNCHANGED <<lock, result, execs>>
Body(p) == pc[p] = "body" /\ execs' = execs + 1 /\ pc' = [pc EXCEPT ![p] = "saving"] /\ UNCHANGED <<lock, result>>
Save(p) == pc[p] = "saving" /\ result' = "ok" /\ pc' = [pc EXCEPT ![p] = "releasing"] /\ UNCHANGED <<lock, execs>>
Release(p) == pc[p] = "releasing" /\ lock = p /\ lock' = "free" /\ pc' = [pc EXCEPT ![p] = "done"] /\ UNCHANGED <<result, execs>>
OneExec == execs <= 1

\* ---- trace part (monitor style, batched) ----
AllTraces == ndJsonDeserialize(IOEnv.TRACE_FILE)   \* each line: {"tid":..,"ev":[{"a":..,"p":..},...]}
VARIABLES tid, l, verdict
tv == <<sv, tid, l, verdict>>
Ev == AllTraces[tid].ev
TInit == SInit /\ tid \in 1..Len(AllTraces) /\ l = 1 /\ verdict = "run"
Step(e) == CASE e.a = "Acquire" -> Acquire(e.p)
             [] e.a = "CheckHit" -> CheckHit(e.p)
             [] e.a = "CheckMiss" -> CheckMiss(e.p)
             [] e.a = "Body" -> Body(e.p)
             [] e.a = "Save" -> Save(e.p)
             [] e.a = "Release" -> Release(e.p)
             [] OTHER -> FALSE
TNext == /\ verdict = "run" /\ l <= Len(Ev)
         /\ \/ /\ Step(Ev[l]) /\ l' = l + 1 /\ tid' = tid
               /\ verdict' = IF ~OneExec' THEN "violation:OneExec" ELSE IF l + 1 > Len(Ev) THEN "accepted" ELSE "run"
            \/ /\ ~ENABLED Step(Ev[l]) /\ UNCHANGED <<sv, tid, l>> /\ verdict' = "rejected"
TSpec == TInit /\ [][TNext]_tv
Report == (verdict # "run" \/ l > Len(Ev)) => PrintT(<<"VERDICT", tid, verdict, l>>)
====
