---- MODULE JobProbe ----
(* Throw-away probe of the JobProtocol core: N processes submit ONE identity into
   Caches = <<root, ro>>; lock, cache lookup (as-built: first existing dir decides),
   populate, body, save (non-atomic: partial then ok), release; Crash anywhere;
   StaleBreak of a dead owner's lock.  Checks C10/C11/C12 core invariants. *)
EXTENDS Naturals, Sequences, FiniteSets, TLC
CONSTANTS Procs, FirstExistingDirDecides, AllowCrash, RoInit, RootInit
\* dir state: "absent" | "empty" | "job" (job pkl only) | "partial" | "ok" | "err"
VARIABLES dir,      \* [ {"root","ro"} -> dirstate ]
          lock,     \* "free" or a process
          alive, pc, execs, ret, crashes
vars == <<dir, lock, alive, pc, execs, ret, crashes>>
Caches == <<"root","ro">>

\* load_result over the cache list
LoadFrom(c) == IF dir[c] = "ok" THEN "ok" ELSE IF dir[c] = "err" THEN "err" ELSE "none"   \* partial -> retries -> none
LoadResult ==
  IF FirstExistingDirDecides
  THEN IF dir["root"] # "absent" THEN LoadFrom("root")
       ELSE IF dir["ro"] # "absent" THEN LoadFrom("ro") ELSE "none"
  ELSE IF LoadFrom("root") # "none" THEN LoadFrom("root") ELSE LoadFrom("ro")

Init == /\ dir = [c \in {"root","ro"} |-> IF c = "root" THEN RootInit ELSE RoInit]
        /\ lock = "free" /\ alive = [p \in Procs |-> TRUE] /\ pc = [p \in Procs |-> "idle"]
        /\ execs = 0 /\ ret = [p \in Procs |-> "none"] /\ crashes = 0

Step(p, from, to) == pc[p] = from /\ alive[p] /\ pc' = [pc EXCEPT ![p] = to]
Acquire(p) == /\ Step(p, "idle", "locked") /\ lock = "free" /\ lock' = p
              /\ UNCHANGED <<dir, alive, execs, ret, crashes>>
StaleBreak(p) == /\ pc[p] = "idle" /\ alive[p] /\ lock # "free" /\ ~alive[lock] /\ lock' = "free"
                 /\ UNCHANGED <<dir, alive, pc, execs, ret, crashes>>
Check(p) == /\ pc[p] = "locked" /\ alive[p]
            /\ IF LoadResult = "ok"
               THEN pc' = [pc EXCEPT ![p] = "releasing"] /\ ret' = [ret EXCEPT ![p] = "ok"]
               ELSE pc' = [pc EXCEPT ![p] = "populate"] /\ ret' = ret
            /\ UNCHANGED <<dir, lock, alive, execs, crashes>>
Populate(p) == /\ Step(p, "populate", "body") /\ dir' = [dir EXCEPT !["root"] = "job"]
               /\ UNCHANGED <<lock, alive, execs, ret, crashes>>
Body(p) == /\ Step(p, "body", "saving") /\ execs' = execs + 1
           /\ UNCHANGED <<dir, lock, alive, ret, crashes>>
SaveBegin(p) == /\ Step(p, "saving", "saving2") /\ dir' = [dir EXCEPT !["root"] = "partial"]
                /\ UNCHANGED <<lock, alive, execs, ret, crashes>>
SaveEnd(p) == /\ Step(p, "saving2", "releasing") /\ dir' = [dir EXCEPT !["root"] = "ok"]
              /\ ret' = [ret EXCEPT ![p] = "ok"]
              /\ UNCHANGED <<lock, alive, execs, crashes>>
Release(p) == /\ Step(p, "releasing", "done") /\ lock = p /\ lock' = "free"
              /\ UNCHANGED <<dir, alive, execs, ret, crashes>>
Crash(p) == /\ AllowCrash /\ crashes = 0 /\ alive[p] /\ pc[p] \notin {"idle","done"}
            /\ alive' = [alive EXCEPT ![p] = FALSE] /\ crashes' = crashes + 1
            /\ ret' = [ret EXCEPT ![p] = "none"]
            /\ UNCHANGED <<dir, lock, pc, execs>>
Next == \E p \in Procs : Acquire(p) \/ StaleBreak(p) \/ Check(p) \/ Populate(p) \/ Body(p)
                         \/ SaveBegin(p) \/ SaveEnd(p) \/ Release(p) \/ Crash(p)
Fair == \A p \in Procs : WF_vars(Acquire(p) \/ StaleBreak(p) \/ Check(p) \/ Populate(p) \/ Body(p) \/ SaveBegin(p) \/ SaveEnd(p) \/ Release(p))
Spec == Init /\ [][Next]_vars /\ Fair

Mutex == \A p, q \in Procs : (pc[p] \notin {"idle","done"} /\ pc[q] \notin {"idle","done"} /\ alive[p] /\ alive[q]) => p = q
\* C10/C12: without a crash the body runs at most once; with one crash at most twice, and
\* a completed body is never repeated
OneBody == execs <= 1 + crashes
NoPartialReturn == \A p \in Procs : ret[p] = "ok" => (dir["root"] = "ok" \/ dir["ro"] = "ok")
\* C11: a complete result in any listed cache is reused (never re-executed)
ReuseComplete == (RoInit = "ok" \/ RootInit = "ok") => execs = 0
\* C12 liveness: every live process eventually returns
Returns == \A p \in Procs : <>(~alive[p] \/ pc[p] = "done")
====
