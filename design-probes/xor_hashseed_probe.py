import tempfile, sys
from pydra.compose import python, workflow, shell
from pydra.engine.submitter import Submitter
from pydra.utils.hash import hash_function

@python.define(xor=[("a","b"),("c","d"),("e","f")])
def F(a: int|None=None, b: int|None=None, c: int|None=None, d: int|None=None, e:int|None=None, f:int|None=None) -> int:
    return (a or 0)+(b or 0)+(c or 0)+(d or 0)

t = F(a=1, c=2, e=3)
print("plain checksum", t._checksum)
print("task-as-value hash", hash_function(t))
ts = F(c=2,e=3).split(a=[1,2])
tmp = tempfile.mkdtemp()
out = ts(cache_root=tmp)
print(out.out)
import os
print(sorted(p for p in os.listdir(tmp) if p.startswith("workflow")))

@python.define(xor=[("a","b",None)])
def G(a: int|None=None, b: int|None=None) -> int:
    return (a or 0)+(b or 0)
try:
    print(G().split(a=[1,2])(cache_root=tmp).out)
except Exception as ex:
    print("ERR", type(ex).__name__, str(ex)[:200])
