"""Workflow records <-> real pydra workflows (C03, C17, C29).

Records are enumerated / sampled here (the space is a large product), evaluated by TLC
with the reference semantics of specs/WfState.tla (mode M2 through WfState_Eval), and
materialised as *source text* of a @workflow.define constructor whose nodes are generic
python tasks returning the symbolic term [name, x, y].
"""
import importlib.util
import itertools
import json
import os
import shutil
import sys
import tempfile
from pathlib import Path

from harness import core

INS = {"A": 2, "B": 3, "C": 2, "s": 0}


def leaf(f):
    return {"op": "f", "name": f, "kids": []}


def node_(o, ks):
    return {"op": o, "name": "", "kids": ks}


DUMMY = leaf("x")


def src(k, v=""):
    return {"k": k, "v": v}


def node_options(i, names, allow_comb_inherited=True):
    """all node records for position i (names of earlier nodes given)."""
    srcs = [src("none"), src("wf", "A"), src("wf", "B"), src("wf", "s")] + [src("node", n) for n in names]
    out = []
    for x, y in itertools.product(srcs, srcs):
        lists = [f for f, s in (("x", x), ("y", y)) if s["k"] == "wf" and INS[s["v"]] > 0]
        splits = [None] + [leaf(f) for f in lists]
        if len(lists) == 2:
            splits += [node_("*", [leaf("x"), leaf("y")]), node_("*", [leaf("y"), leaf("x")]), node_(".", [leaf("x"), leaf("y")])]
        for sp in splits:
            own = [] if sp is None else ([sp["name"]] if sp["op"] == "f" else [k["name"] for k in sp["kids"]])
            combs = [[]] + [[[f"n{i}", f]] for f in own]
            if len(own) == 2:
                combs.append([[f"n{i}", "x"], [f"n{i}", "y"]])
            for c in combs:
                out.append({"name": f"n{i}", "x": x, "y": y, "hassplit": sp is not None, "split": sp or DUMMY, "comb": c})
    return out


def enumerate_small(max_nodes=2):
    """every workflow of <= max_nodes nodes (each node output is a workflow output)."""
    wfs = []
    opts0 = node_options(0, [])
    for n0 in opts0:
        wfs.append({"ins": INS, "nodes": [n0], "outs": ["n0"]})
    if max_nodes >= 2:
        for n0 in opts0:
            if n0["x"]["k"] == "none" and n0["y"]["k"] == "none":
                continue
            for n1 in node_options(1, ["n0"]):
                if not any(s["k"] == "node" for s in (n1["x"], n1["y"])):
                    continue
                wfs.append({"ins": INS, "nodes": [n0, n1], "outs": ["n1", "n0"]})
    return wfs


def axes_of(wf):
    """axes each node exposes (own split fields + inherited, minus combined) - only used to pick
    candidate inherited combiners when sampling; the semantics is TLC's."""
    rem = {}
    for nd in wf["nodes"]:
        ax = []
        for s in (nd["x"], nd["y"]):
            if s["k"] == "node":
                ax += [a for a in rem[s["v"]] if a not in ax]
        if nd["hassplit"]:
            sp = nd["split"]
            ax += [[nd["name"], f] for f in ([sp["name"]] if sp["op"] == "f" else [k["name"] for k in sp["kids"]])]
        rem[nd["name"]] = [a for a in ax if a not in nd["comb"]]
    return rem


def sample(rng, n_nodes, inherited_comb=0.25):
    names, nodes = [], []
    for i in range(n_nodes):
        opts = node_options(i, names)
        if i > 0:
            opts = [o for o in opts if any(s["k"] == "node" for s in (o["x"], o["y"]))] if rng.random() < 0.85 else opts
        nd = dict(rng.choice(opts))
        nodes.append(nd)
        names.append(nd["name"])
        if i > 0 and rng.random() < inherited_comb:
            wf = {"ins": INS, "nodes": nodes, "outs": names}
            inh = [a for a in axes_of(wf)[nd["name"]] if a[0] != nd["name"]]
            if inh:
                nd["comb"] = nd["comb"] + [rng.choice(inh)]
    return {"ins": INS, "nodes": nodes, "outs": [names[-1]] + ([rng.choice(names[:-1])] if len(names) > 1 and rng.random() < 0.5 else [])}


def diamond_family():
    """a -> b, a -> c, (b, c) -> d with a split / combined in various places."""
    out = []
    for a_split in (leaf("x"),):
        for b_extra, c_extra in itertools.product([None, "B"], [None, "C"]):
            for d_comb in ([], [["n0", "x"]]):
                n0 = {"name": "n0", "x": src("wf", "A"), "y": src("none"), "hassplit": True, "split": a_split, "comb": []}
                n1 = {"name": "n1", "x": src("node", "n0"), "y": src("wf", b_extra) if b_extra else src("none"),
                      "hassplit": bool(b_extra), "split": leaf("y") if b_extra else DUMMY, "comb": []}
                n2 = {"name": "n2", "x": src("node", "n0"), "y": src("wf", c_extra) if c_extra else src("none"),
                      "hassplit": bool(c_extra), "split": leaf("y") if c_extra else DUMMY, "comb": []}
                n3 = {"name": "n3", "x": src("node", "n1"), "y": src("node", "n2"), "hassplit": False, "split": DUMMY, "comb": d_comb}
                out.append({"ins": INS, "nodes": [n0, n1, n2, n3], "outs": ["n3"], "family": "diamond"})
    return out


def triangle_family():
    """a -> b, (a, b) -> d in both input orders; b plain / with own split; d plain / with own split / combining."""
    out = []
    for order in (("n0", "n1"), ("n1", "n0")):
        for b_extra in (None, "B"):
            for d_extra in (None, "C"):
                for a_split in (leaf("x"), node_("*", [leaf("x"), leaf("y")])):
                    two = a_split["op"] != "f"
                    n0 = {"name": "n0", "x": src("wf", "A"), "y": src("wf", "B") if two else src("none"), "hassplit": True,
                          "split": a_split, "comb": []}
                    n1 = {"name": "n1", "x": src("node", "n0"), "y": src("wf", b_extra) if b_extra else src("none"),
                          "hassplit": bool(b_extra), "split": leaf("y") if b_extra else DUMMY, "comb": []}
                    if d_extra:
                        continue_ = False
                    n2 = {"name": "n2", "x": src("node", order[0]), "y": src("node", order[1]), "hassplit": False, "split": DUMMY, "comb": []}
                    nodes = [n0, n1, n2]
                    if d_extra:
                        nodes.append({"name": "n3", "x": src("node", "n2"), "y": src("wf", d_extra), "hassplit": True,
                                      "split": leaf("y"), "comb": []})
                    out.append({"ins": INS, "nodes": nodes, "outs": [nodes[-1]["name"]], "family": "triangle"})
    return out


# ---------------- TLC evaluation ----------------
def tlc_expected(ctx, wfs, tag="wf"):
    f = ctx.scratch / f"{tag}_cases.ndjson"
    with open(f, "w") as fh:
        for i, w in enumerate(wfs, 1):
            fh.write(json.dumps({"tid": i, "ins": w["ins"], "nodes": w["nodes"], "outs": w["outs"]}) + "\n")
    r = ctx.tlc("WfState_Eval", cfg="WfState_Eval.cfg", workers=1, env={"TRACE_FILE": str(f)}, timeout=3000)
    res = {rec["tid"]: rec["res"] for rec in r.printed()}
    if len(res) != len(wfs):
        raise core.MachineryError(f"WfState_Eval answered {len(res)} of {len(wfs)} cases")
    return [res[i] for i in range(1, len(wfs) + 1)]


def conv(t):
    k = t["t"]
    if k == "none":
        return None
    if k == "elem":
        return f"{t['inp']}{t['i']}"
    if k == "scalar":
        return "S_" + t["inp"]
    if k == "list":
        return [conv(x) for x in t["v"]]
    return [t["n"], conv(t["x"]), conv(t["y"])]


# ---------------- materialisation ----------------
def to_spl(t):
    if t["op"] == "f":
        return t["name"]
    kids = [to_spl(k) for k in t["kids"]]
    return kids if t["op"] == "*" else tuple(kids)


def wf_source(wf, spelling="bare"):
    L = ["import typing as ty", "from pydra.compose import python, workflow", "",
         "@python.define", "def N(name: str, x: ty.Any = None, y: ty.Any = None) -> ty.Any:",
         "    import os, time, zlib",
         "    seed = os.environ.get('VERIF_DELAY_SEED')",
         "    if seed:",
         "        time.sleep((zlib.crc32(repr((seed, name, x, y)).encode()) % 40) / 1000.0)",
         "    return [name, x, y]", "",
         "@workflow.define(outputs=[%s])" % ", ".join(repr("o_" + n) for n in wf["outs"]),
         "def GenWf(%s):" % ", ".join(f"{k}: ty.Any" for k in wf["ins"])]
    for nd in wf["nodes"]:
        own = [] if not nd["hassplit"] else ([nd["split"]["name"]] if nd["split"]["op"] == "f" else [k["name"] for k in nd["split"]["kids"]])
        args, sargs = [f"name={nd['name']!r}"], []
        for f in ("x", "y"):
            s = nd[f]
            if s["k"] == "none":
                continue
            v = s["v"] if s["k"] == "wf" else f"{s['v']}.out"
            (sargs if f in own else args).append(f"{f}={v}")
        t = f"N({', '.join(args)})"
        if nd["hassplit"]:
            if spelling == "kw" and nd["split"]["op"] == "f":
                t += f".split({', '.join(sargs)})"
            else:
                t += f".split({to_spl(nd['split'])!r}, {', '.join(sargs)})"
        if nd["comb"]:
            cn = [a[1] if a[0] == nd["name"] else f"{a[0]}.{a[1]}" for a in nd["comb"]]
            t += f".combine({cn!r})"
        L.append(f"    {nd['name']} = workflow.add({t}, name={nd['name']!r})")
    L.append("    return " + ", ".join(f"{n}.out" for n in wf["outs"]))
    return "\n".join(L) + "\n"


INPUT_VALUES = {k: ([f"{k}{i}" for i in range(n)] if n else "S_" + k) for k, n in INS.items()}


def plain(x):
    if isinstance(x, (list, tuple)):
        return [plain(i) for i in x]
    return x


def run_wf(wf, worker="debug", spelling="bare", n_procs=None, max_concurrent=None):
    """build from source text and run; returns {"err": ...} or {"outs": [...], "njobs": {...}}"""
    from pydra.engine.workflow import Workflow

    base = tempfile.mkdtemp(prefix="verif_wf_")
    try:
        srcx = wf_source(wf, spelling)
        p = Path(base) / f"genwf_{abs(hash(srcx)) % 10**9}.py"
        p.write_text(srcx)
        try:
            Workflow.clear_cache()
        except Exception:
            pass
        spec = importlib.util.spec_from_file_location(p.stem, p)
        mod = importlib.util.module_from_spec(spec)
        sys.modules[p.stem] = mod
        try:
            spec.loader.exec_module(mod)
            kw = {}
            if worker == "cf" and n_procs:
                kw["n_procs"] = n_procs
            if max_concurrent:
                kw["max_concurrent"] = max_concurrent
            cache = os.path.join(base, "cache")
            outs = mod.GenWf(**INPUT_VALUES)(cache_root=cache, worker=worker, **kw)
            res = {"err": None, "outs": [plain(getattr(outs, "o_" + n)) for n in wf["outs"]]}
            res["njobs"] = {nd["name"]: 0 for nd in wf["nodes"]}
            return res
        except Exception as e:  # noqa
            return {"err": f"{type(e).__name__}: {str(e)[:160]}"}
        finally:
            sys.modules.pop(p.stem, None)
    finally:
        shutil.rmtree(base, ignore_errors=True)
