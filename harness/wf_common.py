"""Workflow records <-> real pydra workflows (C03, C17, C29).

Records are enumerated / sampled here (the space is a large product), evaluated by TLC
with the reference semantics of specs/WfState.tla (mode M2 through WfState_Eval), and
materialised as *source text* of a @workflow.define constructor whose nodes are generic
python tasks returning the symbolic term [name, x, y].
"""
import importlib.util
import itertools
import json
import os
import shutil
import sys
import tempfile
from pathlib import Path

from harness import core

INS = {"A": 2, "B": 3, "C": 2, "s": 0}


def leaf(f):
    return {"op": "f", "name": f, "kids": []}


def node_(o, ks):
    return {"op": o, "name": "", "kids": ks}


DUMMY = leaf("x")


def src(k, v=""):
    return {"k": k, "v": v}


def node_options(i, names, allow_comb_inherited=True):
    """all node records for position i (names of earlier nodes given)."""
    srcs = [src("none"), src("wf", "A"), src("wf", "B"), src("wf", "s")] + [src("node", n) for n in names]
    out = []
    for x, y in itertools.product(srcs, srcs):
        lists = [f for f, s in (("x", x), ("y", y)) if s["k"] == "wf" and INS[s["v"]] > 0]
        splits = [None] + [leaf(f) for f in lists]
        if len(lists) == 2:
            splits += [node_("*", [leaf("x"), leaf("y")]), node_("*", [leaf("y"), leaf("x")]), node_(".", [leaf("x"), leaf("y")])]
        for sp in splits:
            own = [] if sp is None else ([sp["name"]] if sp["op"] == "f" else [k["name"] for k in sp["kids"]])
            combs = [[]] + [[[f"n{i}", f]] for f in own]
            if len(own) == 2:
                combs.append([[f"n{i}", "x"], [f"n{i}", "y"]])
            for c in combs:
                out.append({"name": f"n{i}", "x": x, "y": y, "hassplit": sp is not None, "split": sp or DUMMY, "comb": c})
    return out


def enumerate_small(max_nodes=2):
    """every workflow of <= max_nodes nodes (each node output is a workflow output)."""
    wfs = []
    opts0 = node_options(0, [])
    for n0 in opts0:
        wfs.append({"ins": INS, "nodes": [n0], "outs": ["n0"]})
    if max_nodes >= 2:
        for n0 in opts0:
            if n0["x"]["k"] == "none" and n0["y"]["k"] == "none":
                continue
            for n1 in node_options(1, ["n0"]):
                if not any(s["k"] == "node" for s in (n1["x"], n1["y"])):
                    continue
                wfs.append({"ins": INS, "nodes": [n0, n1], "outs": ["n1", "n0"]})
    return wfs


def axes_of(wf):
    """axes each node exposes (own split fields + inherited, minus combined) - only used to pick
    candidate inherited combiners when sampling; the semantics is TLC's."""
    rem = {}
    for nd in wf["nodes"]:
        ax = []
        for s in (nd["x"], nd["y"]):
            if s["k"] == "node":
                ax += [a for a in rem[s["v"]] if a not in ax]
        if nd["hassplit"]:
            sp = nd["split"]
            ax += [[nd["name"], f] for f in ([sp["name"]] if sp["op"] == "f" else [k["name"] for k in sp["kids"]])]
        rem[nd["name"]] = [a for a in ax if a not in nd["comb"]]
    return rem


def sample(rng, n_nodes, inherited_comb=0.25):
    names, nodes = [], []
    for i in range(n_nodes):
        opts = node_options(i, names)
        if i > 0:
            opts = [o for o in opts if any(s["k"] == "node" for s in (o["x"], o["y"]))] if rng.random() < 0.85 else opts
        nd = dict(rng.choice(opts))
        nodes.append(nd)
        names.append(nd["name"])
        if i > 0 and rng.random() < inherited_comb:
            wf = {"ins": INS, "nodes": nodes, "outs": names}
            inh = [a for a in axes_of(wf)[nd["name"]] if a[0] != nd["name"]]
            if inh:
                nd["comb"] = nd["comb"] + [rng.choice(inh)]
    return {"ins": INS, "nodes": nodes, "outs": [names[-1]] + ([rng.choice(names[:-1])] if len(names) > 1 and rng.random() < 0.5 else [])}


def diamond_family():
    """a -> b, a -> c, (b, c) -> d with a split / combined in various places."""
    out = []
    for a_split in (leaf("x"),):
        for b_extra, c_extra in itertools.product([None, "B"], [None, "C"]):
            for d_comb in ([], [["n0", "x"]]):
                n0 = {"name": "n0", "x": src("wf", "A"), "y": src("none"), "hassplit": True, "split": a_split, "comb": []}
                n1 = {"name": "n1", "x": src("node", "n0"), "y": src("wf", b_extra) if b_extra else src("none"),
                      "hassplit": bool(b_extra), "split": leaf("y") if b_extra else DUMMY, "comb": []}
                n2 = {"name": "n2", "x": src("node", "n0"), "y": src("wf", c_extra) if c_extra else src("none"),
                      "hassplit": bool(c_extra), "split": leaf("y") if c_extra else DUMMY, "comb": []}
                n3 = {"name": "n3", "x": src("node", "n1"), "y": src("node", "n2"), "hassplit": False, "split": DUMMY, "comb": d_comb}
                out.append({"ins": INS, "nodes": [n0, n1, n2, n3], "outs": ["n3"], "family": "diamond"})
    return out


def triangle_family():
    """a -> b, (a, b) -> d in both input orders; b plain / with own split; d plain / with own split / combining."""
    out = []
    for order in (("n0", "n1"), ("n1", "n0")):
        for b_extra in (None, "B"):
            for d_extra in (None, "C"):
                for a_split in (leaf("x"), node_("*", [leaf("x"), leaf("y")])):
                    two = a_split["op"] != "f"
                    n0 = {"name": "n0", "x": src("wf", "A"), "y": src("wf", "B") if two else src("none"), "hassplit": True,
                          "split": a_split, "comb": []}
                    n1 = {"name": "n1", "x": src("node", "n0"), "y": src("wf", b_extra) if b_extra else src("none"),
                          "hassplit": bool(b_extra), "split": leaf("y") if b_extra else DUMMY, "comb": []}
                    if d_extra:
                        continue_ = False
                    n2 = {"name": "n2", "x": src("node", order[0]), "y": src("node", order[1]), "hassplit": False, "split": DUMMY, "comb": []}
                    nodes = [n0, n1, n2]
                    if d_extra:
                        nodes.append({"name": "n3", "x": src("node", "n2"), "y": src("wf", d_extra), "hassplit": True,
                                      "split": leaf("y"), "comb": []})
                    out.append({"ins": INS, "nodes": nodes, "outs": [nodes[-1]["name"]], "family": "triangle"})
    return out


def upsplit_sample(rng, n_nodes):
    """a sampled workflow whose nodes may split over UPSTREAM OUTPUTS and may be list-makers (possibly of
    the empty list): WfState!AsList / MkOf.  Own split fields range over list inputs and node sources."""
    names, nodes = [], []
    for i in range(n_nodes):
        nm = f"n{i}"
        mk = rng.choice([0, 1, 2, 2]) if rng.random() < (0.45 if i < n_nodes - 1 else 0.15) else -1
        srcs = [src("wf", "A"), src("wf", "B"), src("wf", "s")] + [src("node", n) for n in names] * 3
        x = rng.choice(srcs + [src("none")]) if names == [] or rng.random() < 0.2 else rng.choice([src("node", n) for n in names])
        y = src("none") if mk >= 0 or rng.random() < 0.45 else rng.choice(srcs)
        cand = [f for f, s_ in (("x", x), ("y", y)) if (s_["k"] == "wf" and INS[s_["v"]] > 0) or s_["k"] == "node"]
        splits = [None] + [leaf(f) for f in cand] * 2
        if len(cand) == 2:
            splits += [node_("*", [leaf("x"), leaf("y")]), node_("*", [leaf("y"), leaf("x")]), node_(".", [leaf("x"), leaf("y")])]
        sp = rng.choice(splits)
        own = [] if sp is None else ([sp["name"]] if sp["op"] == "f" else [k["name"] for k in sp["kids"]])
        combs = [[]] + [[[nm, f]] for f in own] * 2
        if len(own) == 2:
            combs.append([[nm, "x"], [nm, "y"]])
        nd = {"name": nm, "x": x, "y": y, "hassplit": sp is not None, "split": sp or DUMMY, "comb": rng.choice(combs), "mk": mk}
        nodes.append(nd)
        names.append(nm)
        if i > 0 and rng.random() < 0.15:
            inh = [a for a in axes_of({"nodes": nodes})[nm] if a[0] != nm]
            if inh:
                nd["comb"] = nd["comb"] + [rng.choice(inh)]
    return {"ins": INS, "nodes": nodes, "outs": list(names)}


def three_input_family():
    """a node with THREE inputs, two or three of which carry one originating split (a.out twice, directly and through
    a plain node), in every assignment to x, y, z; plus an independent third input"""
    import itertools as it
    out = []
    for a_split in (leaf("x"), node_("*", [leaf("x"), leaf("y")])):
        two = a_split["op"] != "f"
        n0 = {"name": "n0", "x": src("wf", "A"), "y": src("wf", "B") if two else src("none"), "hassplit": True, "split": a_split, "comb": []}
        n1 = {"name": "n1", "x": src("node", "n0"), "y": src("none"), "hassplit": False, "split": DUMMY, "comb": []}
        for trio in sorted(set(it.permutations(["n0", "n0", "n1"]))) + [("n0", "n1", "wfB"), ("n1", "wfs", "n0")]:
            s3 = [src("wf", t[2:]) if t.startswith("wf") else src("node", t) for t in trio]
            n2 = {"name": "n2", "x": s3[0], "y": s3[1], "z": s3[2], "hassplit": False, "split": DUMMY, "comb": []}
            out.append({"ins": INS, "nodes": [n0, n1, n2], "outs": ["n0", "n1", "n2"], "family": "three-input"})
    return out


def empty_split_family():
    """p -> e (split over p.out, combined) -> d, with an independent branch q: the list p returns has 0, 1 or 2
    elements; e has as many jobs (possibly none) and d always runs once."""
    out = []
    for k in (0, 1, 2):
        for comb in ([["n1", "x"]], []):
            n0 = {"name": "n0", "x": src("wf", "s"), "y": src("none"), "hassplit": False, "split": DUMMY, "comb": [], "mk": k}
            n1 = {"name": "n1", "x": src("node", "n0"), "y": src("none"), "hassplit": True, "split": leaf("x"), "comb": comb, "mk": -1}
            n2 = {"name": "n2", "x": src("node", "n1"), "y": src("none"), "hassplit": False, "split": DUMMY, "comb": [], "mk": -1}
            n3 = {"name": "n3", "x": src("wf", "s"), "y": src("wf", "A"), "hassplit": False, "split": DUMMY, "comb": [], "mk": -1}
            out.append({"ins": INS, "nodes": [n0, n1, n2, n3], "outs": ["n0", "n1", "n2", "n3"], "family": "empty-split"})
            out.append({"ins": INS, "nodes": [n3, dict(n0)] + [n1, n2], "outs": ["n3", "n0", "n1", "n2"], "family": "empty-split"})
    return out


INNER_KINDS = ("chain1", "chain2", "split", "splitc")


def nested_sample(rng, n_nodes):
    """a sampled workflow in which one or more nodes are nested workflows (WfState!JobTerm)."""
    wf = sample(rng, n_nodes, inherited_comb=0.15)
    own = lambda nd: [] if not nd["hassplit"] else ([nd["split"]["name"]] if nd["split"]["op"] == "f" else [k["name"] for k in nd["split"]["kids"]])  # noqa
    picked = False
    for nd in wf["nodes"]:
        if rng.random() < 0.5 or (not picked and nd is wf["nodes"][-1]):
            kinds = ["chain1", "chain2"]
            # an inner split needs a list-valued x: a whole list input or an upstream (combined) node output
            if nd["x"]["k"] != "none" and "x" not in own(nd) and not (nd["x"]["k"] == "wf" and INS[nd["x"]["v"]] == 0):
                kinds += ["split", "splitc", "split", "splitc"]
            nd["inner"] = rng.choice(kinds)
            picked = True
    return wf


def inner_source(nd):
    nm, k = nd["name"], nd["inner"]
    L = ["@workflow.define(outputs=['out'])", f"def Inner_{nm}(x: ty.Any = None, y: ty.Any = None) -> ty.Any:"]
    if k == "chain1":
        L += [f"    m0 = workflow.add(N(name='{nm}_i0', x=x, y=y), name='m0')", "    return m0.out"]
    elif k == "chain2":
        L += [f"    m0 = workflow.add(N(name='{nm}_i0', x=x, y=y), name='m0')",
              f"    m1 = workflow.add(N(name='{nm}_i1', x=m0.out), name='m1')", "    return m1.out"]
    else:
        comb = ".combine('x')" if k == "splitc" else ""
        L += [f"    m0 = workflow.add(N(name='{nm}_i0', y=y).split('x', x=x){comb}, name='m0')", "    return m0.out"]
    return L + [""]


# ---------------- TLC evaluation ----------------
def tlc_expected(ctx, wfs, tag="wf"):
    f = ctx.scratch / f"{tag}_cases.ndjson"
    with open(f, "w") as fh:
        for i, w in enumerate(wfs, 1):
            nodes = [{**nd, "inner": nd.get("inner", "none"), "mk": nd.get("mk", -1), "z": nd.get("z", src("none"))}
                     for nd in w["nodes"]]
            fh.write(json.dumps({"tid": i, "ins": w["ins"], "nodes": nodes, "outs": w["outs"]}) + "\n")
    r = ctx.tlc("WfState_Eval", cfg="WfState_Eval.cfg", workers=1, env={"TRACE_FILE": str(f)}, timeout=3000)
    res = {rec["tid"]: rec["res"] for rec in r.printed()}
    if len(res) != len(wfs):
        raise core.MachineryError(f"WfState_Eval answered {len(res)} of {len(wfs)} cases")
    return [res[i] for i in range(1, len(wfs) + 1)]


def conv(t):
    k = t["t"]
    if k == "none":
        return None
    if k == "elem":
        return f"{t['inp']}{t['i']}"
    if k == "scalar":
        return "S_" + t["inp"]
    if k == "list":
        return [conv(x) for x in t["v"]]
    if k == "term4":
        return [t["n"], conv(t["x"]), conv(t["y"]), conv(t["z"])]
    if k == "str":
        return t["s"]
    if k == "int":
        return t["i"]
    return [t["n"], conv(t["x"]), conv(t["y"])]


# ---------------- materialisation ----------------
def to_spl(t):
    if t["op"] == "f":
        return t["name"]
    kids = [to_spl(k) for k in t["kids"]]
    return kids if t["op"] == "*" else tuple(kids)


def wf_source(wf, spelling="bare"):
    L = ["import typing as ty", "from pydra.compose import python, workflow", "",
         "@python.define", "def N(name: str, x: ty.Any = None, y: ty.Any = None, z: ty.Any = None) -> ty.Any:",
         "    import os, time, zlib",
         "    seed = os.environ.get('VERIF_DELAY_SEED')",
         "    if seed:",
         "        time.sleep((zlib.crc32(repr((seed, name, x, y)).encode()) % 40) / 1000.0)",
         "    return [name, x, y] if z is None else [name, x, y, z]", "",
         "@python.define", "def M(name: str, k: int, x: ty.Any = None) -> ty.Any:",
         "    import os, time, zlib",
         "    seed = os.environ.get('VERIF_DELAY_SEED')",
         "    if seed:",
         "        time.sleep((zlib.crc32(repr((seed, name, k, x)).encode()) % 40) / 1000.0)",
         "    return [[name, i, x] for i in range(k)]", "",
         ]
    for nd in wf["nodes"]:
        if nd.get("inner", "none") != "none":
            L += inner_source(nd)
    L += ["@workflow.define(outputs=[%s])" % ", ".join(repr("o_" + n) for n in wf["outs"]),
          "def GenWf(%s):" % ", ".join(f"{k}: ty.Any" for k in wf["ins"])]
    for nd in wf["nodes"]:
        own = [] if not nd["hassplit"] else ([nd["split"]["name"]] if nd["split"]["op"] == "f" else [k["name"] for k in nd["split"]["kids"]])
        nested = nd.get("inner", "none") != "none"
        args, sargs = ([] if nested else [f"name={nd['name']!r}"]), []
        for f in ("x", "y", "z"):
            s = nd.get(f, {"k": "none"})
            if s["k"] == "none":
                continue
            v = s["v"] if s["k"] == "wf" else f"{s['v']}.out"
            (sargs if f in own else args).append(f"{f}={v}")
        if nd.get("mk", -1) >= 0:
            args.insert(1, f"k={nd['mk']}")
        t = f"{'Inner_' + nd['name'] if nested else ('M' if nd.get('mk', -1) >= 0 else 'N')}({', '.join(args)})"
        if nd["hassplit"]:
            if spelling == "kw" and nd["split"]["op"] == "f":
                t += f".split({', '.join(sargs)})"
            else:
                t += f".split({to_spl(nd['split'])!r}, {', '.join(sargs)})"
        if nd["comb"]:
            cn = [a[1] if a[0] == nd["name"] else f"{a[0]}.{a[1]}" for a in nd["comb"]]
            t += f".combine({cn!r})"
        L.append(f"    {nd['name']} = workflow.add({t}, name={nd['name']!r})")
    L.append("    return " + ", ".join(f"{n}.out" for n in wf["outs"]))
    return "\n".join(L) + "\n"


INPUT_VALUES = {k: ([f"{k}{i}" for i in range(n)] if n else "S_" + k) for k, n in INS.items()}


def plain(x):
    if isinstance(x, (list, tuple)):
        return [plain(i) for i in x]
    return x


def run_wf(wf, worker="debug", spelling="bare", n_procs=None, max_concurrent=None):
    """build from source text and run; returns {"err": ...} or {"outs": [...], "njobs": {...}}"""
    from pydra.engine.workflow import Workflow

    base = tempfile.mkdtemp(prefix="verif_wf_")
    try:
        srcx = wf_source(wf, spelling)
        p = Path(base) / f"genwf_{abs(hash(srcx)) % 10**9}.py"
        p.write_text(srcx)
        try:
            Workflow.clear_cache()
        except Exception:
            pass
        spec = importlib.util.spec_from_file_location(p.stem, p)
        mod = importlib.util.module_from_spec(spec)
        sys.modules[p.stem] = mod
        try:
            spec.loader.exec_module(mod)
            kw = {}
            if worker == "cf" and n_procs:
                kw["n_procs"] = n_procs
            if max_concurrent:
                kw["max_concurrent"] = max_concurrent
            cache = os.path.join(base, "cache")
            outs = mod.GenWf(**INPUT_VALUES)(cache_root=cache, worker=worker, **kw)
            res = {"err": None, "outs": [plain(getattr(outs, "o_" + n)) for n in wf["outs"]]}
            res["njobs"] = {nd["name"]: 0 for nd in wf["nodes"]}
            return res
        except Exception as e:  # noqa
            return {"err": f"{type(e).__name__}: {str(e)[:160]}"}
        finally:
            sys.modules.pop(p.stem, None)
    finally:
        shutil.rmtree(base, ignore_errors=True)
