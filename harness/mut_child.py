"""Child interpreter for C19: one (input kind, mutates?, worker) case."""
import json
import os
import sys
import tempfile
import typing as ty
from pathlib import Path

import numpy as np
from fileformats.generic import File
from pydra.compose import python


class Box:
    def __init__(self, items):
        self.items = items

    def __eq__(self, o):
        return isinstance(o, Box) and o.items == self.items


@python.define
def TList(x: list, m: bool) -> int:
    if m:
        x.append(99)
    return len(x)


@python.define
def TDict(x: dict, m: bool) -> int:
    if m:
        x["new"] = 1
    return len(x)


@python.define
def TSet(x: set, m: bool) -> int:
    if m:
        x.add(99)
    return len(x)


@python.define
def TObj(x: ty.Any, m: bool) -> int:
    if m:
        x.items.append(99)
    return len(x.items)


@python.define
def TNested(x: ty.Any, m: bool) -> int:
    inner = x[0] if isinstance(x, tuple) else x["k"]
    if m:
        if isinstance(inner, list):
            inner.append(99)
        elif isinstance(inner, dict):
            inner["new"] = 1
        else:
            inner[0] = 42
    return 1


@python.define
def TArr(x: np.ndarray, m: bool) -> float:
    if m:
        x[0] = 42
    return float(x.sum())


@python.define
def TShape(x: np.ndarray, m: bool) -> int:
    if m:
        x.shape = (x.size,)
    return int(x.size)


@python.define
def TFileAny(f: File, m: bool) -> str:
    if m:
        Path(f).write_text("changed")
    return Path(f).read_text()


@python.define(inputs={"f": python.arg(type=File, copy_mode=File.CopyMode.copy), "m": bool})
def TFileCopy(f, m) -> str:
    if m:
        Path(f).write_text("changed")
    return Path(f).read_text()


if __name__ == "__main__":
    kind, worker, mutates = sys.argv[1], sys.argv[2], sys.argv[3] == "1"
    tmp = tempfile.mkdtemp()
    fpath = Path(tmp) / "in.txt"
    fpath.write_text("orig")
    mk = {"list": lambda: [1, 2], "dict": lambda: {"a": 1}, "set": lambda: {1, 2}, "object": lambda: Box([1]),
          "array": lambda: np.zeros(3), "array-shape": lambda: np.zeros((2, 3)),
          "tuple-list": lambda: ([1, 2], "z"), "tuple-dict": lambda: ({"a": 1}, "z"), "tuple-array": lambda: (np.zeros(3), "z"),
          "dict-list": lambda: {"k": [1, 2]}}
    if kind.startswith("file"):
        val = File(fpath)
        task = (TFileAny if kind == "file-any" else TFileCopy)(f=val, m=mutates)
        before = "orig"
    else:
        val = mk[kind]()
        before = repr(val) if kind != "object" else repr(val.items)
        if kind.startswith("array"):
            before = (val.shape, val.tolist())
        task = {"list": TList, "dict": TDict, "set": TSet, "object": TObj, "array": TArr, "array-shape": TShape,
                "tuple-list": TNested, "tuple-dict": TNested, "tuple-array": TNested, "dict-list": TNested}[kind](x=val, m=mutates)
    pre = task._checksum
    cache = os.path.join(tmp, "cache")
    out = {"pre": pre}
    try:
        kw = {"n_procs": 2} if worker == "cf" else {}
        r = task(cache_root=cache, worker=worker, **kw)
        out["status"] = "ok"
    except BaseException as e:  # noqa
        out["status"] = "raised"
        out["error"] = f"{type(e).__name__}: {str(e)[:400]}"
    if kind.startswith("file"):
        after = fpath.read_text()
    elif kind.startswith("array"):
        after = (val.shape, val.tolist())
    else:
        after = repr(val) if kind != "object" else repr(val.items)
    out["caller_changed"] = after != before
    out["dirs"] = sorted(d for d in os.listdir(cache) if d.startswith("python-") and os.path.isdir(os.path.join(cache, d))) if os.path.isdir(cache) else []
    json.dump(out, open(sys.argv[4], "w"), default=str)
