"""Child interpreter for C36: run one task of the pool with auditing and a FileMessenger."""
import glob
import json
import os
import sys

if __name__ == "__main__":
    base, kind, flag, worker = sys.argv[1:5]
    default_dir = len(sys.argv) > 5 and sys.argv[5] == "default-dir"
    os.environ.update({"VERIF_LOG": os.path.join(base, "events.ndjson"), "VERIF_PROC": "p1", "VERIF_SIDE": os.path.join(base, "side")})
    os.makedirs(os.path.join(base, "side"), exist_ok=True)
    from harness import job_common as jc
    from pydra.utils.messenger import AuditFlag, FileMessenger
    from pydra.compose import shell

    mode = {"py_ok": "ok", "py_raise": "raise", "wf_ok": "ok", "wf_fail": "raise", "sh_ok": "ok", "sh_fail": "ok"}[kind]
    open(os.path.join(base, "side", "mode"), "w").write(mode)
    if kind.startswith("py"):
        task = jc.Work(x=1)
    elif kind.startswith("wf"):
        task = jc.Wf1(x=1)
    else:
        task = shell.define("true" if kind == "sh_ok" else "false")()
    md = os.path.join(base, "msgs")
    out = {}
    try:
        kw = {"n_procs": 2} if worker == "cf" else {}
        margs = {} if default_dir else {"messenger_args": {"message_dir": md}}
        os.makedirs(os.path.join(base, "launch"), exist_ok=True)
        os.chdir(os.path.join(base, "launch"))
        task(cache_root=os.path.join(base, "cache"), worker=worker, audit_flags=getattr(AuditFlag, flag),
             messengers=FileMessenger(), **margs, **kw)
        out["status"] = "ok"
    except BaseException as e:  # noqa
        out["status"] = "raised"
        out["error"] = f"{type(e).__name__}: {str(e)[:200]}"
    msgs = []
    files = sorted(glob.glob(md + "/*.jsonld"))
    if default_dir:
        files = sorted(glob.glob(os.path.join(base, "**", "messages", "*.jsonld"), recursive=True))
    for f in files:
        m = json.load(open(f))
        for d in (m if isinstance(m, list) else [m]):
            if isinstance(d, dict) and "@id" in d and ("startedAtTime" in d or "endedAtTime" in d) and d.get("@type") != "monitor" and "wasEndedBy" not in d:
                msgs.append({"id": d["@id"], "kind": "start" if "startedAtTime" in d else "end", "errored": d.get("errored"),
                             "dir": os.path.relpath(os.path.dirname(f), base)})
    out["msgs"] = msgs
    json.dump(out, open(os.path.join(base, "out.json"), "w"))
