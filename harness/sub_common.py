"""Driving a real Submitter along Submitter.tla schedules with token-gated job bodies.

A graph record (nodes, preds, njobs) from TLC is turned into the *source text* of a
workflow whose nodes are gate tasks; the workflow is run by a real Submitter (worker
"cf" or "debug") in a forked child; the controller in the parent releases / fails the
bodies in the completion order of the TLC behaviour.  The body log (S/E events), the
scan/launch hook events and the final outcome form the trace validated by TLC
(Submitter_Trace, mode M4).
"""
import importlib.util
import json
import os
import re
import shutil
import signal
import subprocess
import sys
import tempfile
import time
from pathlib import Path

from harness import core, handler
from harness import job_common as jc   # noqa: F401  (asserts hooks are enabled)


def wf_source(graph):
    """python source of a workflow realising `graph` (distinct text per graph)."""
    lines = ["import typing as ty", "from pydra.compose import python, workflow", "from harness.sub_body import gate", "",
             "@python.define", "def Gate(name: str, i: int, d1: ty.Any = None, d2: ty.Any = None, d3: ty.Any = None) -> int:", "    return gate(name, i)", "",
             "@workflow.define(outputs=[%s])" % ", ".join(repr(f"o_{n}") for n in graph["nodes"]),
             "def GWF(tag: str):"]
    for n in graph["nodes"]:
        preds = graph["preds"][n]
        deps = "".join(f", d{k+1}={p}.out" for k, p in enumerate(preds))
        k = graph["njobs"][n]
        if k == 0:      # a node without jobs: split over the empty list
            lines.append(f"    {n} = workflow.add(Gate(name={n!r}{deps}).split(i=[]).combine('i'), name={n!r})")
        elif k == 1:
            lines.append(f"    {n} = workflow.add(Gate(name={n!r}, i=1{deps}), name={n!r})")
        else:
            lines.append(f"    {n} = workflow.add(Gate(name={n!r}{deps}).split(i={list(range(1, k + 1))}).combine('i'), name={n!r})")
    lines.append("    return " + ", ".join(f"{n}.out" for n in graph["nodes"]))
    return "\n".join(lines) + "\n"


def load_wf(graph, base):
    src = wf_source(graph)
    name = "gwf_" + re.sub(r"\W", "_", graph.get("name", "g")) + f"_{abs(hash(src)) % 10**8}"
    path = Path(base) / f"{name}.py"
    path.write_text(src)
    spec = importlib.util.spec_from_file_location(name, path)
    mod = importlib.util.module_from_spec(spec)
    sys.modules[name] = mod
    spec.loader.exec_module(mod)
    return mod


def _child(graph, K, worker, base, outfile, late=None):
    try:
        os.environ.update({"VERIF_CTL": str(Path(base) / "ctl"), "VERIF_LOG": str(Path(base) / "events.ndjson"),
                           "VERIF_PROC": "main"})
        for k in ("VERIF_CRASH_AT", "VERIF_RAISE_AT", "VERIF_GATE_DIR", "VERIF_SLEEP_AT", "VERIF_FAULT_JOB"):
            os.environ.pop(k, None)
        if late:
            # the jobs of node `late` save their result and then linger before returning: their futures
            # complete late (Submitter!WorkerReturn after other jobs' completions have triggered scans)
            os.environ.update({"VERIF_SLEEP_AT": "cwd_restored:5.0", "VERIF_FAULT_JOB": late})
        handler._fd = None
        sys.path.insert(0, str(base))
        from pydra.engine.submitter import Submitter

        mod = load_wf(graph, base)
        out = {}
        try:
            kw = {"n_procs": 8} if worker == "cf" else {}
            if K:
                kw["max_concurrent"] = K
            with Submitter(cache_root=str(Path(base) / "cache"), worker=worker, **kw) as sub:
                res = sub(mod.GWF(tag=str(base)), raise_errors=False)
            out["errored"] = bool(res.errored)
            if res.errored:
                errs = res.errors or {}
                out["error"] = "\n".join(errs.get("error message", [])) if isinstance(errs, dict) else str(errs)
            else:
                out["outputs"] = {n: getattr(res.outputs, f"o_{n}") for n in graph["nodes"]}
        except BaseException as e:  # noqa
            out["errored"] = True
            out["exception"] = f"{type(e).__name__}: {str(e)[:3000]}"
            out["error"] = out["exception"]
        json.dump(out, open(outfile, "w"), default=str)
    finally:
        os._exit(0)


def lab(j):
    return f"{j[0]}{j[1]}"


def run_schedule(spec):
    """spec: {graph, K, fails: [[n,i]], order: [[n,i]...], worker}.  Returns observation."""
    graph, K, worker = spec["graph"], spec.get("K", 0), spec.get("worker", "cf")
    fails = {lab(j) for j in spec.get("fails", [])}
    base = tempfile.mkdtemp(prefix="verif_sub_")
    ctl = Path(base) / "ctl"
    ctl.mkdir()
    (ctl / "body.log").touch()
    (Path(base) / "events.ndjson").touch()
    outfile = Path(base) / "out.json"
    timeout = spec.get("timeout", 90)
    t_end = time.time() + timeout
    json.dump({"graph": graph, "K": K, "worker": worker, "late": spec.get("late")}, open(Path(base) / "spec.json", "w"))
    proc = subprocess.Popen([core.PY, "-m", "harness.sub_child", str(base)], env=core.child_env(hooks=True),
                            stdout=subprocess.DEVNULL, stderr=open(Path(base) / "child.err", "w"))
    pid = proc.pid
    problem = None
    try:
        def body_lines():
            return (ctl / "body.log").read_text().splitlines()

        def n_scans():
            return sum(1 for l in open(Path(base) / "events.ndjson") if '"a": "scan"' in l)

        def child_done():
            return proc.poll() is not None

        def launched_labels():
            labs = set()
            for l in open(Path(base) / "events.ndjson"):
                if '"a": "launch"' in l:
                    try:
                        e = json.loads(l)
                    except ValueError:
                        continue
                    if e.get("job") not in (None, "main") and e.get("si") is not None:
                        labs.add(f"{e['job']}{e['si']}")
            return labs

        def settle(limit=2.5):
            """let every job the loop has launched so far start its (held) body, so that the jobs in flight at this
            point of the schedule are all visible in the body log (the worst case the specification quantifies over)"""
            t_stop = min(time.time() + limit, t_end)
            stable_since, last = time.time(), None
            while time.time() < t_stop and not child_done():
                labs = launched_labels()
                started = {l.split()[1] for l in body_lines() if l.startswith("S ")}
                if labs != last:
                    last, stable_since = labs, time.time()
                if labs <= started and time.time() - stable_since > 0.08:
                    return
                time.sleep(0.004)

        finished = False
        for j in spec["order"]:
            L = lab(j)
            if worker == "cf":
                settle()
            # wait for the body to start (the behaviour says it does)
            while not any(l.split()[:2] == ["S", L] for l in body_lines()):
                if finished or child_done():
                    finished = True
                    break
                if time.time() > t_end:
                    problem = {"what": "job body never started", "job": L}
                    break
                time.sleep(0.003)
            if finished or problem:
                break
            scans0 = n_scans()
            (ctl / (L + (".fail" if L in fails else ".go"))).touch()
            while not any(l.split()[:2] == ["E", L] for l in body_lines()):
                if time.time() > t_end:
                    problem = {"what": "job body never ended", "job": L}
                    break
                time.sleep(0.003)
            if problem:
                break
            if spec.get("late") == j[0]:
                continue            # its future completes late: go on with the other jobs meanwhile
            # let the loop observe the completion (a new scan) before the next release
            t1 = time.time() + 3.0
            while n_scans() == scans0 and time.time() < t1:
                if child_done():
                    finished = True
                    break
                time.sleep(0.003)
        # release whatever else might be waiting (jobs the behaviour did not expect to run)
        (ctl / "ALL.go").touch()
        while not finished:
            if child_done():
                break
            if time.time() > t_end + 30:
                proc.kill()
                proc.wait()
                problem = problem or {"what": "submitter did not terminate"}
                break
            time.sleep(0.005)
        out = json.load(open(outfile)) if outfile.exists() else {"errored": None, "exception": "no outcome written"}
        raw = [json.loads(l) for l in open(Path(base) / "events.ndjson") if l.strip()]
        cache = Path(base) / "cache"
        return {"out": out, "problem": problem, "body": body_lines(), "raw": raw,
                "cached_ok": sorted(d.name for d in cache.iterdir() if d.is_dir() and (d / "_result.pklz").exists()) if cache.exists() else []}
    finally:
        try:
            proc.kill()
            proc.wait()
        except Exception:
            pass
        shutil.rmtree(base, ignore_errors=True)


def build_trace(spec, obs, with_scans=True):
    """merge hook events (scan/launch, by log order) and body events (S/E) into one event list.
    Body events are written by the job bodies to body.log; hook events to events.ndjson.  The two
    files are separate, so their relative order is reconstructed conservatively: launch(j) is
    placed before S(j) (causality), scans keep their order relative to launches, S/E keep theirs."""
    ev = []
    body = []
    for l in obs["body"]:
        parts = l.split()
        m = re.match(r"([a-z]+)(\d+)$", parts[1])
        body.append({"a": parts[0], "n": m.group(1), "i": int(m.group(2)), **({"r": parts[2]} if parts[0] == "E" else {})})
    hooks = []
    for e in obs["raw"]:
        if e["a"] == "scan" and with_scans and "tasks" in e:
            hooks.append({"a": "scan", "tasks": e["tasks"]})
        elif e["a"] == "launch" and e.get("job") not in (None, "main") and e.get("si") is not None:
            hooks.append({"a": "launch", "n": e["job"], "i": e["si"]})
    # interleave: emit hook events until the launch of the next body-start has been emitted
    hi = 0
    launched = set()
    for b in body:
        if b["a"] == "S":
            while (b["n"], b["i"]) not in launched and hi < len(hooks):
                h = hooks[hi]
                hi += 1
                ev.append(h)
                if h["a"] == "launch":
                    launched.add((h["n"], h["i"]))
        ev.append(b)
    ev.extend(hooks[hi:])
    out = obs["out"]
    named = []
    if out.get("errored"):
        txt = out.get("error") or ""
        for n in spec["graph"]["nodes"]:
            for i in range(1, spec["graph"]["njobs"][n] + 1):
                if re.search(rf"gate {n}{i} fails", txt):
                    named.append([n, i])
    ev.append({"a": "END", "outcome": "error" if out.get("errored") else "done", "named": named})
    return ev


def validate(ctx, items):
    """items: list of (tid, spec, ev) -> {tid: verdict rec}"""
    if not items:
        return {}
    f = ctx.scratch / f"subtraces_{time.time_ns()}.ndjson"
    with open(f, "w") as fh:
        for tid, spec, ev in items:
            g = spec["graph"]
            fh.write(json.dumps({"tid": tid, "graph": {"name": g.get("name", "g"), "nodes": g["nodes"],
                                                        "preds": {n: sorted(g["preds"][n]) for n in g["nodes"]},
                                                        "njobs": g["njobs"]},
                                 "K": spec.get("K", 0), "fails": spec.get("fails", []), "ev": ev}) + "\n")
    r = ctx.tlc("Submitter_Trace", cfg="MC_SubTrace.cfg", workers=1, env={"TRACE_FILE": str(f)}, timeout=900)
    res = {}
    for rec in r.printed():
        res.setdefault(rec["tid"], []).append(rec)
    out = {t: jc.collapse_verdicts(v) for t, v in res.items()}
    missing = [t for t, _, _ in items if t not in out]
    if missing:
        raise core.MachineryError(f"no verdict for submitter traces {missing[:5]}")
    return out


def tlc_schedules(ctx, name, graphs, ks, fails="none", simulate=None, seed=None, depth=None):
    cfg = ctx.scratch / f"{name}.cfg"
    cfg.write_text(f"""SPECIFICATION GSpec
CONSTANTS
  Graphs <- {graphs}
  Ks <- {ks}
  FailChoices = "{fails}"
  SliceIgnoresRunning = FALSE
  RunningLoopRaises = FALSE
INVARIANT Emit
CHECK_DEADLOCK FALSE
""")
    kw = {}
    if simulate:
        kw.update(simulate=f"num={simulate}", depth=depth or 120, seed=seed)
    r = ctx.tlc("MC_SubGen", cfg=cfg, workers=1, timeout=1500, **kw)
    seen, out = set(), []
    for b in r.printed():
        k = json.dumps([b["graph"]["name"], b["K"], b["fails"], b["order"]])
        if k not in seen:
            seen.add(k)
            out.append(b)
    return out


def pick_schedules(ctx, behs, n):
    """n behaviours, stratified by graph (round robin), distinct completion orders of a graph first"""
    groups = {}
    for b in behs:
        groups.setdefault(b["graph"]["name"], []).append(b)
    for name, g in groups.items():
        ctx.rng.shuffle(g)
        seen, first, rest = set(), [], []
        for b in g:
            k = json.dumps(b["order"])
            (rest if k in seen else first).append(b)
            seen.add(k)
        groups[name] = (first + rest)[::-1]          # popped from the end
    out = []
    while len(out) < n and any(groups.values()):
        for name in sorted(groups):
            if groups[name] and len(out) < n:
                out.append(groups[name].pop())
    return out


def norm_graph(g):
    return {"name": g["name"], "nodes": list(g["nodes"]), "preds": {n: sorted(g["preds"][n]) for n in g["nodes"]},
            "njobs": {n: g["njobs"][n] for n in g["nodes"]}}


def sub_mc(ctx, name, graphs, ks, fails, props, spec="Spec", slice_asbuilt=False, raises_asbuilt=False, must_pass=True,
           workers=8, coverage=False, timeout=1500):
    cfg = ctx.scratch / f"{name}.cfg"
    lines = [f"SPECIFICATION {spec}", "CONSTANTS", f"  Graphs <- {graphs}", f"  Ks <- {ks}", f'  FailChoices = "{fails}"',
             f"  SliceIgnoresRunning = {'TRUE' if slice_asbuilt else 'FALSE'}",
             f"  RunningLoopRaises = {'TRUE' if raises_asbuilt else 'FALSE'}", "CHECK_DEADLOCK FALSE"]
    for p in props:
        lines.append(("PROPERTY " + p[2:]) if p.startswith("P:") else ("INVARIANT " + p))
    cfg.write_text("\n".join(lines) + "\n")
    return ctx.tlc("MC_Submitter", cfg=cfg, workers=workers, must_pass=must_pass, coverage=coverage, timeout=timeout)


def run_and_trace(spec):
    o = run_schedule(spec)
    if o["problem"] and not spec.get("_retried"):
        s2 = dict(spec, _retried=True, timeout=4 * spec.get("timeout", 90))
        o = run_schedule(s2)
    o["ev"] = build_trace(spec, o)
    del o["raw"]
    return o


def schedules_to_specs(behs, worker="cf"):
    return [{"graph": norm_graph(b["graph"]), "K": b["K"], "fails": b["fails"], "order": b["order"], "worker": worker,
             "expect": {"outcome": b["outcome"], "errors": b["errors"], "ran": b["ran"]}} for b in behs]


def judge_runs(ctx, specs, obs, what):
    """common verdicts: conformance problems, trace validation (all Submitter properties), outcome vs spec."""
    items = []
    for tid, (spec, o) in enumerate(zip(specs, obs), 1):
        ctx.ran()
        ctx.nontriv(json.dumps([spec["graph"]["name"], spec["K"], spec["fails"], spec["order"], spec["worker"]]))
        case = {"spec": {k: v for k, v in spec.items() if k != "_retried"}}
        if o["problem"]:
            ctx.violation(f"{what}: the real submitter could not follow a schedule the specification allows: {o['problem']}",
                          case=case, expected="schedule followed", observed={"problem": o["problem"], "body": o["body"], "out": o["out"]})
            continue
        exp = spec.get("expect")
        if exp:
            got = "error" if o["out"].get("errored") else "done"
            if got != exp["outcome"]:
                ctx.violation(f"{what}: outcome {got}, the specification's behaviour ends in {exp['outcome']}", case=case,
                              expected=exp, observed=o["out"])
            ran = sorted(l.split()[1] for l in o["body"] if l.startswith("S "))
            if ran != sorted(lab(j) for j in exp["ran"]):
                ctx.violation(f"{what}: executed jobs {ran} differ from the specification's behaviour", case=case,
                              expected=sorted(lab(j) for j in exp["ran"]), observed=o["body"])
        items.append((tid, spec, o["ev"]))
    verdicts = validate(ctx, items)
    for tid, spec, ev in items:
        v = verdicts[tid]["verdict"]
        if v[0] != "accepted":
            ctx.violation(f"{what}: trace of the real run violates Submitter: {v}", case={"spec": {k: x for k, x in spec.items() if k != '_retried'}},
                          expected="accepted", observed={"verdict": v, "events": ev})
    return items
