"""Child interpreter for C30: replay a history of construct/run operations in ONE process."""
import json
import sys
import tempfile
import typing as ty

from pathlib import Path

from fileformats.core import FileSet
from fileformats.generic import File
from pydra.compose import python, workflow
from pydra.engine.workflow import Workflow


@python.define
def N(name: str, x: ty.Any = None, y: ty.Any = None) -> ty.Any:
    return [name, x, y]


@workflow.define
def W(x: int, ys: list, flag: bool = True) -> ty.Any:
    a = workflow.add(N(name="a", x=x), name="a")
    if flag:
        b = workflow.add(N(name="b", x=a.out).split("y", y=ys), name="b")
    else:
        b = workflow.add(N(name="b2", x=a.out, y=ys), name="b")
    return b.out


@workflow.define
def V(x: int, ys: list, flag: bool = True) -> ty.Any:
    a = workflow.add(N(name="va", x=ys, y=x), name="a")
    c = workflow.add(N(name="vc", x=a.out, y=flag), name="c")
    return c.out


@python.define
def Where(f: File, y: ty.Any = None) -> ty.Any:
    return ["where", f.fspath.parent.name + "/" + f.fspath.name + ":" + f.fspath.read_text(), y]


@workflow.define
def F(x: File, ys: list, flag: bool = True) -> ty.Any:
    a = workflow.add(Where(f=x), name="a")
    if flag:
        b = workflow.add(N(name="fb", x=a.out).split("y", y=ys), name="b")
    else:
        b = workflow.add(N(name="fb2", x=a.out, y=ys), name="b")
    return b.out


DEFS = {"W": W, "V": V, "F": F}
FILES = {}      # x value of the spec -> path (x and x + 10: the same file name and content in two directories)


def make_files(base):
    for x, d, text in ((1, "p1", "one"), (11, "p2", "one"), (2, "p3", "two"), (12, "p4", "two")):
        p = Path(base) / d
        p.mkdir(parents=True, exist_ok=True)
        (p / "f.txt").write_text(text)
        FILES[x] = p / "f.txt"


def vals(v, w="W"):
    x = File(FILES[v["x"]]) if w == "F" else v["x"]
    return {"x": x, "ys": list(range(v["ys"])), "flag": v["flag"]}


def show(val):
    if isinstance(val, FileSet):
        return [p.parent.name + "/" + p.name for p in val.fspaths]
    return val


def graph(wf, keys):
    g = {}
    for n in wf.nodes:
        ins = {}
        for k, val in n.input_values:
            if k in ("name",):
                ins[k] = val
            else:      # which file will the node receive? (bound directly, or through a workflow input)
                from pydra.engine.lazy import LazyInField
                if isinstance(val, LazyInField):
                    val = getattr(wf.inputs, val._field, None)
                if isinstance(val, FileSet):
                    ins[k] = show(val)
        g[n.name] = {"task": type(n._task).__name__, "label": ins.get("name"), "files": {k: v for k, v in ins.items() if k != "name"},
                     "splitter": repr(n.state.splitter) if n.state else None}
    inputs = {k: show(getattr(wf.inputs, k)) for k in keys}
    return {"nodes": g, "inputs": inputs}


def plain(x):
    return [plain(i) for i in x] if isinstance(x, (list, tuple)) else x


if __name__ == "__main__":
    hist = json.load(open(sys.argv[1]))
    import atexit
    import shutil
    BASE = tempfile.mkdtemp(prefix="verif_wfcc_files_")
    atexit.register(shutil.rmtree, BASE, True)
    make_files(BASE)
    res, ids = [], {}
    keep = []
    for op in hist:
        t = DEFS[op["w"]](**vals(op["v"], op["w"]))
        keys = sorted(set(("x", "ys", "flag")) - set(op["lazy"]))
        try:
            if op["op"] == "run":
                out = t(cache_root=tempfile.mkdtemp(dir=BASE))
                wf = Workflow.construct(t)     # what the run used (exact hit by construction)
                rec = {"out": plain(out.out)}
            else:
                wf = Workflow.construct(t, lazy=list(op["lazy"]))
                rec = {}
            keep.append(wf)
            rec["obj"] = ids.setdefault(id(wf), len(ids) + 1)
            rec["graph"] = graph(wf, keys)
            rec["node_ids"] = sorted(ids.setdefault(("n", id(n)), len(ids) + 1) for n in wf.nodes)
        except Exception as e:  # noqa
            rec = {"err": f"{type(e).__name__}: {str(e)[:200]}"}
        res.append(rec)
    json.dump(res, open(sys.argv[2], "w"), default=str)
