"""Child interpreter for C30: replay a history of construct/run operations in ONE process."""
import json
import sys
import tempfile
import typing as ty

from pydra.compose import python, workflow
from pydra.engine.workflow import Workflow


@python.define
def N(name: str, x: ty.Any = None, y: ty.Any = None) -> ty.Any:
    return [name, x, y]


@workflow.define
def W(x: int, ys: list, flag: bool = True) -> ty.Any:
    a = workflow.add(N(name="a", x=x), name="a")
    if flag:
        b = workflow.add(N(name="b", x=a.out).split("y", y=ys), name="b")
    else:
        b = workflow.add(N(name="b2", x=a.out, y=ys), name="b")
    return b.out


@workflow.define
def V(x: int, ys: list, flag: bool = True) -> ty.Any:
    a = workflow.add(N(name="va", x=ys, y=x), name="a")
    c = workflow.add(N(name="vc", x=a.out, y=flag), name="c")
    return c.out


DEFS = {"W": W, "V": V}


def vals(v):
    return {"x": v["x"], "ys": list(range(v["ys"])), "flag": v["flag"]}


def graph(wf, keys):
    g = {}
    for n in wf.nodes:
        ins = {}
        for k, val in n.input_values:
            if k in ("name",):
                ins[k] = val
        g[n.name] = {"task": type(n._task).__name__, "label": ins.get("name"),
                     "splitter": repr(n.state.splitter) if n.state else None}
    inputs = {k: getattr(wf.inputs, k) for k in keys}
    return {"nodes": g, "inputs": inputs}


def plain(x):
    return [plain(i) for i in x] if isinstance(x, (list, tuple)) else x


if __name__ == "__main__":
    hist = json.load(open(sys.argv[1]))
    res, ids = [], {}
    keep = []
    for op in hist:
        t = DEFS[op["w"]](**vals(op["v"]))
        keys = sorted(set(("x", "ys", "flag")) - set(op["lazy"]))
        try:
            if op["op"] == "run":
                out = t(cache_root=tempfile.mkdtemp())
                wf = Workflow.construct(t)     # what the run used (exact hit by construction)
                rec = {"out": plain(out.out)}
            else:
                wf = Workflow.construct(t, lazy=list(op["lazy"]))
                rec = {}
            keep.append(wf)
            rec["obj"] = ids.setdefault(id(wf), len(ids) + 1)
            rec["graph"] = graph(wf, keys)
            rec["node_ids"] = sorted(ids.setdefault(("n", id(n)), len(ids) + 1) for n in wf.nodes)
        except Exception as e:  # noqa
            rec = {"err": f"{type(e).__name__}: {str(e)[:200]}"}
        res.append(rec)
    json.dump(res, open(sys.argv[2], "w"), default=str)
