"""C34 File inputs are staged according to their copy mode.

Spec: specs/Staging.tla (MustDiffer / SameObject / ContentOf / ShapeOf and the copy-mode
table Relation / MustStage / Layout).  TLC (Staging_Gen with WithModes, mode M2)
enumerates every nested input value (list/tuple/dict to depth 2, or a bare file object)
over 4 files, 2 directories and a two-file file-set in 3 source directories with colliding
names, plus a non-file value; every case carries the expected relation for each of the 7
copy modes x 3 collations.
Replay: for every (value, mode, collation) a real task (source text generated per type
signature x mode x collation) is wrapped in a real Job; Job.inputs performs the staging;
the staged value, the job directory and the original files are observed (content, shape,
destinations, inode / write-through probes) and compared with the values TLC computed.
"""
import os
from concurrent.futures import ThreadPoolExecutor
from pathlib import Path

from harness import core, staging_common as sc

LEVEL = "model_checking"
MAX_RECORDED = 12  # replay files written per run (the rest is only counted)
POOL = ["F1", "F2", "G3", "N1", "S1", "S2", "P1"]
MODES = ["any", "copy", "link", "hardlink", "symlink", "link_or_copy", "hardlink_or_copy"]
COLLS = ["any", "siblings", "adjacent"]


# ------------------------------------------------------------------ generated tasks
def defs_text(keys):
    out = [sc.HEADER]
    for idx, (tt, mode, coll) in enumerate(keys):
        out.append(f"""
@python.define(inputs={{"x": python.arg(type={tt}, copy_mode=File.CopyMode.{mode},
                                        copy_collation=File.CopyCollation.{coll})}})
def T{idx}(x) -> int:
    return 1
""")
    return "\n".join(out)


_DEFS = {}


def prepare(ctx, triples, name="c34_defs"):
    keys = sorted({(sc.type_text(c["fields"][0]), m, k) for c, m, k in triples})
    mod = sc.load_defs(ctx, name, defs_text(keys))
    _DEFS.clear()
    _DEFS.update({key: getattr(mod, f"T{i}") for i, key in enumerate(keys)})


# ------------------------------------------------------------------ real code
def _text_of(p):
    p = Path(p)
    return ((p / "f.txt") if p.is_dir() else p).read_text()


def _write(p, text):
    p = Path(p)
    with open((p / "f.txt") if p.is_dir() else p, "w") as f:  # in place: same inode
        f.write(text)


def probe_relation(orig_paths, staged_paths):
    """-> 'same-path' | 'linked' | 'independent' | 'mixed'; restores every file it touches"""
    kinds = set()
    for o, s in zip(orig_paths, staged_paths):
        if os.path.abspath(o) == os.path.abspath(s):
            kinds.add("same-path")
            continue
        before_o, before_s = _text_of(o), _text_of(s)
        _write(o, before_o + "+orig")
        shows = _text_of(s) == before_o + "+orig"
        _write(o, before_o)
        if not shows:
            _write(s, before_s + "+staged")
            leaks = _text_of(o) != before_o
            _write(s, before_s)
            kinds.add("write-through-one-way" if leaks else "independent")
        else:
            kinds.add("linked")
    return kinds.pop() if len(kinds) == 1 else "mixed:" + ",".join(sorted(kinds))


def observe(case, info, mode, coll, variant):
    from pydra.engine.job import Job
    from pydra.engine.submitter import Submitter

    term = case["fields"][0]
    T = _DEFS[(sc.type_text(term), mode, coll)]
    with sc.Scratch("verif_c34_") as tmp:
        salt = "|" + tmp.name
        pool = sc.materialise_pool(tmp / "src", info, salt)
        value = sc.build_value(term, pool, {} if variant % 2 == 0 else None)
        obs = {"err": None}
        try:
            task = T(x=value)
            if sc.shape_of(task.x) != sc.shape_of(value):
                obs["err"] = "harness: the input was coerced when the task was defined"
                obs["harness"] = True
                return obs
            with Submitter(cache_root=tmp / "cache", worker="debug") as sub:
                job = Job(task, submitter=sub, name="j")
                jobdir = Path(job.cache_dir)
                jobdir.mkdir(parents=True, exist_ok=True)
                staged = job.inputs["x"]
        except Exception as e:  # noqa
            obs["err"] = f"{type(e).__name__}: {str(e)[:200]}"
            return obs
        obs["shape"] = sc.shape_of(staged)
        leaves = sc.flatten(staged)
        origs = sc.flatten(value)
        obs["leaves"] = []
        for lf, og in zip(leaves, origs):
            if isinstance(lf, int):
                obs["leaves"].append({"dest": [], "content": [str(lf)]})
                continue
            dest = sc.leaf_paths(lf)
            ins = [sc.inside(d, jobdir) for d in dest]
            rec = {"dest": [str(Path(d).relative_to(jobdir)) if i else d.replace(str(tmp), "<tmp>") for d, i in zip(dest, ins)],
                   "content": sc.read_leaf(lf, salt), "inside": all(ins), "outside": not any(ins),
                   "symlink": [Path(d).is_symlink() for d in dest],
                   "parents_jobdir": all(Path(d).parent == jobdir for d in dest),
                   "stems": sorted({Path(d).name.split(".")[0] for d in dest})}
            obs["leaves"].append(rec)
        # probes (after everything was read); one per distinct destination
        done = {}
        for rec, lf, og in zip(obs["leaves"], leaves, origs):
            if isinstance(lf, int):
                continue
            key = tuple(rec["dest"])
            if key not in done:
                done[key] = probe_relation(sc.leaf_paths(og), sc.leaf_paths(lf))
            rec["relation"] = done[key]
        obs["tree"] = [t for t in sc.tree_of(jobdir) if not t.startswith("_")]
        top = sorted({t.split("/")[0] for t in obs["tree"]})
        staged_top = sorted({d.split("/")[0] for r in obs["leaves"] if r.get("inside") for d in r["dest"]})
        obs["unreferenced"] = [t for t in top if t not in staged_top]
        return obs


def judge(case, obs, mode, coll):
    """-> (verdict, detail, notes); every expected value comes from the TLC case"""
    if obs.get("harness"):
        return "harness", obs["err"], []
    if obs["err"]:
        return "staging-failed", obs["err"], []
    if sc.norm_shape(obs["shape"]) != sc.norm_shape(case["shape"][0]):
        return "shape-changed", obs["shape"], []
    lv = obs["leaves"]
    if len(lv) != len(case["leaves"]):
        return "leaf-count", len(lv), []
    notes = []
    for i, (l, exp, src) in enumerate(zip(lv, case["content"], case["leaves"])):
        if l["content"] != exp:
            return "content-or-value-changed", {"leaf": i + 1, "expected": exp, "observed": l["content"]}, []
        if src["o"] == "#":
            continue
        kind = case["shape_kinds"][i]
        want = case["modes"][mode][coll][kind]
        if want["stage"] and not l["inside"]:
            return "not-staged-into-job-directory", {"leaf": i + 1, "dest": l["dest"]}, []
        if not want["stage"]:
            notes.append("mode any: " + ("left in place" if l["outside"] else "staged"))
        rel = l["relation"]
        if want["rel"] == "independent" and rel != "independent":
            return "copy-not-independent", {"leaf": i + 1, "relation": rel}, []
        if want["rel"] == "linked" and rel not in ("linked",):
            return "link-does-not-show-original", {"leaf": i + 1, "relation": rel}, []
        if want["rel"] == "either" and rel not in ("linked", "independent", "same-path"):
            return "inconsistent-relation", {"leaf": i + 1, "relation": rel}, []
        if want["layout"] == "siblings" and not l["parents_jobdir"]:
            return "collation-siblings-not-honoured", {"leaf": i + 1, "dest": l["dest"]}, []
        if want["layout"] == "adjacent" and not (l["parents_jobdir"] and len(l["stems"]) == 1):
            return "collation-adjacent-not-honoured", {"leaf": i + 1, "dest": l["dest"]}, []
    for i, j in case["differ"]:
        if set(lv[i - 1]["dest"]) & set(lv[j - 1]["dest"]):
            return "distinct-sources-share-destination", {"leaves": [i, j], "dest": lv[i - 1]["dest"]}, []
    for i, j in case["same"]:
        if lv[i - 1]["dest"] != lv[j - 1]["dest"]:
            return "same-object-staged-twice", {"leaves": [i, j], "dest": [lv[i - 1]["dest"], lv[j - 1]["dest"]]}, []
    if obs["unreferenced"]:
        return "same-object-staged-twice", {"unreferenced entries in the job directory": obs["unreferenced"]}, []
    return "ok", None, notes


def with_kinds(case):
    """kind of every leaf, read off the shape TLC computed"""
    def kinds(s):
        return [s["o"]] if s["k"] == "leaf" else [x for k in s["kids"] for x in kinds(k)]
    c = dict(case)
    c["shape_kinds"] = kinds(case["shape"][0])
    return c


def check(arg):
    case, info, mode, coll, variant = arg
    case = with_kinds(case)
    obs = observe(case, info, mode, coll, variant)
    v, d, notes = judge(case, obs, mode, coll)
    return v, d, (obs if v != "ok" else None), notes


# ------------------------------------------------------------------ two fields, each with its own copy mode
def defs2_text(keys):
    out = [sc.HEADER]
    for idx, (tx, m1, ty_, m2) in enumerate(keys):
        out.append(f"""
@python.define(inputs={{"x": python.arg(type={tx}, copy_mode=File.CopyMode.{m1}),
                        "y": python.arg(type={ty_}, copy_mode=File.CopyMode.{m2})}})
def D{idx}(x, y) -> int:
    return 1
""")
    return "\n".join(out)


_DEFS2 = {}


def prepare2(ctx, quads):
    keys = sorted({(sc.type_text(c["fields"][0]), m1, sc.type_text(c["fields"][1]), m2) for c, m1, m2 in quads})
    mod = sc.load_defs(ctx, "c34_two_defs", defs2_text(keys))
    _DEFS2.clear()
    _DEFS2.update({key: getattr(mod, f"D{i}") for i, key in enumerate(keys)})


def observe2(case, info, m1, m2, variant):
    """both fields of a two-field case staged by ONE Job.inputs call; leaf records field by field"""
    from pydra.engine.job import Job
    from pydra.engine.submitter import Submitter

    tx, ty_ = case["fields"]
    T = _DEFS2[(sc.type_text(tx), m1, sc.type_text(ty_), m2)]
    with sc.Scratch("verif_c34d_") as tmp:
        salt = "|" + tmp.name
        pool = sc.materialise_pool(tmp / "src", info, salt)
        shared = {} if variant % 2 == 0 else None          # even variants: the SAME python object in both fields
        vals = [sc.build_value(tx, pool, shared), sc.build_value(ty_, pool, shared)]
        if variant % 4 >= 2:
            vals_kw = {"y": vals[1], "x": vals[0]}
        else:
            vals_kw = {"x": vals[0], "y": vals[1]}
        obs = {"err": None}
        try:
            task = T(**vals_kw)
            if [sc.shape_of(task.x), sc.shape_of(task.y)] != [sc.shape_of(v) for v in vals]:
                return {"err": "harness: the input was coerced when the task was defined", "harness": True}
            with Submitter(cache_root=tmp / "cache", worker="debug") as sub:
                job = Job(task, submitter=sub, name="j")
                jobdir = Path(job.cache_dir)
                jobdir.mkdir(parents=True, exist_ok=True)
                inp = job.inputs
                staged = [inp["x"], inp["y"]]
        except Exception as e:  # noqa
            obs["err"] = f"{type(e).__name__}: {str(e)[:200]}"
            return obs
        obs["shape"] = [sc.shape_of(v) for v in staged]
        leaves = [l for v in staged for l in sc.flatten(v)]
        origs = [l for v in vals for l in sc.flatten(v)]
        obs["leaves"] = []
        for lf in leaves:
            if isinstance(lf, int):
                obs["leaves"].append({"dest": [], "content": [str(lf)]})
                continue
            dest = sc.leaf_paths(lf)
            ins = [sc.inside(d, jobdir) for d in dest]
            obs["leaves"].append({"dest": [str(Path(d).relative_to(jobdir)) if i else d.replace(str(tmp), "<tmp>") for d, i in zip(dest, ins)],
                                  "content": sc.read_leaf(lf, salt), "inside": all(ins), "outside": not any(ins)})
        for rec, lf, og in zip(obs["leaves"], leaves, origs):     # probes after everything was read, leaf by leaf
            if not isinstance(lf, int):
                rec["relation"] = probe_relation(sc.leaf_paths(og), sc.leaf_paths(lf))
        return obs


def judge2(case, obs, m1, m2):
    if obs.get("harness"):
        return "harness", obs["err"]
    if obs["err"]:
        return "staging-failed", obs["err"]
    if [sc.norm_shape(x) for x in obs["shape"]] != [sc.norm_shape(x) for x in case["shape"]]:
        return "shape-changed", obs["shape"]
    lv = obs["leaves"]
    if len(lv) != len(case["leaves"]):
        return "leaf-count", len(lv)
    for i, (l, exp, src, kind) in enumerate(zip(lv, case["content"], case["leaves"], case["shape_kinds"])):
        if l["content"] != exp:
            return "content-or-value-changed", {"leaf": i + 1, "expected": exp, "observed": l["content"]}
        if src["o"] == "#":
            continue
        mode = (m1, m2)[src["f"] - 1]
        want = case["modes"][mode]["any"][kind]              # Staging!LeafDemand: the leaf's OWN field decides
        if want["stage"] and not l["inside"]:
            return "not-staged-into-job-directory", {"leaf": i + 1, "field_mode": mode, "dest": l["dest"]}
        rel = l["relation"]
        if want["rel"] == "independent" and rel != "independent":
            return "copy-not-independent", {"leaf": i + 1, "field_mode": mode, "relation": rel}
        if want["rel"] == "linked" and rel != "linked":
            return "link-does-not-show-original", {"leaf": i + 1, "field_mode": mode, "relation": rel}
        if want["rel"] == "either" and rel not in ("linked", "independent", "same-path"):
            return "inconsistent-relation", {"leaf": i + 1, "field_mode": mode, "relation": rel}
    return "ok", None


def with_kinds2(case):
    def kinds(s):
        return [s["o"]] if s["k"] == "leaf" else [x for k in s["kids"] for x in kinds(k)]
    c = dict(case)
    c["shape_kinds"] = [x for sh in case["shape"] for x in kinds(sh)]
    return c


def check2(arg):
    case, info, m1, m2, variant = arg
    case = with_kinds2(case)
    obs = observe2(case, info, m1, m2, variant)
    v, d = judge2(case, obs, m1, m2)
    return v, d, (obs if v != "ok" else None)


def two_fields(ctx, info):
    """one task, two file fields with (possibly different) copy modes; TLC: Staging_Gen two-field cases + LeafDemand"""
    _, cs = sc.generate(ctx, POOL, 2, True, True, 4)
    cs = [c for c in cs if len(c["fields"]) == 2 and all(l["o"] != "#" for l in c["leaves"])]
    across = [c for c in cs if c["across"]]
    other = [c for c in cs if not c["across"]]
    pairs = [(a, b) for a in MODES for b in MODES]
    if ctx.thorough:
        quads = [(c, a, b) for c in across for a, b in pairs] + [(c,) + ctx.rng.choice(pairs) for c in other]
    else:
        diff = [(a, b) for a, b in pairs if a != b]
        quads = [(c,) + ctx.rng.choice(diff) for c in across] + \
                [(ctx.rng.choice(across),) + pr for pr in pairs for _ in range(2)] + \
                [(c,) + ctx.rng.choice(pairs) for c in ctx.rng.sample(other, 60)]
    prepare2(ctx, quads)
    args = [(c, info, a, b, n) for n, (c, a, b) in enumerate(quads)]
    res = core.pmap(check2, args, chunksize=8)
    nbad = 0
    for a, (v, d, obs) in zip(args, res):
        case, _, m1, m2, n = a
        ctx.ran()
        if case["across"] and m1 != m2:
            ctx.nontriv((str(case["fields"]), m1, m2, "two-fields"))
        if v == "harness":
            ctx.observe("two-field case not evaluated: " + str(d))
            continue
        if v != "ok":
            nbad += 1
            if nbad > 6:
                continue
            v2, d2, obs2 = check2(a)
            if v2 == "ok":
                ctx.observe("non-reproducible failure (environment)", {"fields": case["fields"], "first": f"{v}: {d}"})
                continue
            ctx.violation(f"two file fields with their own copy modes (x: {m1}, y: {m2}): {v2}: {d2}",
                          case={"tlc": case, "pool": info, "m1": m1, "m2": m2, "variant": n, "two_fields": True},
                          expected={"per-leaf demand (Staging!LeafDemand)": [case["modes"][(m1, m2)[l["f"] - 1]]["any"]["file"]
                                                                              for l in case["leaves"]], "content": case["content"]},
                          observed=obs2)
    ctx.extra["two_field_cases"] = {"space": len(cs), "same_object_in_both_fields": len(across), "evaluated": len(args)}


def selftest(case, info):
    case = with_kinds(case)
    obs = observe(case, info, "copy", "any", 0)
    if judge(case, obs, "copy", "any")[0] != "ok":
        return
    if judge(case, obs, "link", "any")[0] == "ok":
        raise core.MachineryError("selftest: a copy judged against the expectation for 'link' was not noticed")
    bad = dict(case, content=[["corrupted"]] + case["content"][1:])
    if judge(bad, obs, "copy", "any")[0] == "ok":
        raise core.MachineryError("selftest: corrupted expected content not noticed")
    bad = dict(case, differ=[[1, 1]])
    if judge(bad, obs, "copy", "any")[0] == "ok":
        raise core.MachineryError("selftest: corrupted MustDiffer not noticed")


# ------------------------------------------------------------------ cross-field observation (not judged)
def cross_field(info, mode):
    """two fields holding same-named files: outside the per-value quantifier; only recorded"""
    from pydra.engine.job import Job
    from pydra.engine.submitter import Submitter

    T = _DEFS[("xfield", mode, "any")]
    with sc.Scratch("verif_c34x_") as tmp:
        salt = "|" + tmp.name
        pool = sc.materialise_pool(tmp / "src", info, salt)
        try:
            task = T(x=sc.make_obj("F1", pool), y=sc.make_obj("F2", pool))
            with Submitter(cache_root=tmp / "cache", worker="debug") as sub:
                job = Job(task, submitter=sub, name="j")
                Path(job.cache_dir).mkdir(parents=True, exist_ok=True)
                inp = job.inputs
            return f"staged as {Path(str(inp['x'])).name!r} and {Path(str(inp['y'])).name!r}"
        except Exception as e:  # noqa
            return f"{type(e).__name__}"


def run(ctx):
    ctx.rule = ("TLC enumerates every input value = nested value of depth <= 2 with exactly n leaves (or a bare file "
                "object) over {4 files, 2 directories, 1 two-file file-set, one int}; distinct = initial states of "
                "Staging_Gen; an evaluation = one (value, copy mode, collation) staged by Job.inputs of a real Job; "
                "non-trivial = value with a name clash or a repeated object")
    with ThreadPoolExecutor(max_workers=2) as ex:
        f1 = ex.submit(sc.generate, ctx, POOL, 1, False, True)
        f2 = ex.submit(sc.generate, ctx, POOL, 2, False, True, 4)
        (info, c1), (_, c2) = f1.result(), f2.result()
    ctx.extra["spaces"] = {"n=1": len(c1), "n=2": len(c2)}
    allc = c1 + c2
    triples = [(c, m, k) for c in allc for m in MODES for k in COLLS]
    if ctx.thorough:
        # collation only matters for multi-file objects (a one-path file-set is always collated "any"):
        # every value x every mode with collation any, and all three collations for values holding the pair
        triples = [t for t in triples if t[2] == "any" or any(l["o"] == "P1" for l in t[0]["leaves"])]
        ctx.exhaustive = True
    else:
        hot = [t for t in triples if t[0]["clash"] or t[0]["same"]]
        triples = ctx.rng.sample(hot, 450) + ctx.rng.sample(triples, 250) + \
            [(c, m, k) for c in c1 for m in MODES for k in COLLS if c["leaves"][0]["o"] == "P1" or c["fields"][0]["k"] == "leaf"]
    prepare(ctx, triples)
    sc.BASE = str(ctx.scratch)
    sc.private_hash_cache(ctx)
    selftest(next(c for c in c2 if c["clash"] and not c["same"] and all(l["o"] in ("F1", "F2") for l in c["leaves"])), info)
    args = [(c, info, m, k, n) for n, (c, m, k) in enumerate(triples)]
    res = core.pmap(check, args, chunksize=16)
    for a, (v, d, obs, notes) in zip(args, res):
        case, _, mode, coll, n = a
        ctx.ran()
        if case["clash"] or case["same"]:
            ctx.nontriv((str(case["fields"]), mode, coll))
        if v == "harness":
            ctx.observe("case not evaluated: " + str(d), {"fields": case["fields"]})
            continue
        if v != "ok":
            if len(ctx.violations) >= MAX_RECORDED:
                ctx.extra["violations_not_recorded"] = ctx.extra.get("violations_not_recorded", 0) + 1
                continue
            v2, d2, obs2, _ = check(a)  # deterministic code: a genuine defect reproduces (shared machine)
            if v2 == "ok":
                ctx.observe("non-reproducible failure (environment)", {"fields": case["fields"], "first": f"{v}: {d}"})
                continue
            ctx.violation(f"input staging (mode {mode}, collation {coll}): {v2}: {d2}",
                          case={"tlc": case, "pool": info, "mode": mode, "coll": coll, "variant": n},
                          expected={"shape": case["shape"], "content": case["content"], "must_differ": case["differ"],
                                    "staged_once": case["same"], "mode": case["modes"][mode][coll]},
                          observed=obs2)
            continue
        for t in set(notes):
            ctx.observe(t)
    two_fields(ctx, info)
    # two fields with same-named files (observation only)
    mod = sc.load_defs(ctx, "c34_xfield_defs", sc.HEADER + "".join(f"""
@python.define(inputs={{"x": python.arg(type=File, copy_mode=File.CopyMode.{m}), "y": python.arg(type=File, copy_mode=File.CopyMode.{m})}})
def X{i}(x, y) -> int:
    return 1
""" for i, m in enumerate(MODES)))
    for i, m in enumerate(MODES):
        _DEFS[("xfield", m, "any")] = getattr(mod, f"X{i}")
        ctx.observe(f"two fields holding same-named files, mode {m}: {cross_field(info, m)}")
    for c in [c for c in c2 if c["clash"] and c["same"]][:1] + [c for c in c2 if c["clash"]][:2]:
        ctx.sample({"value": c["fields"][0], "must_differ": c["differ"], "staged_once": c["same"],
                    "copy": c["modes"]["copy"]["any"]["file"], "link": c["modes"]["link"]["any"]["file"]})
    ctx.assume("sources and the cache root are on one ordinary file system that supports hard and symbolic links")


def replay(ctx, rec):
    c = rec["case"]
    if c.get("two_fields"):
        prepare2(ctx, [(c["tlc"], c["m1"], c["m2"])])
        sc.BASE = str(ctx.scratch)
        sc.private_hash_cache(ctx)
        v, d, obs = check2((c["tlc"], c["pool"], c["m1"], c["m2"], c.get("variant", 0)))
        ctx.ran()
        print("replay verdict:", v, d)
        if v not in ("ok", "harness"):
            ctx.violation(f"replay: two file fields (x: {c['m1']}, y: {c['m2']}): {v}: {d}", case=c,
                          expected=rec.get("expected"), observed=obs)
        return
    prepare(ctx, [(c["tlc"], c["mode"], c["coll"])], name="c34_replay_defs")
    sc.BASE = str(ctx.scratch)
    sc.private_hash_cache(ctx)
    v, d, obs, _ = check((c["tlc"], c["pool"], c["mode"], c["coll"], c.get("variant", 0)))
    ctx.ran()
    print("replay verdict:", v, d)
    if v not in ("ok", "harness"):
        ctx.violation(f"replay: input staging (mode {c['mode']}, collation {c['coll']}): {v}: {d}", case=c,
                      expected=rec.get("expected"), observed=obs)
