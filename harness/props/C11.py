"""C11 At-most-once execution per identity; rerun and read-only caches as documented.

M1: TLC checks ReuseComplete, RerunReexecutes, ReadonlyUntouched, MutualExclusion on
    JobProtocol with two read-only caches, leftover incomplete job directories in the root
    and rerun flags, 2 processes x 2 submissions (every interleaving); the as-built switch
    FirstExistingDirDecides must make TLC report ReuseComplete violated (model sensitivity).
M3/M4: TLC generates every history of one process with 3 submissions (all rerun flags, all
    leftover/read-only initial states) and simulated 2-process histories; each is executed for
    real (sequentially / gated) and its hook trace validated against the spec; body execution
    counts must equal the BodyStart steps of the behaviour; read-only caches byte-identical.
RerunProp.tla: histories of workflow submissions with (rerun, propagate_rerun); the spec
    gives, per submission, whether the workflow job and its node jobs must execute.
"""
from harness import core
from harness import job_common as jc

LEVEL = "model_checking"


def beh_to_seq(b):
    """one-process behaviour -> sequential submissions."""
    procs = []
    for s in b["steps"]:
        if s["a"] == "Submit":
            procs.append({"p": s["p"], "rerun": s["rerun"], "use_ro": True})
    return procs


def run(ctx):
    r = ctx.tlc("MC_JobProtocol", cfg="MC_C11.cfg", workers=8, coverage=True, timeout=900)
    ctx.require_coverage(r, ["CheckHit", "CheckMiss", "CheckSkip", "ClearDir", "BodyStart", "SaveResult"])
    r2 = ctx.tlc("MC_JobProtocol", cfg="MC_C11_asbuilt.cfg", workers=8, must_pass=False, timeout=900)
    if "ReuseComplete" not in r2.invariant_violated:
        raise core.MachineryError("model insensitive: FirstExistingDirDecides does not violate ReuseComplete")
    behs = jc.tlc_behaviours(ctx, "c11_hist", ["p1"], ro="TwoRO", maxsubs=3, rerun="Both", lroot="LeftoversAndDone", lro="ROStates")
    n = len(behs)
    if not ctx.thorough:
        behs = ctx.rng.sample(behs, min(n, 70))
    specs = []
    for b in behs:
        init = {c: jc.init_kind(b["init"][c]) for c in ("root", "ro1", "ro2")}
        specs.append({"kind": "seq", "task": "Work", "init": init, "procs": beh_to_seq(b), "use_ro": True,
                      "expect_bodies": sum(1 for s in b["steps"] if s["a"] == "BodyStart"), "steps": b["steps"]})
    # two processes, interleaved (gated)
    # NB: interleaved submitters WITH rerun are outside C10's and C11's quantifiers (C10: no rerun; C11:
    # histories).  They expose a real race that is recorded in DESIGN 13.6 as an observation: the
    # lock-free final read in Submitter.__call__ can find the directory wiped by a concurrent rerun.
    b2 = jc.tlc_behaviours(ctx, "c11_2p", ["p1", "p2"], ro="OneRO", maxsubs=2, rerun="OnlyFalse", lroot="Leftovers",
                           lro="ROStates", simulate=200 if ctx.thorough else 16, seed=ctx.seed + 7)
    for b in b2:
        init = {c: jc.init_kind(b["init"][c]) for c in ("root", "ro1")}
        init["ro2"] = "absent"
        steps = [dict(s, use_ro=True) for s in b["steps"]]
        specs.append({"kind": "replay", "task": "Work", "init": init, "steps": steps, "use_ro": True,
                      "expect_bodies": sum(1 for s in b["steps"] if s["a"] == "BodyStart")})
    obs = core.pmap(jc.execute_robust, specs, procs=8, chunksize=1)
    traces = []
    for tid, (spec, o) in enumerate(zip(specs, obs), 1):
        ctx.ran()
        ctx.nontriv((str(spec["init"]), str([(s["a"], s["p"], s.get("rerun")) for s in spec["steps"] if s["a"] == "Submit"]), spec["kind"]))
        case = {"spec": spec}
        if o["problem"]:
            ctx.violation("replay: the real processes could not follow a behaviour the specification allows",
                          case=case, expected=o["problem"]["expected_after"], observed=o["problem"])
            continue
        if any(x.get("status") != "ok" or x.get("outputs") != jc.EXPECTED["Work"] for x in o["outs"]):
            ctx.violation("a submission did not return the correct outputs", case=case, observed=o["outs"])
        if o["bodies"][0] != spec["expect_bodies"]:
            ctx.violation(f"task body executed {o['bodies'][0]} times, the specification's history executes it {spec['expect_bodies']} times",
                          case=case, expected=spec["expect_bodies"], observed={"bodies": o["bodies"], "events": [(e['a'], e['p']) for e in o["ev"]]})
        if not o["ro_unchanged"]:
            ctx.violation("a read-only cache was modified", case=case, observed="read-only cache listing changed")
        traces.append({"tid": tid, "init": jc.spec_init(spec["init"]), "ev": o["ev"]})
    verdicts = jc.validate_traces(ctx, traces, "ideal")
    for t in traces:
        v = verdicts[t["tid"]]
        if v["verdict"][0] != "accepted":
            ctx.violation(f"trace of a real run is not a behaviour of JobProtocol: {v['verdict']}",
                          case={"spec": specs[t["tid"] - 1]}, expected="accepted", observed={"verdict": v, "events": t["ev"]})
    # ---- workflow rerun propagation ----
    r3 = ctx.tlc("RerunProp", cfg="RerunProp.cfg", workers=1)
    hists = r3.printed()
    if not ctx.thorough:
        hists = ctx.rng.sample(hists, min(len(hists), 24))
    res = core.pmap(jc.run_wf_history, [[{"rerun": s["rerun"], "prop": s["prop"]} for s in h] for h in hists], procs=8, chunksize=1)
    for h, o in zip(hists, res):
        ctx.ran()
        ctx.nontriv(("wf", str([(s["rerun"], s["prop"]) for s in h])))
        if not isinstance(o, list):
            raise core.MachineryError(f"workflow history child failed: {o}")
        for i, (s, got) in enumerate(zip(h, o)):
            exp = {"wf": 1 if s["wf"] else 0, "nodes": ["A", "B"] if s["nodes"] else [], "out": 8}
            obs_ = {"wf": got["wf"], "nodes": got["nodes"], "out": got["out"]}
            if obs_ != exp:
                ctx.violation(f"workflow submission {i+1} of history (rerun={s['rerun']}, propagate={s['prop']}): executions differ from RerunProp",
                              case={"wf_history": h}, expected=exp, observed=got)
                break
    ctx.sample({"history": [(s["a"], s.get("rerun")) for s in specs[0]["steps"] if s["a"] in ("Submit", "CheckHit", "CheckMiss", "CheckSkip", "BodyStart")], "init": specs[0]["init"]})
    ctx.sample({"workflow_history": hists[0]})
    ctx.exhaustive = ctx.thorough
    ctx.rule = ("one-process histories: every (leftover root state x read-only states x 3 rerun flags) path of JobProtocol from TLC; "
                "two-process histories by TLC simulation; workflow histories: every (rerun, propagate) sequence of length 3")
    ctx.extra["one_process_histories_total"] = n


def replay(ctx, rec):
    case = rec["case"]
    if "wf_history" in case:
        h = case["wf_history"]
        o = jc.run_wf_history([{"rerun": s["rerun"], "prop": s["prop"]} for s in h])
        ctx.ran()
        print(o)
        for s, got in zip(h, o):
            exp = {"wf": 1 if s["wf"] else 0, "nodes": ["A", "B"] if s["nodes"] else [], "out": 8}
            if {"wf": got["wf"], "nodes": got["nodes"], "out": got["out"]} != exp:
                ctx.violation("replay: workflow history differs", case=case, expected=exp, observed=got)
        return
    spec = case["spec"]
    o = jc.execute(spec)
    ctx.ran()
    print("outs:", o["outs"], "bodies:", o["bodies"], "expected", spec["expect_bodies"], "ro_unchanged", o["ro_unchanged"])
    if o["bodies"][0] != spec["expect_bodies"] or not o["ro_unchanged"]:
        ctx.violation("replay: body count / read-only caches", case=case, observed=o["bodies"])
    v = jc.validate_traces(ctx, [{"tid": 1, "init": jc.spec_init(spec["init"]), "ev": o["ev"]}], "ideal")[1]
    print("trace verdict:", v["verdict"])
    if v["verdict"][0] != "accepted":
        ctx.violation(f"trace rejected: {v['verdict']}", case=case, observed=v)
