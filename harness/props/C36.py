"""C36 Provenance records are complete and consistent.

M1: TLC checks OneStartOneEndSameId, EndFlagMatchesResult, NoOrphanEnd on Provenance.tla
    for a single job and a workflow with nested node jobs (succeeding / failing); the
    as-built switch SharedAuditId must violate OneStartOneEndSameId.
M4: every task of the pool {python ok, python raising, shell ok, shell failing, workflow,
    workflow with failing node} is run for real with PROV and ALL through a FileMessenger
    (debug worker; cf on the workflows); the message files are the trace: ordered by the
    audit_started/audit_finalized hook events and attributed to jobs by the activity id the
    job held at that point, then validated by TLC against Provenance_Trace.
"""
import json
import os
import shutil
import subprocess
import tempfile

from harness import core

LEVEL = "model_checking"
POOL = ["py_ok", "py_raise", "sh_ok", "sh_fail", "wf_ok", "wf_fail"]


def run_one(case):
    base = tempfile.mkdtemp(prefix="verif_prov_")
    try:
        p = subprocess.run([core.PY, "-m", "harness.prov_child", base, case["kind"], case["flag"], case["worker"]]
                           + (["default-dir"] if case.get("default_dir") else []),
                           env=core.child_env(hooks=True), capture_output=True, text=True, timeout=600)
        if not os.path.exists(os.path.join(base, "out.json")):
            return {"machinery": p.stderr[-800:]}
        out = json.load(open(os.path.join(base, "out.json")))
        out["hooks"] = [json.loads(l) for l in open(os.path.join(base, "events.ndjson")) if l.strip()]
        return out
    finally:
        shutil.rmtree(base, ignore_errors=True)


def build_trace(case, out):
    """events in hook order; each hook event consumes the message with the id the job held."""
    msgs = list(out["msgs"])
    ids = {}

    def num(x):
        return ids.setdefault(x, len(ids) + 1)
    ev, jobs, failing = [], [], []
    for h in out["hooks"]:
        if h["a"] not in ("audit_started", "audit_finalized", "result_saved"):
            continue
        j = h.get("job")
        if h["a"] == "result_saved":
            if h.get("errored") and j not in failing:
                failing.append(j)
            continue
        if j not in jobs:
            jobs.append(j)
        kind = "start" if h["a"] == "audit_started" else "end"
        m = next((m for m in msgs if m["kind"] == kind and m["id"] == h.get("aid")), None)
        if m is None:
            ev.append({"a": "missing-" + kind, "job": j, "id": 0, "errored": False})
        else:
            msgs.remove(m)
            ev.append({"a": kind, "job": j, "id": num(m["id"]), "errored": bool(m["errored"])})
    for m in msgs:
        ev.append({"a": "orphan-" + m["kind"], "job": "?", "id": num(m["id"]), "errored": bool(m["errored"])})
    parent = {j: ("none" if j == "main" else "main") for j in jobs}
    # the error flag of a job = its own saved result (a workflow whose node failed is itself errored)
    return {"jobs": jobs, "parent": parent, "failing": [j for j in failing if j != "main" or not any(x != "main" for x in failing)], "ev": ev}


def run(ctx):
    for cfg in ("MC_Prov_JWf_FNone_FALSE", "MC_Prov_JWf_FA_FALSE", "MC_Prov_JSingle_FMain_FALSE"):
        ctx.tlc("MC_Provenance", cfg=cfg + ".cfg", workers=2)
    r = ctx.tlc("MC_Provenance", cfg="MC_Prov_JWf_FNone_TRUE.cfg", workers=2, must_pass=False)
    if "OneStartOneEndSameId" not in r.invariant_violated:
        raise core.MachineryError("model insensitive: SharedAuditId does not violate OneStartOneEndSameId")
    cases = [{"kind": k, "flag": f, "worker": "debug"} for k in POOL for f in ("PROV", "ALL")]
    cases += [{"kind": k, "flag": "PROV", "worker": "cf"} for k in (["wf_ok", "wf_fail", "py_ok"] if ctx.thorough else ["wf_ok"])]
    # the FileMessenger's default directory (<cwd>/messages): start and end record of one activity belong together
    cases += [{"kind": k, "flag": "PROV", "worker": "debug", "default_dir": True} for k in ("py_ok", "py_raise", "wf_ok")]
    outs = core.tmap(run_one, cases, threads=6)
    lines = []
    for tid, (c, o) in enumerate(zip(cases, outs), 1):
        ctx.ran()
        ctx.nontriv(json.dumps(c))
        if "machinery" in o:
            raise core.MachineryError("provenance child failed: " + o["machinery"])
        want = "raised" if c["kind"] in ("py_raise", "sh_fail", "wf_fail") else "ok"
        if o["status"] != want:
            ctx.violation(f"pool task {c} ended {o['status']} ({o.get('error')}) with auditing on, expected {want}",
                          case={"case": c}, expected=want, observed={k: o.get(k) for k in ("status", "error")})
            continue
        t = build_trace(c, o)
        if c.get("default_dir"):
            where = {}
            for m in o["msgs"]:
                where.setdefault(m["id"], {})[m["kind"]] = m["dir"]
            split = {i: w for i, w in where.items() if len(set(w.values())) > 1 or set(w) != {"start", "end"}}
            if split:
                ctx.violation(f"default message directory: start and end record of one activity are not emitted together ({c})",
                              case={"case": c}, expected="start and end record side by side", observed=split)
        if c["worker"] == "cf":
            # hook events of pool workers interleave; nesting is by job name only
            pass
        lines.append(dict(t, tid=tid))
    f = ctx.scratch / "prov.ndjson"
    f.write_text("".join(json.dumps(l) + "\n" for l in lines))
    r = ctx.tlc("Provenance_Trace", cfg="Provenance_Trace.cfg", workers=1, env={"TRACE_FILE": str(f)})
    verdicts = {}
    for rec in r.printed():
        verdicts.setdefault(rec["tid"], []).append(rec)
    for l in lines:
        v = max(verdicts.get(l["tid"], [{"verdict": ["no verdict"], "l": 0}]), key=lambda x: (x["verdict"][0] == "accepted", x["l"]))
        c = cases[l["tid"] - 1]
        if v["verdict"][0] != "accepted":
            ctx.violation(f"provenance records of {c} are not a behaviour of Provenance: {v['verdict']}",
                          case={"case": c}, expected="accepted", observed={"verdict": v, "events": l["ev"], "failing": l["failing"]})
        elif not any(e["a"] == "start" for e in l["ev"]):
            ctx.violation(f"no provenance record at all for {c}", case={"case": c}, observed=l["ev"])
    ctx.sample({"case": cases[8], "events": lines[8]["ev"]})
    ctx.exhaustive = True
    ctx.rule = "pool of 6 task kinds x audit flags {PROV, ALL} (debug worker) + cf worker on the workflows; one run each"


def replay(ctx, rec):
    c = rec["case"]["case"]
    o = run_one(c)
    ctx.ran()
    if "machinery" in o:
        raise core.MachineryError("provenance child failed: " + o["machinery"])
    t = build_trace(c, o)
    print(o["status"], t)
    want = "raised" if c["kind"] in ("py_raise", "sh_fail", "wf_fail") else "ok"
    if o["status"] != want:
        ctx.violation(f"replay: pool task {c} ended {o['status']}, expected {want}", case={"case": c}, expected=want, observed=o.get("error"))
        return
    f = ctx.scratch / "prov_replay.ndjson"
    f.write_text(json.dumps(dict(t, tid=1)) + "\n")
    r = ctx.tlc("Provenance_Trace", cfg="Provenance_Trace.cfg", workers=1, env={"TRACE_FILE": str(f)})
    recs = r.printed()
    if not any(x["verdict"][0] == "accepted" for x in recs):
        ctx.violation(f"replay: provenance records of {c} are not a behaviour of Provenance", case={"case": c}, expected="accepted",
                      observed={"verdicts": recs, "events": t["ev"]})
