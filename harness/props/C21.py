"""C21 Accepted lazy connections are honoured at run time.

Spec: TypeCoerce (Inhabitants, Conforms, Aside/Judged, RuntimeIdeal / RuntimeAsBuilt).
TLC (TypeCoerce_Gen, mode "types") enumerates the type grammar with every type's
inhabitants.  The build-time decision `TypeParser(T).check_type(S)` (no super-to-sub-class
casting) is observed on the real code for every ordered pair (S, T); the accepted pairs are
handed back to TLC (TypeCoerce_Triples), which enumerates the triples
(S, T, v in Inhabitants(S)) and says for each whether the statement judges it (fixed-length
tuple arity and the existence of a named file-system object are set aside) and what the
ideal and the as-built run-time outcome are.  The run-time coercion `TypeParser(T)(v)` is
then executed for every triple and must accept every judged one.  A sample of triples is
also run end to end through a generated two-node workflow (`Up() -> S` feeding
`Down(x: T)`); TLC (TypeCoerce_Check) checks that the value the downstream body received
conforms to T.
"""
import time

from harness import core, types_common as tc

LEVEL = "model_checking"


_TARGETS = []      # (index, type term) of every target type; set before the pool forks


def _static_row(args):
    s_i, s_t = args
    return [(s_i, t_i) for t_i, t_t in _TARGETS if tc.static_ok(s_t, t_t)[0]]


def _runtime(args):
    t_t, v = args
    acc, r, err = tc.runtime_ok(t_t, v)
    return {"acc": acc, "r": r, "err": err}


def _wf_one(i):
    return tc.run_workflow(tc._MODS["verif_types_wf"], i)


_UNLISTED = {}


def judge_triple(ctx, case, observed_runtime, what_prefix="", extra=None):
    """case: TLC triple joined with terms {S, T, v}.  Ideal: judged => accepted."""
    tl = case["tlc"]
    if not tl["judged"]:
        return "aside"
    ok = observed_runtime
    if ok:
        return "ok"
    if tc.capped(ctx):
        return "deviation"
    cls = tl["cls"]
    if cls and not (cls in ctx.known and ctx.known[cls].get("status") == "known"):
        # a class that is not (yet) listed: every case is a violation; write out the first 25 of the
        # class as replay files and count the rest (thousands of files otherwise)
        n = _UNLISTED[cls] = _UNLISTED.get(cls, 0) + 1
        if n > 25:
            ctx.extra.setdefault("violations_counted_not_written", {})[cls] = n - 25
            return "deviation"
    what = (f"{what_prefix}statically accepted connection rejected at run time: {tc.type_src(case['S'])} -> "
            f"{tc.type_src(case['T'])}, value {tc.show(case['v'])}")
    ctx.judge(False, what, case=case, expected={"static": True, "runtime": tl["ideal"]},
              observed={"static": True, "runtime": False},
              known_id=tl["cls"] or None, asbuilt={"static": True, "runtime": tl["asbuilt"]}, **(extra or {}))
    return "deviation"


def selftest(ctx):
    """Flip the observation of a judged triple and a spec verdict: the judge must notice both."""
    class Probe:
        judge = core.Ctx.judge
        known = {}
        extra = {}
        violations = []

        def violation(self, *a, **k):
            fired.append("violation")

        def known_finding(self, *a, **k):
            return False

    fired = []
    probe = Probe()
    T = lambda k, *a: {"k": k, "args": list(a)}
    case = {"S": T("int"), "T": T("float"), "v": {"k": "int", "c": [1], "items": []},
            "tlc": {"judged": True, "ideal": True, "asbuilt": True, "cls": ""}}
    if judge_triple(probe, case, True) != "ok" or fired:
        raise core.MachineryError("self-test: an accepted judged triple was not passed")
    if judge_triple(probe, case, False) != "deviation" or fired != ["violation"]:
        raise core.MachineryError("self-test: a rejected judged triple was not reported")
    case["tlc"]["judged"] = False
    if judge_triple(probe, case, False) != "aside":
        raise core.MachineryError("self-test: a set-aside triple was judged")


def run(ctx):
    tc.workdir(ctx)
    selftest(ctx)
    ph = ctx.extra.setdefault("phase_wall_s", {})
    t1 = time.time()
    table = tc.generate(ctx, "types", "all")
    types = {row["i"]: row for row in table}
    if sorted(types) != list(range(1, len(table) + 1)):
        raise core.MachineryError("type table indices are not 1..N")
    ph["tlc_types_s"] = round(time.time() - t1, 1)
    t1 = time.time()
    ids = sorted(types)
    if ctx.thorough:
        sources = ids
        ctx.exhaustive = True
    else:
        nsl = 10
        sources = [i for i in ids if i % nsl == ctx.seed % nsl]
        # every atom and every depth-1 container of an atom is always a source
        sources = sorted(set(sources) | {i for i in ids if types[i]["t"]["k"] in tc.ATOMS_ALL})
        ctx.extra["exhaustive_part"] = f"targets: all {len(ids)} types; sources: all atoms + 1 of {nsl} slices of the other types (by seed)"
    _TARGETS[:] = [(i, types[i]["t"]) for i in ids]
    rows = core.pmap(_static_row, [(i, types[i]["t"]) for i in sources], chunksize=2)
    pairs = [p for row in rows for p in row]
    n_pairs = len(sources) * len(ids)
    ctx.ran(n_pairs, validated=True)
    ph["static_checks_s"] = round(time.time() - t1, 1)
    t1 = time.time()
    triples = tc.generate_triples(ctx, pairs, nshards=12 if ctx.thorough else 4)
    ph["tlc_triples_s"] = round(time.time() - t1, 1)
    t1 = time.time()
    ctx.rule = ("TLC enumerates the type grammar with inhabitants (TypeCoerce_Gen) and, over the (S, T) pairs the real "
                "check_type accepts, every triple (S, T, v in Inhabitants(S)) (TypeCoerce_Triples); distinct = initial "
                "states; non-trivial = judged triple whose source and target types differ")
    cases = []
    for tl in triples:
        S, T = types[tl["s"]], types[tl["t"]]
        if S["t"]["k"] != tl["sk"] or T["t"]["k"] != tl["tk"]:
            raise core.MachineryError("type enumeration of the two TLC modules disagrees")
        cases.append({"tlc": tl, "S": S["t"], "T": T["t"], "v": S["inhs"][tl["k"] - 1]})
    res = core.pmap(_runtime, [(c["T"], c["v"]) for c in cases], chunksize=64)
    counts = {"ok": 0, "aside": 0, "deviation": 0}
    aside_rejected = 0
    for c, r in zip(cases, res):
        ctx.ran()
        verdict = judge_triple(ctx, c, r["acc"], extra={"error": r["err"]})
        counts[verdict] += 1
        tl = c["tlc"]
        if verdict == "aside":
            if not r["acc"]:
                aside_rejected += 1
                kind = "fixed-length tuple arity" if tl["arity"] else "string/path does not name an existing file-system object of the kind"
                ctx.observe(f"set aside, rejected at run time: {kind}",
                            {"S": tc.type_src(c["S"]), "T": tc.type_src(c["T"]), "value": tc.show(c["v"]), "error": r["err"]})
        elif tl["s"] != tl["t"]:
            ctx.nontriv((tl["s"], tl["t"], tl["k"]))
        if verdict == "ok" and not tl["asbuilt"]:
            ctx.observe("as-built class predicted a rejection, value was accepted (another union member took it)",
                        {"S": tc.type_src(c["S"]), "T": tc.type_src(c["T"]), "value": tc.show(c["v"]), "class": tl["cls"]})
        if r["acc"] is False and r["err"] != "TypeError":
            ctx.observe(f"run-time rejection raised {r['err']} instead of TypeError",
                        {"S": tc.type_src(c["S"]), "T": tc.type_src(c["T"]), "value": tc.show(c["v"])})
    ph["runtime_s"] = round(time.time() - t1, 1)
    t1 = time.time()
    ctx.extra.update({"types": len(ids), "source_types": len(sources), "pairs_checked_statically": n_pairs,
                      "pairs_statically_accepted": len(pairs), "triples": len(cases), "triples_judged": counts["ok"] + counts["deviation"],
                      "triples_set_aside": counts["aside"], "set_aside_rejected": aside_rejected,
                      "deviations": counts["deviation"]})

    # ---- end to end: two-node workflows on a sample of judged triples ----
    # Materialisation fidelity: task bodies run in their own directory, so triples in which a
    # relative string/path meets a File/Directory type cannot be reproduced faithfully; and the
    # upstream node stores its return value under ITS declared type S first, so only values that
    # S stores unchanged reach the connection as the value TLC enumerated.
    def fs_sensitive(c):
        def has(t, ks):
            return t["k"] in ks or any(has(a, ks) for a in t["args"])

        def vhas(v, ks):
            return v["k"] in ks or any(vhas(x, ks) for x in v["items"])
        return (has(c["T"], ("file", "dir")) or has(c["S"], ("file", "dir"))) and vhas(c["v"], ("str", "path"))

    def stored_unchanged(c):
        acc, r, _ = tc.runtime_ok(c["S"], c["v"])
        return acc and r == tc.ser(tc.to_value(c["v"]))

    # a value holding a set of mixed element kinds cannot be hashed by pydra (C07/C08): the node
    # would fail for a reason that is not the connection's types
    pool = [c for c, r in zip(cases, res)
            if c["tlc"]["judged"] and c["S"]["k"] != "none" and c["tlc"]["s"] != c["tlc"]["t"]
            and not fs_sensitive(c) and not tc.mixed_set(c["v"]) and not (r["acc"] and tc.mixed_set(r["r"]))]
    n_wf = 160 if ctx.thorough else 32
    dev = [c for c in pool if not c["tlc"]["asbuilt"]]
    sample = [c for c in (ctx.rng.sample(dev, min(len(dev), n_wf // 4)) +
                          ctx.rng.sample(pool, min(len(pool), 2 * n_wf))) if stored_unchanged(c)][:n_wf]
    work = tc.workdir(ctx)
    tc.workflow_module(ctx, [(c["S"], c["T"], c["v"]) for c in sample], "verif_types_wf", base=work)
    wres = core.pmap(_wf_one, list(range(len(sample))), chunksize=2)
    obs = []
    for i, (c, w) in enumerate(zip(sample, wres)):
        ctx.ran()
        if not w["built"]:
            ctx.observe("check_type accepts the pair but workflow construction rejects the connection",
                        {"S": tc.type_src(c["S"]), "T": tc.type_src(c["T"]), "error": w["err"]})
            continue
        judge_triple(ctx, dict(c, e2e=True), w["ran"], what_prefix="workflow: ", extra={"error": w["err"]})
        if w["ran"]:
            obs.append({"id": i + 1, "q": "run", "t": c["T"], "v": c["v"], "acc": True, "r": w["seen"], "r2acc": True,
                        "r2": w["seen"], "mw": []})
    # one batch through TLC: the workflow observations and the corrupted observations of the
    # binding self-test (the validator must discriminate)
    from harness.props import C20
    verd = tc.validate(ctx, obs + C20.selftest_observations(), nshards=4 if ctx.thorough else 1, tag="wf")
    C20.selftest_judge(verd)
    for ob in obs:
        c = sample[ob["id"] - 1]
        vd = verd[ob["id"]]
        if not vd["wf"]:
            raise core.MachineryError(f"workflow observation {ob['id']} is not a well-formed spec term")
        if not vd["conforms"]:
            ctx.violation(f"workflow ran but the downstream body received a value that does not conform to its declared type: "
                          f"{tc.type_src(c['S'])} -> {tc.type_src(c['T'])}, value {tc.show(c['v'])}, received {tc.show(ob['r'])}",
                          case=dict(c, e2e=True), expected="Conforms(received, T)", observed=ob["r"])
    ph["workflows_s"] = round(time.time() - t1, 1)
    ctx.extra["workflows_run"] = len(sample)
    for c in (dev[:2] + [c for c in pool if c["S"]["k"] in ("list", "tuplev") and c["T"]["k"] in ("set", "tuplev", "list")][:2]
              + [c for c in cases if not c["tlc"]["judged"]][:1]):
        ctx.sample({"S": tc.type_src(c["S"]), "T": tc.type_src(c["T"]), "value": tc.show(c["v"]),
                    "judged": c["tlc"]["judged"], "as_built_class": c["tlc"]["cls"]})
    ctx.assume("File/Directory: whether a string/path names an existing object of the right kind is a precondition on the "
               "value, not on its type; such triples are set aside unless the value already conforms to the target")
    ctx.assume("static decision = TypeParser(T).check_type(S) with superclass_auto_cast=False (the statement's "
               "'without relying on permissive super-to-sub-class casting')")


def replay(ctx, rec):
    tc.workdir(ctx)
    case = rec["case"]
    ok_static, _ = tc.static_ok(case["S"], case["T"])
    ctx.ran()
    if not ok_static:
        print("pair is no longer statically accepted: nothing to judge")
        return
    if case.get("e2e"):
        tc.workflow_module(ctx, [(case["S"], case["T"], case["v"])], "verif_types_wf", base=tc.workdir(ctx))
        w = _wf_one(0)
        print("workflow:", w)
        if w["built"]:
            judge_triple(ctx, case, w["ran"], what_prefix="workflow: ", extra={"error": w["err"]})
        return
    r = _runtime((case["T"], case["v"]))
    print("runtime:", r)
    judge_triple(ctx, case, r["acc"], extra={"error": r["err"]})
