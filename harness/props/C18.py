"""C18 Every submission terminates.

M1 (liveness): TLC checks <>Terminated on Submitter.tla under weak fairness of the loop and
    the workers for small DAGs, every failing subset (unrunnable remainders, stall branch)
    and every K; and <>(status # "sorting") on GraphSort.tla for EVERY edge set over 3 (4)
    nodes, cycles included, together with SortedIsTopological / ErrorIffCyclic.  The as-built
    switch NoProgressCheck must make TLC report the livelock.
M2 + exploration of the real code under a time bound: TLC emits every edge set with the
    expected verdict (sorted order / error); each is built as a real workflow - every edge
    created through node input assignment, untyped and typed - and submitted in a child
    process with a hard wall-clock bound; `killed` (no outputs, no error) is the violation,
    and the verdict (outputs vs error) must be the specification's.
"""
import importlib.util
import json
import os
import signal
import shutil
import sys
import tempfile
import time
from pathlib import Path

from harness import core
from harness import sub_common as sc

LEVEL = "model_checking"


def wf_src(nodes, edges, typed):
    ty_ = "int" if typed else "ty.Any"
    lines = ["import typing as ty", "from pydra.compose import python, workflow", "",
             "@python.define", f"def Add(x: {ty_} = 1, d1: {ty_} = 0, d2: {ty_} = 0, d3: {ty_} = 0) -> {ty_}:",
             "    return x + d1 + d2 + d3", "",
             "@workflow.define(outputs=[%s])" % ", ".join(repr("o_" + n) for n in nodes), "def CW(x):"]
    for n in nodes:
        lines.append(f"    {n} = workflow.add(Add(x=x), name={n!r})")
    lines.append("    wf = workflow.this()")
    slot = {n: 0 for n in nodes}
    for (s, t) in edges:
        slot[t] += 1
        lines.append(f"    wf[{t!r}].inputs.d{slot[t]} = {s}.out")
    lines.append("    return " + ", ".join(f"{n}.out" for n in nodes))
    return "\n".join(lines) + "\n"


def run_graph(case):
    import subprocess
    base = tempfile.mkdtemp(prefix="verif_cyc_")
    out = os.path.join(base, "out.json")
    bound = case.get("bound", 40)
    json.dump({k: case[k] for k in ("nodes", "edges", "typed", "worker")}, open(os.path.join(base, "case.json"), "w"))
    proc = subprocess.Popen([core.PY, "-m", "harness.cyc_child", base], env=core.child_env(hooks=True),
                            stdout=subprocess.DEVNULL, stderr=subprocess.DEVNULL)
    try:
        try:
            proc.wait(timeout=bound)
        except subprocess.TimeoutExpired:
            proc.kill()
            proc.wait()
            subprocess.run(["pkill", "-f", base], check=False)
            return {"status": "killed", "after_s": bound}
        return json.load(open(out)) if os.path.exists(out) else {"status": "child-died"}
    finally:
        shutil.rmtree(base, ignore_errors=True)


def run_graph_robust(case):
    o = run_graph(case)
    if o["status"] == "killed":      # rule out an overloaded machine: once more, alone, 4x the time
        o = run_graph(dict(case, bound=4 * case.get("bound", 40)))
    return o


def expected_outputs(nodes, edges, order):
    val = {}
    for n in order:
        val[n] = 1 + sum(val[s] for (s, t) in edges if t == n)
    return val


def run(ctx):
    graphs = "Small" if ctx.thorough else "Quick14"
    sc.sub_mc(ctx, "c18_live", graphs, "KAll", "any", ["P:Terminates"], spec="FairSpec", workers=6)
    r = ctx.tlc("GraphSort", cfg="GraphSort4.cfg" if ctx.thorough else "GraphSort.cfg", workers=1, timeout=1500)
    cases = r.printed()
    ra = ctx.tlc("GraphSort", cfg="GraphSort_asbuilt.cfg", workers=1, must_pass=False)
    if "Temporal properties were violated" not in ra.out and "Terminates" not in ra.out:
        raise core.MachineryError("model insensitive: NoProgressCheck does not violate Terminates")
    pool = []
    for c in cases:
        for typed in (False, True):
            pool.append({"nodes": c["nodes"], "edges": c["edges"], "typed": typed, "worker": "debug", "status": c["status"], "order": c["order"]})
    cyc = [c for c in pool if c["status"] == "error"]
    acy = [c for c in pool if c["status"] == "sorted"]
    if ctx.thorough:
        pick = ctx.rng.sample(cyc, min(len(cyc), 260)) + ctx.rng.sample(acy, min(len(acy), 140))
        for c in ctx.rng.sample(cyc, 20) + ctx.rng.sample(acy, 20):
            pick.append(dict(c, worker="cf"))
    else:
        pick = ctx.rng.sample(cyc, min(len(cyc), 36)) + ctx.rng.sample(acy, min(len(acy), 20))
        pick += [dict(c, worker="cf") for c in ctx.rng.sample(cyc, 3) + ctx.rng.sample(acy, 3)]
    res = core.tmap(run_graph_robust, pick, threads=8)
    for c, o in zip(pick, res):
        ctx.ran()
        ctx.nontriv(json.dumps([c["edges"], c["typed"], c["worker"]]))
        case = {"graph": c}
        if o["status"] not in ("returned", "raised"):
            ctx.violation(f"submission neither returned nor raised ({o}); cyclic={c['status'] == 'error'}", case=case,
                          expected="outputs or error", observed=o)
        elif c["status"] == "error" and o["status"] == "returned":
            ctx.violation("a cyclic workflow returned outputs", case=case, expected="error", observed=o)
        elif c["status"] == "sorted" and o["status"] == "raised":
            if c["typed"] and "TypeError" not in o.get("error", "") and "used" in o.get("error", ""):
                ctx.observe("typed late connection refused at construction", o)
            else:
                ctx.observe("acyclic workflow with late connections raised: " + o.get("error", "")[:60], {"graph": c, "obs": o})
        elif c["status"] == "sorted":
            exp = expected_outputs(c["nodes"], [tuple(e) for e in c["edges"]], c["order"])
            if o["outputs"] != exp:
                ctx.violation("acyclic workflow with late connections returned wrong outputs", case=case, expected=exp, observed=o)
    ctx.sample({"cyclic_graph": cyc[0]["edges"], "expected": "error"})
    ctx.sample({"acyclic_graph": acy[-1]["edges"], "expected_order": acy[-1]["order"]})
    ctx.exhaustive = False
    ctx.rule = "TLC enumerates every edge set over the node set (GraphSort); sampled edge sets x typed/untyped x worker built for real; non-trivial = distinct (edge set, typing, worker)"
    ctx.extra["edge_sets"] = len(cases)
    ctx.assume("wall-clock bound 40 s (retried once with 160 s) separates 'terminates' from 'hangs'; the longest legitimate path is the stall detector (~10 s)")


def replay(ctx, rec):
    c = rec["case"]["graph"]
    o = run_graph(c)
    ctx.ran()
    print(o)
    if o["status"] not in ("returned", "raised"):
        ctx.violation("replay: submission did not terminate", case=rec["case"], observed=o)
