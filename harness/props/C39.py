"""C39 Lmod environments add module settings to the caller's environment.

Spec: LmodEnv!ChildEnv / PassThrough / SetByModules (+ the named as-built references
CallerDropped = PassThroughAsBuilt and QuoteRegex = SetByModulesAsBuilt).  TLC
(LmodEnv_Gen, mode M2) enumerates caller environments over the variables VA, VB, VP (+
AMBIENT = everything else in the process environment) x module scripts (setenv,
prepend_path, unsetenv; values over the alphabet {a, blank, ", ', backslash, =}) x
requested module lists x argument-vector variants, and prints the expected child
environment.  Replay: MODULESHOME points at a fake `libexec/lmod` printing the script's
python-style output (computed, like Lmod, from the environment it is started in); the
task's executable dumps the environment block and argv it was started with; the same task
is also run in the native environment (baseline: the child sees exactly the caller's
environment).  Real subprocesses, real Job / Submitter / Lmod.execute.
"""
import copy

from harness import core, env_common as ec

LEVEL = "model_checking"

RULE = ("TLC enumerates (quote) every value over a 6-character alphabet up to MaxLen x caller has/lacks the "
        "variable; (merge) every script of <= MaxOps operations from 7 (set/prepend/unset on 3 variables) x 8 "
        "(quick: 4) caller environments; (argv) 2 scripts x 2 module lists x 4 argv variants; distinct = initial states of "
        "LmodEnv_Gen; non-trivial = distinct (caller, script, modules, argv variant)")


def generate(ctx):
    maxlen, maxops = (3, 3) if ctx.thorough else (2, 2)
    vary = {"VA", "VB", "VP"} if ctx.thorough else {"VA", "VP"}
    sh = 8 if ctx.thorough else 1
    from concurrent.futures import ThreadPoolExecutor

    def gen(arg):
        mode, n = arg
        return ec.tlc_cases(ctx, "LmodEnv_Gen", f"c39_{mode}",
                            dict(Mode=mode, MaxLen=maxlen, MaxOps=maxops, VaryVars=vary), nshards=n, timeout=3000)

    with ThreadPoolExecutor(max_workers=3) as ex:
        parts = list(ex.map(gen, (("quote", sh), ("merge", sh), ("argv", 1))))
    return [c for part in parts for c in part]


def brief(case):
    return {"caller": {k: ec.codes_str(v) for k, v in ec.as_map(case["caller"]).items() if k != "AMBIENT"},
            "script": [(o["op"], o["var"], ec.codes_str(o["val"])) for o in case["script"]],
            "modules": [ec.codes_str(m) for m in case["mods"]], "argv_variant": case["av"]}


def apply_verdicts(ctx, case, obs):
    if obs.get("native_ok") is not True:
        # the baseline is part of the machinery: without it the dump/projection cannot be trusted
        raise core.MachineryError(f"native baseline failed: {obs.get('native_ok')} on {brief(case)}")
    for v in ec.lmod_verdicts(case, obs):
        if v["part"] == "argv" and v["note"]:
            ctx.observe(v["note"], brief(case))
        ctx.judge(v["ok"], f"{v['part']}: {v['what']}", case={"tlc": case}, expected=v["expected"],
                  observed=v["observed"], known_id=v["known_id"], asbuilt=v["asbuilt"],
                  readable=brief(case), lmod_log=obs.get("lmod_log"), note=v["note"])
    for var, val in obs.get("open", {}).items():
        state = "absent" if val == case["absent"] else ("empty" if val == [] else "set")
        ctx.observe(f"variable unset by a module is {state} in the child (not decided by the statement)", brief(case))


def status(v):
    if v["ok"]:
        return "ok"
    return "asbuilt" if v["asbuilt"] is not None and v["observed"] == v["asbuilt"] else "violation"


def selftest(ctx, cases, mh):
    """Binding self-test on a real observation: whatever the verdict of a part is (agreement with
    the design or with the named as-built reference), it must turn into a violation when the
    expected value (and its as-built companion) is corrupted."""
    case = next((c for c in cases if ec.as_map(c["setby"]).get("VA") not in (None, c["absent"])
                 and ec.as_map(c["pass"]).get("VB") not in (None, c["absent"])), None)
    if case is None:
        raise core.MachineryError("selftest: no suitable case")
    (_, obs), = ec.lmod_run_group(([case], str(ctx.scratch), str(mh)))
    if obs.get("native_ok") is not True or "err" in obs:
        return  # reported by the main loop
    base = {v["part"]: status(v) for v in ec.lmod_verdicts(case, obs)}
    bad = copy.deepcopy(case)
    for key in ("setby", "setbyAB"):
        bad[key] = ec.as_map(bad[key])
        bad[key]["VA"] = list(bad[key]["VA"]) + [33]
    for key in ("pass", "passAB"):
        bad[key] = ec.as_map(bad[key])
        bad[key]["VB"] = [33, 33]
    bad["argv"] = bad["argv"] + ["extra"]
    after = {v["part"]: status(v) for v in ec.lmod_verdicts(bad, obs)}
    for part in ("argv", "pass", "setby"):
        if base[part] != "violation" and after[part] != "violation":
            raise core.MachineryError(f"selftest: corrupted expected value ({part}) was not noticed")


def run(ctx):
    ec.isolate_hash_cache(ctx)
    mh = ec.lmod_setup(ctx.scratch)
    cases = generate(ctx)
    selftest(ctx, cases, mh)
    ctx.rule = RULE
    ctx.exhaustive = True
    ctx.assume("no Lmod in the sandbox: $MODULESHOME/libexec/lmod is harness/fakes/lmod, which prints what Lmod's "
               "`python` shell prints (Lua %q quoting; os.environ[..] = '' + del for unsetenv; LOADEDMODULES)")
    ctx.assume("AMBIENT = all variables of the harness process other than VA, VB, VP, LOADEDMODULES; the child "
               "environment is read from /proc/self/environ of the task's executable")
    groups = ec.lmod_groups(cases)
    res = core.pmap(ec.lmod_run_group, [(g, str(ctx.scratch), str(mh)) for g in groups],
                    procs=ec.workers(), chunksize=1)
    n = 0
    for out in res:
        for case, obs in out:
            n += 1
            ctx.ran()
            ctx.nontriv(str(brief(case)))
            apply_verdicts(ctx, case, obs)
    if n != len(cases):
        raise core.MachineryError(f"replayed {n} of {len(cases)} cases")
    picks = ([c for c in cases if c["script"] and ec.as_map(c["setby"]) == ec.as_map(c["setbyAB"])][:2]
             + [c for c in cases if ec.as_map(c["setby"]) != ec.as_map(c["setbyAB"])][:2])
    for c in picks:
        ctx.sample({**brief(c), "expected_pass_through": {k: ec.codes_str(v) if v != c["absent"] else None
                                                          for k, v in ec.as_map(c["pass"]).items()},
                    "expected_set_by_modules": {k: ec.codes_str(v) for k, v in ec.as_map(c["setby"]).items()},
                    "expected_argv": c["argv"]})
    ctx.extra["cases_quote_fragile"] = sum(1 for c in cases if ec.as_map(c["setby"]) != ec.as_map(c["setbyAB"]))


def replay(ctx, rec):
    ec.isolate_hash_cache(ctx)
    mh = ec.lmod_setup(ctx.scratch)
    case = rec["case"]["tlc"]
    (_, obs), = ec.lmod_run_group(([case], str(ctx.scratch), str(mh)))
    ctx.ran()
    print("replay case:", brief(case))
    print("replay observation:", {k: v for k, v in obs.items()})
    apply_verdicts(ctx, case, obs)
