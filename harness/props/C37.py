"""C37 Graph operations keep a valid topological order (history property).

Spec: specs/DiGraphSpec.tla - a state machine over (nodes, edges, wip, sorted) with the
actions AddNodes, AddEdges (acyclicity-preserving), RemoveNodes, RemoveConnections,
RemoveSuccessors, Sort, Copy.
 M1  TLC checks the design exhaustively (N = 3 quick / 4 thorough; every valid order may
     be chosen at every step): SortedValid (the statement), AcyclicInv, OrderExists,
     WipReady, IncrementalLemmas; -coverage proves that every action fired.
 M3  specs/DiGraphSpec_Gen.tla adds a history variable; TLC enumerates every behaviour
     (BFS from the empty graph and from every DAG on <= N nodes) and samples long ones
     (-simulate, 12 steps on 6 nodes, one- and two-element argument lists).  Every step
     carries the spec state and the precedence pairs the sorted list must respect.
 Replay: every behaviour is executed step by step on a real pydra.engine.graph.DiGraph of
     stub nodes; after each step the projected state (nodes, edges, work-in-progress,
     predecessors, successors) is compared with the spec state and sorted_nodes is
     checked against the spec's constraints.
 M4  the recorded real runs (observed sorted lists) are handed back to TLC
     (specs/DiGraphSpec_Trace.tla), which re-executes the spec actions and decides
     IsValidOrder for every observed list with the spec's own operator.
 Known deviation: remove_successors_nodes can spin forever inside DiGraph.sorting.  The
     replay uses a DiGraph subclass whose only change is to raise when a sorting round
     makes no progress (= the real loop never ends).  Such a run is handed to TLC together
     with the lists the real graph held before the call; the named as-built model
     RmsAsBuilt (DiGraphSpec_Trace) predicts completes / diverges / raises, and
     ctx.judge(..., known_id="C37-remove-successors", asbuilt=<prediction>) decides.
"""
import json
import random
from concurrent.futures import ThreadPoolExecutor

from harness import core

LEVEL = "model_checking"
ACTIONS = ["AddNodes", "AddEdges", "RemoveNodes", "RemoveConnections", "RemoveSuccessors", "Sort", "Copy"]


# ------------------------------------------------------------------ TLC side
def m1_cfg(ctx, n):
    p = ctx.scratch / f"digraph_m1_{n}.cfg"
    p.write_text(f"""SPECIFICATION Spec
CONSTANTS
  N = {n}
INVARIANT TypeOK
INVARIANT SortedValid
INVARIANT AcyclicInv
INVARIANT OrderExists
INVARIANT WipReady
INVARIANT IncrementalLemmas
CHECK_DEADLOCK FALSE
""")
    return p


def gen_cfg(ctx, name, n, depth, maxlist, sym, sim, start, shard=0, nshards=1):
    p = ctx.scratch / f"{name}.cfg"
    p.write_text(f"""INIT GInit
NEXT GNext
CONSTANTS
  N = {n}
  Depth = {depth}
  MaxList = {maxlist}
  Sym = {"TRUE" if sym else "FALSE"}
  Sim = {"TRUE" if sim else "FALSE"}
  Start = "{start}"
  Shard = {shard}
  NShards = {nshards}
  Orders <- CanonOrders
INVARIANT EmitH
INVARIANT GenInv
CHECK_DEADLOCK FALSE
""")
    return p


def histories(r, expect_states=False):
    hs = [x["h"] for x in r.printed() if "h" in x]
    if not hs:
        raise core.MachineryError("DiGraphSpec_Gen printed no behaviour")
    return hs


def design_check(ctx, n, simulate=None):
    if simulate:
        r = ctx.tlc("DiGraphSpec", cfg=m1_cfg(ctx, n), workers=4, simulate=simulate, depth=14, seed=ctx.seed,
                    timeout=3000)
        return r
    r = ctx.tlc("DiGraphSpec", cfg=m1_cfg(ctx, n), workers=8, coverage=True, timeout=3000)
    ctx.require_coverage(r, ACTIONS)
    ctx.extra.setdefault("design_check", {})[f"N={n}"] = {"distinct_states": r.distinct, "generated": r.generated}
    return r


def bfs(ctx, n, depth, start, nshards=1):
    def one(sh):
        cfg = gen_cfg(ctx, f"digraph_bfs_{start}_{n}_{depth}_{sh}", n, depth, 1, True, False, start, sh, nshards)
        return histories(ctx.tlc("DiGraphSpec_Gen", cfg=cfg, workers=1, timeout=3000))

    if nshards == 1:
        return one(0)
    with ThreadPoolExecutor(max_workers=min(nshards, 8)) as ex:
        return [h for hs in ex.map(one, range(nshards)) for h in hs]


def simulate(ctx, n, depth, num, seed):
    cfg = gen_cfg(ctx, f"digraph_sim_{n}_{depth}_{seed}", n, depth, 2, False, True, "empty")
    r = ctx.tlc("DiGraphSpec_Gen", cfg=cfg, workers=1, simulate=f"num={num}", depth=depth + 2, seed=seed,
                timeout=3000)
    return histories(r)


# ------------------------------------------------------------------ real code
class Stub:
    """what DiGraph needs of a node: a name (and a state attribute for the dot files)"""

    def __init__(self, name):
        self.name = name
        self.state = None

    def __repr__(self):
        return self.name


def nm(i):
    return f"n{i}"


class Diverges(Exception):
    """DiGraph.sorting can make no progress: its `while notsorted_nodes` loop would spin forever."""


_WATCHED = []


def watched_digraph():
    """The real DiGraph with one observation point: DiGraph.sorting loops `while notsorted_nodes`, calling
    _sorting once per round; a round that sorts nothing leaves the loop state unchanged, i.e. the real
    call never returns.  The subclass turns exactly that situation into an exception (nothing else differs)."""
    if not _WATCHED:
        from pydra.engine.graph import DiGraph

        class WatchedDiGraph(DiGraph):
            def _sorting(self, notsorted_list, predecessors):
                part, rest = super()._sorting(notsorted_list, predecessors)
                if not part and rest:
                    raise Diverges(f"no node of {rest} is free of predecessors")
                return part, rest

        _WATCHED.append(WatchedDiGraph)
    return _WATCHED[0]


def lists_of(g, n):
    """the lists the graph holds (input of the as-built model), indexed by node id 1..n"""
    ids = lambda seq: [int(x.name[1:]) for x in seq]  # noqa
    return {"sorted": ids(g.sorted_nodes), "nodes": ids(g.nodes), "wip": ids(g._node_wip),
            "succ": [ids(g.successors.get(nm(i), [])) for i in range(1, n + 1)],
            "pred": [ids(g.predecessors.get(nm(i), [])) for i in range(1, n + 1)]}


def project(g):
    return {"nodes": [n.name for n in g.nodes],
            "edges": [[a.name, b.name] for a, b in g.edges],
            "wip": [n.name for n in g._node_wip],
            "pred": {k: [n.name for n in v] for k, v in g.predecessors.items()},
            "succ": {k: [n.name for n in v] for k, v in g.successors.items()},
            "sorted": [n.name for n in g.sorted_nodes]}


def expected_of(step):
    """projection of the spec state (all values computed by TLC) into the names used above"""
    ns = sorted(nm(i) for i in step["ns"])
    es = sorted([nm(a), nm(b)] for a, b in step["es"])
    w = sorted(nm(i) for i in step["w"])
    return {"nodes": ns, "edges": es, "wip": w,
            "pred": {n: sorted(a for a, b in es if b == n) for n in ns},
            "succ": {n: sorted(b for a, b in es if a == n) for n in ns + w},
            "before": sorted([nm(a), nm(b)] for a, b in step["before"])}


def compare(exp, obs):
    """-> None or the name of the first disagreement"""
    if sorted(obs["nodes"]) != exp["nodes"] or len(set(obs["nodes"])) != len(obs["nodes"]):
        return "nodes"
    if sorted(obs["edges"]) != exp["edges"] or len(obs["edges"]) != len(exp["edges"]):
        return "edges"
    if sorted(obs["wip"]) != exp["wip"]:
        return "work-in-progress nodes"
    for n, ps in exp["pred"].items():
        if sorted(obs["pred"].get(n, ["<missing>"])) != ps:
            return f"predecessors[{n}]"
    for n, ss in exp["succ"].items():
        if sorted(obs["succ"].get(n, ["<missing>"])) != ss:
            return f"successors[{n}]"
    s = obs["sorted"]
    if sorted(s) != exp["nodes"]:
        return "sorted list is not a permutation of the remaining nodes"
    pos = {n: i for i, n in enumerate(s)}
    for a, b in exp["before"]:
        if pos[a] >= pos[b]:
            return f"sorted list places {b} before its predecessor {a}"
    return None


def replay_history(hist, variant):
    """variant: dict(scalar=bool, ctor=bool).  -> dict(verdict, step, what, trace)"""
    DiGraph = watched_digraph()
    nmax = max([1] + [i for st in hist for i in st["ns"] + st["w"]])
    pool = {}

    def node(i):
        return pool.setdefault(i, Stub(nm(i)))

    def arg(xs):
        vals = [node(i) for i in xs]
        return vals[0] if (len(vals) == 1 and variant["scalar"]) else vals

    trace = []
    start = 0
    g = None
    if variant["ctor"]:
        # the leading additions are handed to the constructor instead
        while start < len(hist) and hist[start]["a"] in ("addn", "adde"):
            start += 1
        if start:
            ns = [node(i) for st in hist[:start] if st["a"] == "addn" for i in st["x"]]
            es = [(node(a), node(b)) for st in hist[:start] if st["a"] == "adde" for a, b in st["x"]]
            # the constructor wants the nodes of every connection to be present already: the prefix
            # guarantees it only as a whole, which is what is handed over
            g = DiGraph(name="g", nodes=ns, edges=es)
            obs = project(g)
            bad = compare(expected_of(hist[start - 1]), obs)
            trace.append({"i": start - 1, "a": "ctor", "obs": obs, "out": "completes", "pre": None})
            if bad:
                return {"verdict": "mismatch", "step": start - 1, "what": f"constructor: {bad}", "trace": trace}
    if g is None:
        g = DiGraph(name="g")
        start = 0
    originals = []
    pre = None
    for i in range(start, len(hist)):
        st = hist[i]
        a, x = st["a"], st["x"]
        try:
            if a == "addn":
                g.add_nodes(arg(x))
            elif a == "adde":
                es = [(node(p), node(q)) for p, q in x]
                g.add_edges(es[0] if (len(es) == 1 and variant["scalar"]) else es)
            elif a == "rmn":
                g.remove_nodes(arg(x))
            elif a == "rmc":
                g.remove_nodes_connections(arg(x))
            elif a == "rms":
                pre = lists_of(g, nmax)
                g.remove_successors_nodes(node(x[0]))
            elif a == "sort":
                g.sorting()
            elif a == "copy":
                originals.append((g, project(g)))
                g = g.copy()
            else:
                raise core.MachineryError(f"unknown step {a}")
            obs = project(g)
        except core.MachineryError:
            raise
        except Exception as e:  # noqa
            out = "diverges" if isinstance(e, Diverges) else "raises"
            what = f"{a}{x} {out}: {type(e).__name__}: {str(e)[:80]}"
            if st["open"] and out == "raises":
                return {"verdict": "open-raised", "step": i, "what": what, "trace": trace}
            trace.append({"i": i, "a": a, "obs": None, "out": out, "pre": pre if a == "rms" else None})
            return {"verdict": out, "step": i, "what": what, "trace": trace}
        trace.append({"i": i, "a": a, "obs": obs, "out": "completes", "pre": pre if a == "rms" else None})
        bad = compare(expected_of(st), obs)
        if bad:
            return {"verdict": "mismatch", "step": i, "what": f"after {a}{x}: {bad}", "trace": trace}
    shared = sum(1 for g0, snap in originals if project(g0) != snap)
    return {"verdict": "ok", "step": len(hist), "what": "", "trace": trace, "copies_not_independent": shared}


def variant_for(k):
    return {"scalar": bool(k & 1), "ctor": bool(k & 2)}


def run_one(arg):
    k, hist, keep = arg
    r = replay_history(hist, variant_for(k))
    if not keep and r["verdict"] in ("ok", "open-raised"):
        r.pop("trace")
        r["sorted_trace"] = None
        return r
    # the trace is only needed for the M4 pass: keep the observed sorted lists
    r["sorted_trace"] = [[t["i"], t["obs"]["sorted"] if t["obs"] else None, t["out"], t["pre"]] for t in r.pop("trace")]
    return r


# ------------------------------------------------------------------ M4: TLC validates the recorded runs
KNOWN_ID = "C37-remove-successors"
MAX_RECORDED = 8


def validate_with_tlc(ctx, hists, results, nmax_ok):
    """Real runs -> TLC (DiGraphSpec_Trace).  For complete runs the spec's IsValidOrder decides every observed
    sorted list; for a run whose remove_successors_nodes call did not complete, TLC evaluates the named as-built
    model RmsAsBuilt on the lists the real graph held before the call and returns its prediction."""
    ok_idx = [i for i, r in enumerate(results) if r["verdict"] == "ok" and r["sorted_trace"] is not None][:nmax_ok]
    dev_idx = [i for i, r in enumerate(results) if r["verdict"] in ("diverges", "raises")]
    idx = sorted(ok_idx + dev_idx)
    n = max([1] + [j for h in hists for s in h for j in s["ns"] + s["w"]])
    empty_pre = {"sorted": [], "nodes": [], "wip": [], "succ": [[] for _ in range(n)], "pred": [[] for _ in range(n)]}
    path = ctx.scratch / "digraph_traces.ndjson"
    with open(path, "w") as f:
        for i in idx:
            st = {t[0]: t for t in results[i]["sorted_trace"]}
            ev = []
            for j, s in enumerate(hists[i]):
                if j > results[i]["step"]:
                    break
                t = st.get(j)
                seen = t is not None and t[1] is not None
                pre = dict(t[3]) if (t and t[3]) else dict(empty_pre)
                for k in ("succ", "pred"):  # pad to the N of this TLC run
                    pre[k] = list(pre[k]) + [[] for _ in range(n - len(pre[k]))]
                ev.append({"a": s["a"], "x": s["x"], "seen": seen,
                           "sorted": [int(v[1:]) for v in t[1]] if seen else [],
                           "out": t[2] if t else "completes", "pre": pre})
            f.write(json.dumps({"tid": i, "ev": ev}) + "\n")
    cfg = ctx.scratch / "digraph_trace.cfg"
    cfg.write_text(f"""INIT TInit
NEXT TNext
CONSTANTS
  N = {n}
  Orders <- CanonOrders
INVARIANT Report
CHECK_DEADLOCK FALSE
""")
    r = ctx.tlc("DiGraphSpec_Trace", cfg=cfg, workers=1, env={"TRACE_FILE": str(path)}, timeout=3000)
    verdicts = {}
    for line in r.tuples("VERDICT"):
        parts = [x.strip().strip('"') for x in line.strip().strip("<>").split(",")]
        verdicts[int(parts[1])] = (parts[2], int(parts[3]))
    if len(verdicts) != len(idx):
        raise core.MachineryError(f"trace validation returned {len(verdicts)} verdicts for {len(idx)} traces")
    order = sorted(range(len(idx)), key=lambda k: (results[idx[k]]["step"], len(hists[idx[k]][min(results[idx[k]]["step"], len(hists[idx[k]]) - 1)]["es"])))
    for k in order:
        i = idx[k]
        v, l = verdicts[k + 1]
        res, h = results[i], hists[i]
        if v == "accepted":
            continue
        short = [(s["a"], s["x"]) for s in h[: res["step"] + 1]]
        if v == "asbuilt-inexact":
            ctx.observe("as-built model RmsAsBuilt predicted a failure for a call that completed", {"h": short})
            ctx.extra["asbuilt_inexact"] = ctx.extra.get("asbuilt_inexact", 0) + 1
            continue
        case = {"tlc": h, "variant": i % 4}
        if v.startswith("asbuilt-"):
            pred = v[len("asbuilt-"):]
            listed = ctx.known.get(KNOWN_ID, {}).get("status") == "known"
            if not (listed and pred == res["verdict"]):
                ctx.extra["deviating_runs"] = ctx.extra.get("deviating_runs", 0) + 1
                if ctx.extra.get("violations_recorded", 0) >= MAX_RECORDED:
                    ctx.extra["violations_not_recorded"] = ctx.extra.get("violations_not_recorded", 0) + 1
                    continue
                ctx.extra["violations_recorded"] = ctx.extra.get("violations_recorded", 0) + 1
            ctx.judge(False, f"remove_successors_nodes does not complete ({res['what']}); history {short}",
                      case=case, expected="completes: " + json.dumps(expected_of(h[res["step"]])),
                      observed=res["verdict"], known_id=KNOWN_ID, asbuilt=pred)
            continue
        ctx.violation(f"TLC verdict '{v}' for the recorded run at event {l}: {res['what']}",
                      case=case, expected="every event is a DiGraphSpec step and every observed sorted list "
                      "satisfies IsValidOrder", observed=res["sorted_trace"][-2:])
    ctx.extra["runs_validated_by_tlc"] = len(idx)
    return len(idx)


def selftest():
    """Binding self-test: corrupted expectations must be noticed by the comparison."""
    hist = [{"a": "addn", "x": [1, 2], "open": False, "ns": [1, 2], "es": [], "w": [], "before": []},
            {"a": "adde", "x": [[2, 1]], "open": False, "ns": [1, 2], "es": [[2, 1]], "w": [], "before": [[2, 1]]}]
    if replay_history(hist, variant_for(0))["verdict"] != "ok":
        return  # a real disagreement: the run will report it
    for mut in ("before", "es", "ns"):
        bad = json.loads(json.dumps(hist))
        if mut == "before":
            bad[1]["before"] = [[1, 2]]
        elif mut == "es":
            bad[1]["es"] = []
            bad[1]["before"] = []
        else:
            bad[1]["ns"] = [1]
        if replay_history(bad, variant_for(0))["verdict"] == "ok":
            raise core.MachineryError(f"selftest: corrupted expected '{mut}' not noticed")


def run(ctx):
    selftest()
    ctx.rule = ("M1: distinct states of DiGraphSpec explored exhaustively with all invariants; M3: TLC-generated "
                "behaviours (BFS over paths from the empty graph and from every DAG, plus -simulate samples of 12 "
                "steps on 6 nodes); an evaluation = one behaviour replayed step by step on a real DiGraph in one of "
                "4 call variants (scalar/list arguments x incremental/constructor build-up); non-trivial = behaviour "
                "with at least one removal and one connection")
    th = ctx.thorough
    with ThreadPoolExecutor(max_workers=5) as ex:
        f_m1 = ex.submit(design_check, ctx, 4 if th else 3)
        f_b1 = ex.submit(bfs, ctx, 3, 6 if th else 5, "empty")
        f_b2 = ex.submit(bfs, ctx, 4, 3 if th else 2, "dags", 12 if th else 2)
        sims = [ex.submit(simulate, ctx, 6, 12, 300 if th else 60, ctx.seed * 100 + k) for k in range(2 if th else 1)]
        f_m1s = ex.submit(design_check, ctx, 5, "num=200") if th else None
        f_m1.result()
        if f_m1s:
            f_m1s.result()
        groups = [("bfs-empty", f_b1.result()), ("bfs-dags", f_b2.result())]
        groups.append(("simulate", [h for f in sims for h in f.result()]))
    hists = [h for _, hs in groups for h in hs]
    ctx.extra["behaviours"] = {k: len(v) for k, v in groups}
    ctx.exhaustive = True
    n_m4 = 3000 if th else 200
    keep = set(ctx.rng.sample(range(len(hists)), min(len(hists), 2 * n_m4)))
    results = core.pmap(run_one, [(k, h, k in keep) for k, h in enumerate(hists)], chunksize=64)
    n_open = 0
    for i, (h, r) in enumerate(zip(hists, results)):
        ctx.ran()
        kinds = {s["a"] for s in h}
        if kinds & {"rmn", "rmc", "rms"} and "adde" in kinds:
            ctx.nontrivial_extra += 1  # behaviours are pairwise distinct (distinct TLC states / sampled paths)
        if r["verdict"] == "ok":
            if r.get("copies_not_independent"):
                ctx.observe("a graph changed after copy() was taken from it", {"h": [(s["a"], s["x"]) for s in h]})
            continue
        if r["verdict"] in ("diverges", "raises") and h[r["step"]]["a"] == "rms":
            continue  # classified below by TLC (as-built model) and judged there
        if r["verdict"] == "open-raised":
            n_open += 1
            ctx.observe("add_edges while a removed node still has connections raises (not decided by the statement)",
                        {"h": [(s["a"], s["x"]) for s in h[: r["step"] + 1]], "error": r["what"]})
            continue
        if len(ctx.violations) >= 12:
            ctx.extra["violations_not_recorded"] = ctx.extra.get("violations_not_recorded", 0) + 1
            continue
        ctx.violation(f"DiGraph disagrees with DiGraphSpec at step {r['step']}: {r['what']}",
                      case={"tlc": h, "variant": i % 4}, expected=expected_of(h[min(r["step"], len(h) - 1)]),
                      observed=r["what"])
    ctx.extra["behaviours_truncated_at_open_step"] = n_open
    validate_with_tlc(ctx, hists, results, n_m4)
    for h in [h for h in hists if {"rmn", "rmc", "adde"} <= {s["a"] for s in h}][:3]:
        ctx.sample({"behaviour": [(s["a"], s["x"]) for s in h], "final_nodes": h[-1]["ns"], "final_edges": h[-1]["es"],
                    "must_precede": h[-1]["before"]})
    ctx.assume("node objects are stubs with a name; connections are only requested between nodes of the graph "
               "and never close a cycle; nodes are removed only when no predecessor is left (the documented protocol)")


def replay(ctx, rec):
    h = rec["case"]["tlc"]
    r = replay_history(h, variant_for(rec["case"].get("variant", 0)))
    ctx.ran()
    print("replay verdict:", r["verdict"], r["step"], r["what"])
    if r["verdict"] in ("ok", "open-raised"):
        return
    if r["verdict"] in ("diverges", "raises") and h[r["step"]]["a"] == "rms":
        r["sorted_trace"] = [[t["i"], t["obs"]["sorted"] if t["obs"] else None, t["out"], t["pre"]] for t in r.pop("trace")]
        validate_with_tlc(ctx, [h], [r], 0)
        return
    ctx.violation(f"replay: DiGraph disagrees with DiGraphSpec at step {r['step']}: {r['what']}",
                  case=rec["case"], expected=rec.get("expected"), observed=r["what"])
