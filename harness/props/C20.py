"""C20 Accepted field values conform to the declared type.

Spec: TypeCoerce (Conforms, StrSeqConfusion, SameVal, Inhabitants, ReAsBuilt).
TLC (TypeCoerce_Gen, mode M2) enumerates (type, value) pairs: every type of the bounded
grammar crossed with a value menu drawn from inside and outside the type plus the type's
own inhabitants.  Each pair is offered to the real code at three sites -- the bare
`TypeParser(type)`, a generated task field at construction, the same field at attribute
assignment -- and each accepted result is offered again through the same route.  The
observations (stored value serialised back into the spec's tagged records) go back through
TLC (TypeCoerce_Check, mode M4), which evaluates

    accepted => Conforms(result, type) /\\ ~StrSeqConfusion(value, result)
                /\\ the second coercion is accepted and returns the same value

so `Conforms` lives only in TLA+.  "Rejected when assigned, not when the task runs": a
sample of accepted pairs is run as a task; TLC checks the body received the stored value.
"""
import time

from harness import core, types_common as tc

LEVEL = "model_checking"

KNOWN_UNION = "C20-union-order"


# ---------------------------------------------------------------------------------------
def _observe(args):
    (t, v, fi) = args
    klass = getattr(tc._MODS["verif_types_fields"], f"F{fi}") if fi is not None else None
    return tc.coerce_sites(t, v, klass)


def _run_one(args):
    (t, v, fi) = args
    klass = getattr(tc._MODS["verif_types_fields"], f"F{fi}")
    return tc.run_field_task(klass, v)


def _obs_record(oid, q, t, v, o):
    return {"id": oid, "q": q, "t": t, "v": v, "acc": o["acc"], "r": o["r"], "r2acc": o["r2acc"],
            "r2": o["r2"], "mw": o["mw"]}


def judge_verdict(ctx, vd, case, o, count=True):
    """Turn one TLC verdict line into harness verdicts.  Returns list of failed clauses."""
    failed = []
    if not vd["wf"]:
        raise core.MachineryError(f"observation {vd['id']} is not a well-formed spec term: {case} {o}")
    if not o["acc"]:
        return failed
    if tc.capped(ctx) and not (vd["conforms"] and vd["noconfusion"] and vd["idem"]):
        return ["capped"]
    what = f"{case['site']}: type {tc.type_src(case['tlc']['t'])}, value {tc.show(case['tlc']['v'])}"
    if not vd["conforms"]:
        failed.append("conforms")
        ctx.violation(f"accepted value stored as a non-conforming value; {what} -> {tc.show(o['r'])}",
                      case=case, expected="Conforms(result, type)", observed=o)
    if not vd["noconfusion"]:
        failed.append("noconfusion")
        ctx.violation(f"string/sequence confusion; {what} -> {tc.show(o['r'])}",
                      case=case, expected="~StrSeqConfusion(value, result)", observed=o)
    if not vd["idem"]:
        failed.append("idem")
        q = case.get("q", "coerce")
        observed = {"r2acc": o["r2acc"], "r2": o["r2"]}
        expected = {"r2acc": True, "r2": o["r"]}
        if q == "run":
            ctx.violation(f"accepted at assignment but the run failed / the body saw another value; {what}: "
                          f"stored {tc.show(o['r'])}, ran={o['r2acc']} saw {tc.show(o['r2'])} {o.get('err2', '')}",
                          case=case, expected=expected, observed=observed)
        else:
            asbuilt = None
            if vd["hasunion"] and o["mw"]:
                # observed == as-built prediction is decided by TLC (SameVal, set order free)
                asbuilt = observed if vd["abmatch"] else {"r2acc": vd["ab"]["acc"], "r2": vd["ab"]["r"]}
            ctx.judge(False,
                      f"coercing the stored value again does not leave it unchanged; {what}: stored "
                      f"{tc.show(o['r'])}, again -> " + (tc.show(o["r2"]) if o["r2acc"] else f"rejected ({o.get('err2')})"),
                      case=case, expected=expected, observed=observed, known_id=KNOWN_UNION, asbuilt=asbuilt)
    return failed


SELFTEST_BASE = 10 ** 6


def selftest_observations():
    """Corrupted observations the binding must notice: a conforming result replaced by a
    non-conforming one, a split string, a joined list, a changed second result, and a wrong
    as-built prediction must each flip the corresponding TLC verdict."""
    T = lambda k, *a: {"k": k, "args": list(a)}
    V = lambda k, c=(), items=(): {"k": k, "c": list(c), "items": list(items)}
    B = SELFTEST_BASE
    li = T("list", T("int"))
    good = {"id": B + 1, "q": "coerce", "t": li, "v": V("tuple", items=[V("int", [1])]), "acc": True,
            "r": V("list", items=[V("int", [1])]), "r2acc": True, "r2": V("list", items=[V("int", [1])]), "mw": []}
    bad_conf = dict(good, id=B + 2, r=V("list", items=[V("str", [97])]), r2=V("list", items=[V("str", [97])]))
    bad_split = dict(good, id=B + 3, t=T("list", T("str")), v=V("str", [97, 98]),
                     r=V("list", items=[V("str", [97]), V("str", [98])]),
                     r2=V("list", items=[V("str", [97]), V("str", [98])]))
    bad_idem = dict(good, id=B + 4, r2=V("list", items=[V("int", [2])]))
    bad_join = dict(good, id=B + 5, t=T("str"), v=V("list", items=[V("str", [97])]), r=V("str", [97]), r2=V("str", [97]))
    un = T("union", T("str"), T("path"))
    drift = {"id": B + 6, "q": "coerce", "t": un, "v": V("path", [97]), "acc": True, "r": V("path", [97]),
             "r2acc": True, "r2": V("str", [97]),
             "mw": [{"p": [1], "acc": True, "abort": False, "r": V("str", [97])},
                    {"p": [2], "acc": True, "abort": False, "r": V("path", [97])}]}
    drift_other = dict(drift, id=B + 7, r2=V("str", [98]))
    return [good, bad_conf, bad_split, bad_idem, bad_join, drift, drift_other]


def selftest_judge(vs):
    B = SELFTEST_BASE
    exp = {1: (True, True, True), 2: (False, True, True), 3: (True, False, True), 4: (True, True, False),
           5: (True, False, True), 6: (True, True, False), 7: (True, True, False)}
    for i, e in exp.items():
        got = (vs[B + i]["conforms"], vs[B + i]["noconfusion"], vs[B + i]["idem"])
        if got != e:
            raise core.MachineryError(f"binding self-test failed on observation {i}: TLC said {got}, must say {e}")
    if not vs[B + 6]["abmatch"] or vs[B + 7]["abmatch"] or vs[B + 1]["abmatch"]:
        raise core.MachineryError("binding self-test failed: as-built prediction matching is not discriminating")


def selftest(ctx):
    selftest_judge(tc.validate(ctx, selftest_observations(), tag="selftest"))


# ---------------------------------------------------------------------------------------
def run(ctx):
    tc.workdir(ctx)
    ph = ctx.extra.setdefault("phase_wall_s", {})
    t1 = time.time()
    if ctx.thorough:
        plan = [("d1", sh, 4) for sh in range(4)] + [("d2", sh, 12) for sh in range(12)] + [("d3opt", 0, 1)]
        ctx.exhaustive = True
        n_run = 400
    else:
        nsh = 24
        plan = [("d1", sh, 6) for sh in range(6)] + [("d2", ctx.seed % nsh, nsh), ("d3opt", 0, 1)]
        ctx.exhaustive = False
        ctx.extra["exhaustive_part"] = ("all atom and depth-1 types x the whole value menu; depth-2 types: 1 of 24 "
                                        "slices chosen by seed")
        n_run = 64
    cases = tc.generate_plan(ctx, "pairs", plan)
    ctx.rule = ("TLC enumerates (type, value) pairs: every type of the bounded grammar (9 atoms, Optional/Union/list/"
                "tuple[..,...]/tuple[.,.]/dict[str,.]/set/MultiInputObj over them, depth 2 over int/float/str/File) x "
                "(value menu of atoms and containers to depth 2 + the type's own inhabitants); distinct = initial states "
                "of TypeCoerce_Gen; non-trivial = the value is accepted at some site")
    # distinct types -> generated task fields
    tkeys, types = {}, []
    for c in cases:
        k = tc.type_src(c["t"])
        if k not in tkeys:
            tkeys[k] = len(types)
            types.append(c["t"])
    ph["tlc_generate_s"] = round(time.time() - t1, 1)
    t1 = time.time()
    tc.field_module(ctx, types)
    jobs = [(c["t"], c["v"], tkeys[tc.type_src(c["t"])]) for c in cases]
    results = core.pmap(_observe, jobs, chunksize=64)
    ph["replay_s"] = round(time.time() - t1, 1)
    t1 = time.time()

    # group the sites of one pair that observed the same thing; only ACCEPTED observations carry
    # anything for the spec to evaluate (the statement is about accepted values; that a rejection
    # happened at assignment is the observation itself)
    observations, index = [], []     # index[i] = (case, observation, [sites], obs id | None)
    accepted_pairs = []
    for c, sites in zip(cases, results):
        seen = {}
        for o in sites:
            ctx.ran()
            if o["acc"] and o["site"] == "field_init":
                accepted_pairs.append((c, o["r"]))
            key = tc.json.dumps([o["acc"], o["err"], o["r"], o["r2acc"], o["r2"], o["mw"]], sort_keys=True)
            if key in seen:
                index[seen[key]][2].append(o["site"])
                continue
            oid = None
            if o["acc"]:
                oid = len(observations) + 1
                observations.append(_obs_record(oid, "coerce", c["t"], c["v"], o))
            seen[key] = len(index)
            index.append((c, o, [o["site"]], oid))
    n_coerce = len(observations)

    # run stage: accepted at construction => the task runs and its body receives the stored value
    runnable = [c for c, r in accepted_pairs if not tc.mixed_set(c["v"]) and not tc.mixed_set(r)]
    if len(runnable) < len(accepted_pairs):
        ctx.observe("run stage leaves out values holding a set of mixed element kinds: pydra cannot hash them "
                    "(sorted() in bytes_repr_set -- a cache-identity matter, properties C07/C08), the run would fail for "
                    "a reason that is not the field's type", {"left_out": len(accepted_pairs) - len(runnable)})
    accepted_pairs = runnable
    pool = accepted_pairs if len(accepted_pairs) <= n_run else ctx.rng.sample(accepted_pairs, n_run)
    rres = core.pmap(_run_one, [(c["t"], c["v"], tkeys[tc.type_src(c["t"])]) for c in pool], chunksize=2)
    robs = []
    for c, r in zip(pool, rres):
        ctx.ran()
        robs.append({"id": len(observations) + len(robs) + 1, "q": "run", "t": c["t"], "v": c["v"], "acc": True,
                     "r": r["stored"], "r2acc": r["ran"], "r2": r["seen"], "mw": []})
    ph["run_stage_s"] = round(time.time() - t1, 1)
    t1 = time.time()

    # one batch through TLC: the coercion observations, the run observations and the corrupted
    # observations of the binding self-test
    verdicts = tc.validate(ctx, observations + robs + selftest_observations(), nshards=12 if ctx.thorough else 4)
    selftest_judge(verdicts)
    ph["tlc_validate_s"] = round(time.time() - t1, 1)

    n_acc = n_rej = 0
    for c, o, sites, oid in index:
        case = {"tlc": {"t": c["t"], "v": c["v"]}, "site": sites[0], "sites": sites, "q": "coerce"}
        where = {"type": tc.type_src(c["t"]), "value": tc.show(c["v"]), "sites": sites}
        if o["acc"]:
            vd = verdicts[oid]
            n_acc += len(sites)
            ctx.nontriv((tc.type_src(c["t"]), tc.show(c["v"])))
            if vd["inconf"] != c["conf"]:
                raise core.MachineryError(f"generator and validator disagree on Conforms(value, type) for {where}")
            if vd["note"]:
                ctx.observe(vd["note"], dict(where, stored=tc.show(o["r"])))
            if not vd["unchanged"] and c["conf"]:
                ctx.observe("a value that already conforms is stored as a different value (a union's earlier member takes it)",
                            dict(where, stored=tc.show(o["r"])))
            judge_verdict(ctx, vd, case, o)
        else:
            n_rej += len(sites)
            if o["err"] != "TypeError":
                ctx.observe(f"rejected at assignment with {o['err']} instead of TypeError", where)
            if c["conf"]:
                ctx.observe("a value that conforms to the declared type is rejected at assignment", dict(where, error=o["err"]))
    for c, r, ob in zip(pool, rres, robs):
        o = {"acc": True, "r": r["stored"], "r2acc": r["ran"], "r2": r["seen"], "mw": [], "err2": r["err"]}
        judge_verdict(ctx, verdicts[ob["id"]], {"tlc": {"t": c["t"], "v": c["v"]}, "site": "field_init+run", "q": "run"}, o)
    ctx.extra.update({"pairs": len(cases), "types": len(types), "site_observations": sum(len(x[2]) for x in index),
                      "accepted": n_acc, "rejected_at_assignment": n_rej,
                      "observations_validated_by_tlc": n_coerce + len(robs), "tasks_run": len(pool)})

    kinds_seen = set()
    for c, o, sites, oid in index:      # one written-out accepted case per kind of type, value changed by coercion
        if (o["acc"] and "field_init" in sites and c["t"]["k"] in ("list", "dict", "multi", "union", "tuple")
                and c["t"]["k"] not in kinds_seen and o["r"] != c["v"] and c["v"]["k"] not in ("str", "bytes")):
            kinds_seen.add(c["t"]["k"])
            ctx.sample({"type": tc.type_src(c["t"]), "value": tc.show(c["v"]), "stored": tc.show(o["r"]), "sites": sites,
                        "tlc_verdict": {k: verdicts[oid][k] for k in ("conforms", "noconfusion", "idem")}})
    rej = next(((c, o) for c, o, _, _ in index if not o["acc"] and c["t"]["k"] == "list"), None)
    if rej:
        ctx.sample({"type": tc.type_src(rej[0]["t"]), "value": tc.show(rej[0]["v"]), "rejected_with": rej[1]["err"]})
    ctx.assume("File/Directory values name a file and a directory the harness creates itself; strings/paths are relative to that directory")
    ctx.assume("MultiInputObj[t] fields store a plain list of t (Conforms treats the type as list[t])")


def replay(ctx, rec):
    tc.workdir(ctx)
    case = rec["case"]
    t, v = case["tlc"]["t"], case["tlc"]["v"]
    mod = tc.field_module(ctx, [t])
    if case.get("q") == "run":
        r = tc.run_field_task(mod.F0, v)
        o = {"acc": True, "r": r["stored"], "r2acc": r["ran"], "r2": r["seen"], "mw": [], "err2": r["err"]}
        ob = {"id": 1, "q": "run", "t": t, "v": v, "acc": True, "r": o["r"], "r2acc": o["r2acc"], "r2": o["r2"], "mw": []}
    else:
        sites = _observe((t, v, 0))
        o = next(s for s in sites if s["site"] == case["site"])
        ob = _obs_record(1, "coerce", t, v, o)
    ctx.ran()
    vd = tc.validate(ctx, [ob], tag="replay")[1]
    print("observation:", tc.json.dumps(o)[:600])
    print("TLC verdict:", {k: vd[k] for k in ("conforms", "noconfusion", "idem", "abmatch", "note")})
    judge_verdict(ctx, vd, case, o)
