"""C09 File hashes always reflect current file content.

Spec: specs/FileHash.tla (files with content + mtime, logical clock, persistent hash cache
shared by the processes, per-process memo; Write, WriteKeepMtime, SetMtime, RenameOver,
CopyPreserve, Hash(proc, path); invariant HashCorrect), constants / emission in
specs/FileHash_Gen.tla.

M1: TLC checks HashCorrect / CacheSound for the ideal key, finds the stale digest for the
    as-built key (path, mtime), and shows what the guard promised in hashing-caching.rst would
    and would not cover.
M3: TLC-generated behaviours (<= 5 operations, 2 paths, 2 processes) are replayed on a real
    temporary directory: file operations with os.utime-controlled mtimes, Hash(q, p) executed
    by two separate long-lived interpreter processes sharing a private PYDRA_HASH_CACHE, via
    hash_function(File(p)), via the checksum of a task with a File input and via a long-lived
    PersistentCache object.  After every step the (content, mtime) of both paths is projected
    from the directory and compared with the spec state; every observed digest is compared
    with the digest computed under an empty persistent cache.
"""
import atexit
import json
import os
import shutil
import subprocess
import sys
import tempfile

from harness import core

LEVEL = "model_checking"

CONTENT = {"A": b"AAAA", "B": b"BBBB", "C": b"CCCCCCC"}
BASE_NS = 1_600_000_000 * 10**9
UNIT = {"ns": 10**9}      # real nanoseconds per unit of the spec clock; set per replayed behaviour (1 s or 1 ns)
KNOWN_ID = "C09-mtime-key"
MODES = ("fn", "task", "pc")


def _ftask():
    global _FT
    try:
        return _FT
    except NameError:
        from fileformats.generic import File
        from pydra.compose import python

        def file_len(x: File) -> int:
            return len(x.read_contents())

        _FT = python.define(file_len)
        return _FT


def compute(mode, path, cache_dir, keep):
    """the digest the real code computes for File(path) with the persistent cache at cache_dir"""
    from fileformats.generic import File
    from pydra.utils.hash import PersistentCache, hash_function

    os.environ["PYDRA_HASH_CACHE"] = cache_dir          # how hash.py locates the persistent cache
    if mode == "fn":
        return hash_function(File(path))
    if mode == "task":
        return _ftask()(x=File(path))._checksum
    if mode == "pc":
        pc = keep.get(cache_dir)
        if pc is None:
            pc = keep[cache_dir] = PersistentCache(cache_dir)
        return hash_function(File(path), persistent_cache=pc)
    raise ValueError(mode)


def server_main():
    """hash server: one long-lived interpreter = one process q of the spec"""
    core.assert_repo_import()
    keep = {}
    for line in sys.stdin:
        req = json.loads(line)
        if req.get("reset"):
            keep.clear()
            print(json.dumps({"ok": True}), flush=True)
            continue
        try:
            d = compute(req["mode"], req["path"], req["cache"], keep)
            print(json.dumps({"digest": d}), flush=True)
        except Exception as e:  # noqa
            print(json.dumps({"error": f"{type(e).__name__}: {e}"}), flush=True)


_SERVERS = {}


def server(q):
    p = _SERVERS.get((os.getpid(), q))
    if p is None or p.poll() is not None:
        p = subprocess.Popen([core.PY, "-c", "from harness.props import C09; C09.server_main()"],
                             stdin=subprocess.PIPE, stdout=subprocess.PIPE, text=True, env=core.child_env())
        _SERVERS[(os.getpid(), q)] = p
        atexit.register(p.kill)
    return p


def ask(q, req):
    p = server(q)
    p.stdin.write(json.dumps(req) + "\n")
    p.stdin.flush()
    line = p.stdout.readline()
    if not line:
        raise core.MachineryError(f"hash server {q} died")
    return json.loads(line)


def project(d, paths, labels):
    """abstract state of the real directory: path -> [c, m]"""
    st = {}
    for p in paths:
        fp = os.path.join(d, p + ".dat")
        if not os.path.exists(fp):
            st[p] = {"c": "absent", "m": 0}
        else:
            s = os.lstat(fp)
            with open(fp, "rb") as f:
                st[p] = {"c": labels.get(f.read(), "?"), "m": (s.st_mtime_ns - BASE_NS) // UNIT["ns"]}
    return st


def stamp(fp, m):
    t = BASE_NS + m * UNIT["ns"]
    os.utime(fp, ns=(t, t))


def replay_behaviour(job):
    """job: {"beh": TLC behaviour, "mode": mode}.  Returns {"steps": [...], "problems": [...]}"""
    beh, mode = job["beh"], job["mode"]
    UNIT["ns"] = job.get("unit_ns", 10**9)
    d = tempfile.mkdtemp(prefix="verif_c09_")
    keep = {}
    try:
        cache = os.path.join(d, "hashcache")
        os.mkdir(cache)
        paths = sorted(beh["init"])
        labels = {v: k for k, v in CONTENT.items()}
        fp = lambda p: os.path.join(d, p + ".dat")
        # what each content hashes to with an empty persistent cache (labels for the digests)
        table = {}
        for lab, data in CONTENT.items():
            tp = os.path.join(d, f"label_{lab}.dat")
            with open(tp, "wb") as f:
                f.write(data)
            table[lab] = compute(mode, tp, tempfile.mkdtemp(dir=d), {})
        if len(set(table.values())) != len(table):
            return {"error": "contents do not have distinct fresh digests"}
        for p, s in beh["init"].items():
            with open(fp(p), "wb") as f:
                f.write(CONTENT[s["c"]])
            stamp(fp(p), s["m"])
        for q in ("q1", "q2"):
            ask(q, {"reset": True})
        steps, problems = [], []
        for i, st in enumerate(beh["h"]):
            op = st["op"]
            if op == "Write":
                with open(fp(st["p"]), "wb") as f:
                    f.write(CONTENT[st["c"]])
                stamp(fp(st["p"]), st["m"])
            elif op == "WriteKeepMtime":
                with open(fp(st["p"]), "wb") as f:
                    f.write(CONTENT[st["c"]])
                stamp(fp(st["p"]), st["m"])
            elif op == "SetMtime":
                stamp(fp(st["p"]), st["m"])
            elif op == "RenameOver":
                os.replace(fp(st["s"]), fp(st["p"]))
            elif op == "CopyPreserve":
                shutil.copy2(fp(st["s"]), fp(st["p"]))
            elif op == "Hash":
                ans = ask(st["q"], {"mode": mode, "path": fp(st["p"]), "cache": cache})
                if "error" in ans:
                    return {"error": f"hash server: {ans['error']}"}
                fresh = compute(mode, fp(st["p"]), tempfile.mkdtemp(dir=d), {})
                inv = {v: k for k, v in table.items()}
                steps.append({"i": i, "observed": inv.get(ans["digest"], "other"), "fresh": inv.get(fresh, "other"),
                              "cur": st["cur"], "asbuilt": st["r"], "ok": ans["digest"] == fresh})
            else:
                return {"error": "unknown op " + op}
            real = project(d, paths, labels)
            if real != st["st"]:
                problems.append({"i": i, "spec_state": st["st"], "real_state": real})
        return {"steps": steps, "problems": problems}
    except Exception as e:  # noqa
        import traceback
        return {"error": f"{type(e).__name__}: {e}\n{traceback.format_exc()[-600:]}"}
    finally:
        shutil.rmtree(d, ignore_errors=True)


def cfg(ctx, name, keymode, maxops, ops="AllOps", invariants=(), view=True, coarse=False, memo=True):
    p = ctx.scratch / f"{name}.cfg"
    p.write_text(f"""SPECIFICATION Spec
CONSTANTS
  Paths <- MCPaths
  Contents <- MCContents
  Procs <- MCProcs
  InitFile <- MCInitFile
  MemoLives = {"TRUE" if memo else "FALSE"}
  CoarseOnly = {"TRUE" if coarse else "FALSE"}
  KeyMode = "{keymode}"
  MaxOps = {maxops}
  Ops <- {ops}
""" + ("VIEW View\n" if view else "") + "".join(f"INVARIANT {i}\n" for i in invariants) + "CHECK_DEADLOCK FALSE\n")
    return p


def uniq(behs):
    seen, out = set(), []
    for b in behs:
        k = json.dumps(b["h"], sort_keys=True)
        if k not in seen:
            seen.add(k)
            out.append(b)
    return out


def cause(beh, i):
    """the last operation that touched the path hashed at step i (classification of a stale digest)"""
    p = beh["h"][i]["p"]
    for st in reversed(beh["h"][:i]):
        if st["op"] != "Hash" and st.get("p") == p:
            return st["op"]
    return "none"


def judge(ctx, job, res, counts, cap=4):
    beh = job["beh"]
    if "error" in res:
        raise core.MachineryError(f"replay failed: {res['error']}")
    for pr in res["problems"]:
        raise core.MachineryError(f"projection of the real directory differs from the spec state: {pr} in {beh['h']}")
    for s in res["steps"]:
        ctx.ran()
        if s["fresh"] != s["cur"]:
            raise core.MachineryError(f"digest under an empty cache is not H(current content): {s}")
        if s["ok"]:
            if s["asbuilt"] != s["cur"]:
                ctx.observe("as-built model predicted a stale digest, the code returned the right one",
                            {"mode": job["mode"], "ops": [x["op"] for x in beh["h"]]})
            continue
        cls = cause(beh, s["i"])
        counts[cls] = counts.get(cls, 0) + 1
        known = KNOWN_ID in ctx.known and ctx.known[KNOWN_ID].get("status") == "known"
        if counts[cls] > cap and not known:
            continue
        ops = "; ".join(f"{x['op']}({','.join(str(x[k]) for k in ('q', 's', 'p', 'c', 'm') if k in x)})" for x in beh["h"][: s["i"] + 1])
        ctx.judge(False, f"stale file hash [{job['mode']}] after {cls}: {ops} returned H({s['observed']}), content is {s['cur']}",
                  case={"tlc": beh, "mode": job["mode"], "unit_ns": job.get("unit_ns", 10**9), "step": s["i"]},
                  expected={"digest_of": s["cur"]}, observed={"digest_of": s["observed"]},
                  known_id=KNOWN_ID, asbuilt={"digest_of": s["asbuilt"]})


def selftest(ctx, beh):
    """binding self-test: a corrupted expectation / a corrupted spec state must be noticed"""
    bad = json.loads(json.dumps(beh))
    k = max(i for i, s in enumerate(bad["h"]) if s["op"] == "Hash")
    bad["h"][k]["cur"] = "C" if bad["h"][k]["cur"] != "C" else "A"
    r = replay_behaviour({"beh": bad, "mode": "fn"})
    if "error" in r or all(s["fresh"] == s["cur"] for s in r["steps"]):
        raise core.MachineryError(f"binding self-test failed (flipped expectation not noticed): {r}")
    bad = json.loads(json.dumps(beh))
    bad["h"][0]["st"]["p1"]["m"] += 1
    r = replay_behaviour({"beh": bad, "mode": "fn"})
    if "error" in r or not r["problems"]:
        raise core.MachineryError("binding self-test failed (corrupted spec state not noticed)")


def run(ctx):
    from concurrent.futures import ThreadPoolExecutor

    big = 5 if ctx.thorough else 4
    inv_all = ["HashCorrect", "CacheSound", "MemoConsistent"]
    runs = {
        "ideal": dict(cfg=cfg(ctx, "m1_ideal", "ideal", big, invariants=inv_all), workers=4),
        "asbuilt": dict(cfg=cfg(ctx, "m1_asbuilt", "asbuilt", big, invariants=["MemoConsistent", "HashCorrect"]), workers=1, must_pass=False),
        "gen2": dict(cfg=cfg(ctx, "gen2", "asbuilt", 2, invariants=["Emit"], view=False), workers=1),
        "gen3": dict(cfg=cfg(ctx, "gen3", "asbuilt", 3, invariants=["Emit"], view=False), workers=1),
    }
    if ctx.thorough:
        runs["guard_rapid"] = dict(cfg=cfg(ctx, "m1_guard_rapid", "docguard", big, ops="GuardOps", invariants=["HashCorrect"], coarse=True), workers=2)
        runs["guard_all"] = dict(cfg=cfg(ctx, "m1_guard_all", "docguard", 4, ops="GuardAllOps", invariants=["HashCorrect"]), workers=1, must_pass=False)
        runs["gen4"] = dict(cfg=cfg(ctx, "gen4", "asbuilt", 4, invariants=["Emit"], view=False), workers=1)
        runs["gen5"] = dict(cfg=cfg(ctx, "gen5", "asbuilt", 5, invariants=["Emit"], view=False), workers=1,
                            simulate="num=2500", depth=6, seed=ctx.seed)
    else:   # quick: behaviours of length 4 are sampled by TLC's simulator (seeded) instead of enumerated
        runs["gen4"] = dict(cfg=cfg(ctx, "gen4", "asbuilt", 4, invariants=["Emit"], view=False), workers=1,
                            simulate="num=1200", depth=5, seed=ctx.seed)
    with ThreadPoolExecutor(max_workers=4) as ex:
        futs = {k: ex.submit(ctx.tlc, "FileHash_Gen", timeout=900, **kw) for k, kw in runs.items()}
        rs = {k: f.result() for k, f in futs.items()}
    # M1 verdicts
    if "HashCorrect" not in rs["asbuilt"].invariant_violated:
        raise core.MachineryError("M1: the as-built key (path, mtime) shows no stale digest -- model lost its switch")
    ctx.extra["m1"] = {"ideal_key": f"HashCorrect, CacheSound, MemoConsistent hold ({rs['ideal'].distinct} states, <= {big} ops)",
                       "asbuilt_key": "HashCorrect violated (expected counterexample: Hash; WriteKeepMtime; Hash)"}
    if ctx.thorough:
        if "HashCorrect" not in rs["guard_all"].invariant_violated:
            raise core.MachineryError("M1: documented guard unexpectedly covers restored / copied time stamps")
        ctx.extra["m1"].update({
            "documented_guard_rapid_rewrites_only": f"HashCorrect holds ({rs['guard_rapid'].distinct} states)",
            "documented_guard_all_operations": "HashCorrect violated (a restored / copied / renamed-in time stamp defeats the guard)"})
    behs = {n: uniq(rs[f"gen{n}"].printed()) for n in (2, 3, 4)}
    for n in (2, 3, 4):
        if not behs[n]:
            raise core.MachineryError(f"FileHash_Gen emitted no behaviour of length {n}")
    selftest(ctx, next(b for b in behs[3] if b["h"][1]["op"] == "WriteKeepMtime" and b["h"][0]["op"] == "Hash"))
    jobs = []
    if ctx.thorough:
        sim = uniq(rs["gen5"].printed())
        sim = ctx.rng.sample(sim, min(len(sim), 2000))
        ctx.extra["simulated_len5"] = len(sim)
        for n, b in enumerate(behs[2] + behs[3] + behs[4] + sim):
            jobs.append({"beh": b, "mode": MODES[n % 3] if len(b["h"]) > 3 else "fn"})
        jobs += [{"beh": b, "mode": m} for b in behs[2] + behs[3] for m in ("task", "pc")]
        ctx.exhaustive = True
    else:
        pool4 = behs[4][:450]
        for n, b in enumerate(behs[2] + behs[3] + pool4):
            jobs.append({"beh": b, "mode": MODES[n % 3]})
        ctx.exhaustive = False
        ctx.extra["sampled_len4"] = f"{len(pool4)} distinct behaviours from 1200 TLC simulation traces"
    ctx.rule = ("TLC enumerates every behaviour of 2, 3 and 4 operations (2 paths, 3 contents, 2 processes, 6 operation "
                "kinds) that ends in a Hash and hashes at least twice; quick replays all of length <= 3 and a seeded sample "
                "of length 4, thorough all of them plus simulated behaviours of length 5; non-trivial = behaviours in "
                "which the content of a hashed path changed between two of its hashes")
    for n, j in enumerate(jobs):          # every second behaviour is replayed with a 1 ns clock unit
        j["unit_ns"] = 1 if n % 2 else 10**9
    res = core.pmap(replay_behaviour, jobs, chunksize=8)
    counts = {}
    for job, r in zip(jobs, res):
        judge(ctx, job, r, counts)
        h = job["beh"]["h"]
        if any(s["op"] != "Hash" for s in h[1:-1]) or h[0]["op"] != "Hash":
            ctx.nontriv(json.dumps(h, sort_keys=True) + job["mode"])
    ctx.extra["behaviours_replayed"] = len(jobs)
    ctx.extra["stale_digests_by_last_operation_on_the_path"] = counts
    ctx.assume("mtimes are set explicitly with os.utime (1 unit of the spec clock = 1 s for half of the behaviours and 1 ns for the other half); the resolution of the real file "
               "system is not exercised")
    for j in jobs[:2]:
        ctx.sample({"mode": j["mode"], "ops": [{k: v for k, v in s.items() if k != "st"} for s in j["beh"]["h"]]})


def replay(ctx, rec):
    job = {"beh": rec["case"]["tlc"], "mode": rec["case"]["mode"], "unit_ns": rec["case"].get("unit_ns", 10**9)}
    r = replay_behaviour(job)
    print("replayed:", json.dumps(r)[:1000])
    judge(ctx, job, r, {})
