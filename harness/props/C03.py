"""C03 Workflow state propagation matches a nested-loop reference evaluation.

Spec: WfState.tla - named axes, natural join of upstream coordinate lists in input-field
order, own splitter product, combiner closure over zipped axes, symbolic output terms.
The workflow records (every 1-2 node workflow exhaustively in thorough, seeded samples of
2-4 node workflows, the diamond and triangle families, and workflows whose nodes are
nested workflows - inner chains and inner splits; workflows whose nodes split over upstream
outputs or return lists of 0-2 elements, i.e. nodes with zero jobs) are evaluated by TLC (WfState_Eval, mode M2);
every record is materialised as the source text of a real @workflow.define constructor and
run with the debug worker; EVERY node's output must equal the term TLC computed.
"""
import json

from harness import core
from harness import wf_common as wc

LEVEL = "model_checking"

ERR_CLASSES = {  # class flag -> (known id, accepted exception prefixes = the as-built prediction)
    "cP": ("C03-partial-zip-combine-consumed", ("AttributeError", "PydraStateError: splitter has to be")),
    "cI": ("C03-own-split-inherited-combine", ("ValueError: max()",)),
    "cD": ("C03-diamond-multiplies", ("KeyError", "IndexError")),
    # symptoms surveyed over ~1300 sampled graphs of the class (20 seeds): nothing else occurred
    "cN": ("C03-inner-split-below-upstream-state", ("KeyError", "IndexError", "AssertionError", "ValueError: Operands")),
}


def descendants(wf, roots):
    """names of the given nodes and of every node fed (transitively) by them"""
    d = set(roots)
    for nd in wf["nodes"]:
        if any(s["k"] == "node" and s["v"] in d for s in (nd["x"], nd["y"])):
            d.add(nd["name"])
    return d


def all_outs(wf):
    w = dict(wf)
    w["outs"] = [nd["name"] for nd in wf["nodes"]]
    return w


def run_case(wf):
    return wc.run_wf(wf, spelling=wf.get("spelling", "bare"))


def multiset_contains(big, small):
    b = [json.dumps(x) for x in big]
    for x in small:
        k = json.dumps(x)
        if k in b:
            b.remove(k)
        else:
            return False
    return True


def judge(ctx, wf, e, o):
    case = {"wf": wf}
    if e["absent"]:
        ctx.observe("combiner names an axis that no longer exists at that node: " + ("rejected" if o["err"] else "accepted"))
        return
    if e["rejected"]:
        if not o["err"]:
            ctx.violation("inner split over lists of different lengths was accepted", case=case, expected="rejected", observed=o)
        return
    exp = [wc.conv(x) for x in e["outs"]]
    flags = {f for c in e["classes"] for f in ("cD", "cP", "cI", "cN") if c.get(f)}
    if o["err"]:
        for f in ("cP", "cI", "cD", "cN"):
            kid, prefixes = ERR_CLASSES[f]
            if f in flags and o["err"].startswith(prefixes):
                if ctx.judge(False, f"valid workflow raises {o['err'][:60]}", case=case, expected=exp, observed="error",
                             known_id=kid, asbuilt="error") is False and kid in ctx.known_hits:
                    return
                return
        ctx.violation(f"valid workflow raises {o['err'][:80]}", case=case, expected=exp, observed=o)
        return
    if o["outs"] == exp:
        return
    if "cN" in flags and wf["outs"] == [nd["name"] for nd in wf["nodes"]]:
        # as-built signature of the inner-split finding: whatever goes wrong is confined to the nodes that split
        # over the output of a node with a state, and to their descendants; every other node is right
        sub = descendants(wf, [nd["name"] for nd, c in zip(wf["nodes"], e["classes"]) if c.get("cN")])
        wrong = [n for n, ex_, ob_ in zip(wf["outs"], exp, o["outs"]) if ex_ != ob_]
        if all(n in sub for n in wrong):
            ctx.judge(False, f"node {wrong[0]}: outputs differ from the nested-loop reference", case=case,
                      expected=exp[wf["outs"].index(wrong[0])], observed="confined-to-inner-split-subgraph",
                      known_id="C03-inner-split-below-upstream-state", asbuilt="confined-to-inner-split-subgraph", node=wrong[0])
            return
    for k, (ex_, ob_) in enumerate(zip(exp, o["outs"])):
        if ex_ != ob_:
            c = e["classes"][k]
            name = wf["outs"][k]
            nd = wf["nodes"][k]
            predicted = False
            if c["cP"] and ob_ == [] and ex_ != []:
                # second as-built signature of the partially-combined-zip finding: the consumer runs no job at all
                ctx.judge(False, f"node {name}: no job ran", case=case, expected=ex_, observed="no-jobs",
                          known_id="C03-partial-zip-combine-consumed", asbuilt="no-jobs", node=name)
                return
            if c["cD"]:
                # as-built prediction for the recorded finding: the node's jobs are the reference's (or the
                # unaligned product), and they differ ONLY in what is delivered from upstream nodes
                mask = [f for f in ("x", "y") if nd[f]["k"] == "node"]
                ej, oj = job_terms(ex_, name, mask), job_terms(ob_, name, mask)
                if oj is not None and ej is not None:
                    if len(oj) == len(ej):
                        predicted = sorted(map(json.dumps, oj)) == sorted(map(json.dumps, ej))
                    elif len(oj) == c["noalign"]:
                        predicted = multiset_contains(oj, ej)          # multiplied instead of aligned
                    elif 0 < len(oj) < len(ej):
                        predicted = multiset_contains(ej, oj)          # one upstream state absorbed as a whole list
            ctx.judge(False, f"node {name}: outputs differ from the nested-loop reference", case=case,
                      expected=ex_, observed="upstream-pairing-only" if predicted else ob_,
                      known_id="C03-diamond-multiplies" if predicted else None,
                      asbuilt="upstream-pairing-only" if predicted else None, node=name)
            return


def job_terms(v, name, mask):
    """flatten a (possibly nested) node output into its job terms [name, x, y]; masked fields -> '*'"""
    if isinstance(v, list) and len(v) == 3 and v[0] == name and not isinstance(v[0], list):
        t = list(v)
        for f in mask:
            t[1 if f == "x" else 2] = "*"
        return [t]
    if isinstance(v, list):
        out = []
        for x in v:
            r = job_terms(x, name, mask)
            if r is None:
                return None
            out += r
        return out
    return None


def run(ctx):
    small = wc.enumerate_small(2)
    if ctx.thorough:
        wfs = small + [wc.sample(ctx.rng, 3) for _ in range(1500)] + [wc.sample(ctx.rng, 4) for _ in range(900)]
    else:
        wfs = ctx.rng.sample(small, 400) + [wc.sample(ctx.rng, 3) for _ in range(420)] + [wc.sample(ctx.rng, 4) for _ in range(260)]
    wfs += wc.diamond_family() + wc.triangle_family() + wc.three_input_family()
    wfs = [all_outs(w) for w in wfs]
    # the keyword-only spelling of single-field splitters on a sample
    kw = [dict(w, spelling="kw") for w in ctx.rng.sample(wfs, min(len(wfs), 400 if ctx.thorough else 60))
          if any(nd["hassplit"] and nd["split"]["op"] == "f" for nd in w["nodes"])]
    wfs += kw
    # nested-workflow nodes (WfState!JobTerm): inner chains and inner splits over a list-valued input
    nest = [all_outs(wc.nested_sample(ctx.rng, 2 + i % 3)) for i in range(1800 if ctx.thorough else 220)]
    nexp = wc.tlc_expected(ctx, nest, tag="nest")
    # replayed: records whose inner split has a list to split over and that lie outside the recorded finding classes
    # (their as-built signatures are stated for plain task nodes only)
    nkeep = [w for w, e in zip(nest, nexp) if not e["badinner"] and not any(c["cD"] or c["cP"] or c["cI"] for c in e["classes"])]
    ctx.extra["nested_records"] = {"sampled": len(nest), "replayed": len(nkeep)}
    wfs += nkeep
    # splits over UPSTREAM OUTPUTS, list-maker nodes (also of the empty list: nodes with zero jobs)
    ups = [wc.upsplit_sample(ctx.rng, 2 + i % 3) for i in range(2400 if ctx.thorough else 300)] + wc.empty_split_family()
    uexp = wc.tlc_expected(ctx, ups, tag="ups")
    ukeep = [w for w, e in zip(ups, uexp) if not (e["badsplit"] or e["emptypartial"] or e["badinner"])
             and not any(c["cD"] or c["cP"] or c["cI"] for c in e["classes"])]
    ctx.extra["upstream_split_records"] = {"sampled": len(ups), "replayed": len(ukeep),
                                           "inner_split_below_state": sum(1 for e in uexp if e["innerstate"])}
    wfs += ukeep
    exp = wc.tlc_expected(ctx, wfs)
    obs = core.pmap(run_case, wfs, procs=12, chunksize=4)
    for w, e, o in zip(wfs, exp, obs):
        ctx.ran()
        if len(w["nodes"]) >= 2 and max(e["njobs"]) >= 2:
            ctx.nontriv(json.dumps([w["nodes"], w.get("spelling")]))
        judge(ctx, w, e, o)
    ctx.exhaustive = False
    ctx.rule = ("workflow records: all 1-2 node workflows over the node menu (thorough) / seeded sample (quick), seeded samples of 3-4 node "
                "workflows, the 4-node diamond family, the triangle family, the three-input family (a node with three inputs carrying one split), seeded 2-4 node workflows with nested-workflow nodes; every node output compared; non-trivial = >= 2 nodes and >= 2 jobs somewhere")
    good = [(w, e) for w, e in zip(wfs, exp) if len(w["nodes"]) >= 3 and not e["rejected"]][:2]
    for w, e in good:
        ctx.sample({"workflow": wc.wf_source(w).split("def GenWf")[1], "expected_last_node": wc.conv(e["outs"][-1])})
    ctx.extra["small_space"] = len(small)


def replay(ctx, rec):
    wf = rec["case"]["wf"]
    e = wc.tlc_expected(ctx, [wf])[0]
    o = run_case(wf)
    ctx.ran()
    print(wc.wf_source(wf))
    print("expected", [wc.conv(x) for x in e["outs"]])
    print("observed", o)
    judge(ctx, wf, e, o)
