"""C26 Output path templates resolve inside the job directory.

Spec: specs/PathTemplate.tla (component-sequence path model, extension rules, the
conformance predicate `Failures`), generator specs/PathTemplate_Gen.tla, validator
specs/PathTemplate_Val.tla.  TLC enumerates templates (<= 3 parts + explicit extension) x
input file names with 0/1/2 extensions x second input (file, strings incl. path-like
ones, int, float, list) x keep_extension x how the caller sets the output (nothing, True,
absolute path, relative path, False) x output type (file, optional file, one file per
list element).  The driver observes, on the real code, the value of the output argument in
`Job.inputs` (twice: independent task objects and cache roots), the argument a real
file-creating process received and the collected `ShellOutputs` value (Submitter, debug
worker), projects the paths to character codes with the job directory written "%", and
hands the observations back to TLC, which evaluates `PathTemplate!Failures` on each
(inside the job directory / deterministic / extension kept or dropped / explicit path as
given / not saved).
"""
import json
from concurrent.futures import ThreadPoolExecutor

from harness import core, template_common as tc

LEVEL = "model_checking"
WORLD = None


def gen_cfg(ctx, name, wide, shard, nshards):
    p = tc.write_cfg(ctx, name, {"Wide": "@B@" + ("TRUE" if wide else "FALSE"), "Shard": shard, "NShards": nshards})
    p.write_text(p.read_text().replace('"@B@TRUE"', "TRUE").replace('"@B@FALSE"', "FALSE"))
    return p


def generate(ctx, wide, nshards):
    def one(sh):
        return tc.tlc_cases("PathTemplate_Gen", gen_cfg(ctx, f"c26_gen_{sh}", wide, sh, nshards),
                            env=None if ctx.thorough else {"JAVA_TOOL_OPTIONS": "-XX:TieredStopAtLevel=1"})

    with ThreadPoolExecutor(max_workers=nshards) as ex:
        res = list(ex.map(one, range(nshards)))
    cases = []
    for cs, stats in res:
        tc.account(ctx, stats)
        cases.extend(cs)
    return cases


def observe(arg):
    case, do_run = arg
    return tc.c26_observe(case, WORLD, do_run=do_run)


def validate(ctx, lines, nparts):
    """Second TLC pass (M4): every observation is judged by PathTemplate!Failures."""
    if not lines:
        return {}
    parts = [lines[i::nparts] for i in range(nparts) if lines[i::nparts]]

    def one(arg):
        k, chunk = arg
        f = ctx.scratch / f"c26_obs_{k}.ndjson"
        f.write_text("".join(json.dumps(ln) + "\n" for ln in chunk))
        cfg = ctx.scratch / f"c26_val_{k}.cfg"
        cfg.write_text("INIT Init\nNEXT Next\nINVARIANT Emit\nCHECK_DEADLOCK FALSE\n")
        env = {"C26_OBS": str(f)}
        if not ctx.thorough:
            env["JAVA_TOOL_OPTIONS"] = "-XX:TieredStopAtLevel=1"
        r = core.run_tlc("PathTemplate_Val.tla", cfg=cfg, workers=1, env=env, timeout=3000)
        if not r.ok:
            raise core.MachineryError("TLC failed on PathTemplate_Val:\n" + "\n".join(r.out.splitlines()[-30:]))
        vs = r.printed()
        if len(vs) != len(chunk):
            raise core.MachineryError(f"validator returned {len(vs)} verdicts for {len(chunk)} observations")
        return vs, {"module": "PathTemplate_Val", "cfg": str(cfg), "distinct": r.distinct, "generated": r.generated,
                    "wall_s": round(r.wall, 1)}

    with ThreadPoolExecutor(max_workers=len(parts)) as ex:
        res = list(ex.map(one, enumerate(parts)))
    verdicts = {}
    for vs, stats in res:
        tc.account(ctx, stats)
        for v in vs:
            verdicts[v["id"]] = v
    return verdicts


def show(pt):
    if pt["k"] == "path":
        return tc.chars(pt["p"])
    if pt["k"] == "list":
        return [tc.chars(x) for x in pt["items"]]
    return pt["k"] + (": " + pt["e"] if pt["e"] else "")


def describe(case):
    c = case["c"]
    g = c["g"]
    return {"template": tc.chars(case["template"]), "file": tc.chars(c["fb"]),
            "g": {"kind": g["kind"], "value": [tc.chars(x) for x in g["items"]] if g["kind"] == "list" else tc.chars(g["s"])},
            "keep_extension": c["keep"], "output_set_to": c["mode"], "output_type": c["otype"]}


def expected_of(case):
    c = case["c"]
    if c["mode"] in ("abs", "rel"):
        return {"given": tc.chars(c["given"])}
    if not case["uses_template"]:
        return "not saved (no path)"
    return {"inside_job_directory": True, "deterministic": True, "name_ends_with": tc.chars(case["ends"]),
            "name_without": tc.chars(case["without"]), "paths": case["npaths"],
            "name_spelled_by_template(not judged)": [tc.chars(x) for x in case["ideal"]]}


def verdict(ctx, case, obs, v, level="api"):
    if v["ok"]:
        return
    shown = {k: show(pt) for k, pt in obs.items()}
    same = obs["i1"] == obs["i2"] and obs["i1"]["k"] == "path"
    observed = tc.chars(obs["i1"]["p"]) if same and all(obs[k]["k"] == "skip" for k in ("av", "ou")) else shown
    ctx.judge(False, "output path template: " + ", ".join(sorted(v["failed"])) + " violated",
              case={"tlc": case, "level": level, "about": describe(case)}, expected=expected_of(case), observed=observed,
              known_id=case["known"] or None, asbuilt=tc.chars(case["asbuilt"]) if case["known"] else None,
              observations=shown)


def selftest_lines(cases, first_id):
    """Binding self-test material, independent of what pydra does: a synthetic observation
    built from the name the spec's template spells must be accepted by the validator, and
    its corrupted variants must be rejected with the right requirement."""
    case = next((c for c in cases if c["run"] and c["ends"] and c["ideal"] and c["npaths"] == 1
                 and c["c"]["otype"] == "file" and "/" not in tc.chars(c["ideal"][0])), None)
    if case is None:
        raise core.MachineryError("no material for the binding self-test")
    p = "%/" + tc.chars(case["ideal"][0])
    pt = {"k": "path", "p": tc.codes(p), "items": [], "e": ""}
    good = {"i1": pt, "i2": pt, "av": pt, "ou": pt}
    esc = dict(good, i1=dict(pt, p=tc.codes("%/../" + p[2:])))                     # one level up: not inside
    nd = dict(good, i2=dict(pt, p=tc.codes(p + "_2")))                              # evaluations differ
    wrong = dict(pt, p=tc.codes(p[: -len(case["ends"])] + "_noext"))                # extension lost
    ex = {"i1": wrong, "i2": wrong, "av": wrong, "ou": wrong}
    outside = dict(pt, p=tc.codes("/elsewhere/" + p[2:]))                           # absolute path elsewhere
    out = {"i1": outside, "i2": outside, "av": outside, "ou": outside}
    expect = [(None, good), ("inside", esc), ("deterministic", nd), ("extension", ex), ("inside", out)]
    lines = [{"id": first_id + k, "c": case["c"], "obs": o} for k, (_, o) in enumerate(expect)]
    return lines, [(first_id + k, what) for k, (what, _) in enumerate(expect)]


def selftest_check(verdicts, expects):
    for cid, what in expects:
        v = verdicts[cid]
        if what is None and not v["ok"]:
            raise core.MachineryError(f"selftest: the name the template spells is rejected by the validator: {v}")
        if what is not None and (v["ok"] or what not in v["failed"]):
            raise core.MachineryError(f"selftest: corrupted observation ({what}) not rejected by the validator: {v}")


def observe_notes(ctx, case, obs):
    """Things the statement does not decide: recorded, never judged."""
    if case["twofiles"]:
        ctx.observe("template naming two files: " + ("rejected" if obs["i1"]["k"] == "error" else "resolved"), describe(case))
        return
    if not case["uses_template"] or obs["i1"]["k"] not in ("path", "list"):
        return
    names = [tc.chars(obs["i1"]["p"]).rsplit("/", 1)[-1]] if obs["i1"]["k"] == "path" else \
        [tc.chars(x).rsplit("/", 1)[-1] for x in obs["i1"]["items"]]
    if case["c"]["g"]["kind"] == "list" and not case["ideal"]:
        ctx.observe("list value in a single-file template is printed as python text", {**describe(case), "name": names})
    elif case["ideal"] and names != [tc.chars(x) for x in case["ideal"]]:
        ctx.observe("resolved name differs from the name the template spells (text before a file placeholder / "
                    "directory part of a value is dropped; input extension replaced by the template's own)",
                    {**describe(case), "spelled": [tc.chars(x) for x in case["ideal"]], "resolved": names})


def run(ctx):
    global WORLD
    WORLD = tc.World(ctx.scratch)
    cases = generate(ctx, wide=ctx.thorough, nshards=8 if ctx.thorough else 2)
    ctx.rule = ("TLC enumerates (template of <= 3 parts + optional explicit extension) x file name with 0/1/2 extensions x "
                "second input value x keep_extension x output setting x output type; inputs a template does not reference are "
                "fixed; one case = one initial state of PathTemplate_Gen; non-trivial = template with >= 1 placeholder")
    if ctx.thorough:
        todo = cases
        ctx.exhaustive = True
    else:
        special = [c for c in cases if c["known"] or c["c"]["mode"] in ("abs", "rel", "false")]
        rest = [c for c in cases if not (c["known"] or c["c"]["mode"] in ("abs", "rel", "false"))]
        todo = ctx.rng.sample(special, min(60, len(special))) + ctx.rng.sample(rest, min(340, len(rest)))
    # the command is really run (file-creating script through Submitter) on every replayed case in quick,
    # on a seeded subset in thorough; Job.inputs is observed on every case
    runnable = [i for i, c in enumerate(todo) if c["run"]]
    with_run = set(runnable if len(runnable) <= 3000 else ctx.rng.sample(runnable, 3000))
    obs = core.pmap(observe, [(c, i in with_run) for i, c in enumerate(todo)], chunksize=4)

    lines = [{"id": i, "c": case["c"], "obs": o} for i, (case, o) in enumerate(zip(todo, obs))]
    # binding self-test: synthetic conforming / corrupted observations ride along in the validator run
    st_lines, st_expect = selftest_lines(cases, len(todo))
    verdicts = validate(ctx, lines + st_lines, nparts=8 if ctx.thorough else 2)
    selftest_check(verdicts, st_expect)

    for i, (case, o) in enumerate(zip(todo, obs)):
        ctx.ran()
        if case["c"]["parts"] and any(p["k"] == "ref" for p in case["c"]["parts"]):
            ctx.nontriv(i)
        observe_notes(ctx, case, o)
        v = verdicts[i]
        if i in with_run and v["ok"] and any(o[k]["k"] in ("skip", "error") for k in ("av", "ou")):
            ctx.violation("the command could not be run / its output not collected although the path resolved as required",
                          case={"tlc": case, "level": "api", "about": describe(case)}, expected="run and output collected",
                          observed={k: show(pt) for k, pt in o.items()})
        verdict(ctx, case, o, v)
    for case, o in list(zip(todo, obs))[:5]:
        ctx.sample({"case": describe(case), "expected": expected_of(case), "observed": {k: show(pt) for k, pt in o.items()}})
    ctx.extra["cases_generated"] = len(cases)
    ctx.extra["cases_replayed"] = len(todo)
    ctx.extra["real_runs"] = len(with_run)
    ctx.assume("file inputs have a non-empty stem (no dot-files); the extension of a file name starts at its first dot; "
               "False is passed only to optional outputs (documented there)")


def replay(ctx, rec):
    global WORLD
    WORLD = tc.World(ctx.scratch)
    case = rec["case"]["tlc"]
    o = observe((case, True))
    ctx.ran()
    v = validate(ctx, [{"id": 0, "c": case["c"], "obs": o}], 1)[0]
    print("replay:", describe(case), {k: show(pt) for k, pt in o.items()}, v)
    verdict(ctx, case, o, v)
