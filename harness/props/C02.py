"""C02 Combine groups job outputs into an exact, ordered partition.

Spec: SplitAlgebra!Groups / Closure / FlatOutput (and the theorem IsOrderedPartition,
checked by TLC on every enumerated case).  TLC enumerates trees x lengths 1..3 x every
non-empty combiner subset; replay at state level (final_combined_ind_mapping,
keys_final) and at API level (nested output lists of Task.split().combine()()).
"""
from harness import core, split_common as sc

LEVEL = "model_checking"


def judge_state(case, o):
    if not case["ok"]:
        return "ok" if o["err"] else "accepted-unequal-inner"
    if o["err"]:
        return "error-on-valid"
    if o["jobs"] != case["jobs"]:
        return "jobs-mismatch"
    if o["groups"] != case["groups"]:
        return "groups-mismatch"
    if sorted(o["keys_final"]) != sorted(case["rem"]):
        return "remaining-axes-mismatch"
    return "ok"


def check_state(case):
    o = sc.state_run(case)
    return judge_state(case, o), o


def expected_api(case):
    outs = [sc.out_of(j) for j in case["jobs"]]
    if case["flat"]:
        return [outs[i] for g in case["groups"] for i in g]
    return [[outs[i] for i in g] for g in case["groups"]]


def judge_api(case, o):
    if not case["ok"]:
        if not o["err"]:
            return "accepted-unequal-inner"
        return "ok" if not o["bodies"] else "jobs-ran-before-rejection"
    if o["err"]:
        return "error-on-valid"
    exp = expected_api(case)
    got = o["out"]
    norm = lambda x: [norm(i) for i in x] if isinstance(x, (list, tuple)) else x  # noqa
    if norm(got) != norm(exp):
        return "outputs-mismatch"
    if len(o["bodies"]) != len(case["jobs"]):
        return "body-count-mismatch"
    return "ok"


def check_api(case):
    o = sc.api_run(case)
    return judge_api(case, o), o


def run(ctx):
    if ctx.thorough:
        cases = sc.generate(ctx, ["a", "b", "c", "d"], 1, 3, "combine", nshards=16)
    else:
        cases = sc.generate(ctx, ["a", "b", "c"], 1, 3, "combine", nshards=4)
        cases += sc.generate(ctx, ["a", "b", "c", "d"], 2, 2, "combine", minfields=4, nshards=12)
    ctx.exhaustive = True
    ctx.rule = ("TLC enumerates every splitter tree x length vector x non-empty combiner subset; distinct = initial "
                "states of SplitAlgebra_Gen (mode combine); non-trivial = well-shaped and >= 2 jobs")
    res = core.pmap(check_state, cases, chunksize=64)
    for case, (v, o) in zip(cases, res):
        ctx.ran()
        if case["ok"] and len(case["jobs"]) >= 2:
            ctx.nontriv((str(case["t"]), str(case["l"]), str(case["c"])))
        if v == "undecided":
            ctx.observe("inner operands of equal flat length but different shape", {"t": sc.to_spl(case["t"]), "l": case["l"]})
        elif v != "ok":
            ctx.violation(f"state level: {v}", case={"tlc": case, "level": "state"},
                          expected={"groups": case["groups"], "rem": case["rem"]}, observed=o)
    pool = [c for c in cases if c["ok"]]
    n_api = 5000 if ctx.thorough else 300
    api_cases = pool if n_api >= len(pool) else ctx.rng.sample(pool, n_api)
    res = core.pmap(check_api, api_cases, chunksize=4)
    for case, (v, o) in zip(api_cases, res):
        ctx.ran()
        if v not in ("ok", "undecided"):
            ctx.violation(f"API level: {v}", case={"tlc": case, "level": "api"}, expected=expected_api(case), observed=o)
    for c in [c for c in api_cases if len(c["l"]) == 3 and not c["flat"]][:3]:
        ctx.sample({"splitter": repr(sc.to_spl(c["t"])), "lengths": c["l"], "combiner": c["c"],
                    "expected_groups": c["groups"], "remaining": c["rem"]})
    ctx.extra["api_level_cases"] = len(api_cases)
    ctx.extra["state_level_cases"] = len(cases)


def replay(ctx, rec):
    case = rec["case"]["tlc"]
    v, o = (check_state if rec["case"]["level"] == "state" else check_api)(case)
    ctx.ran()
    print("replay verdict:", v, o)
    if v not in ("ok", "undecided"):
        ctx.violation(f"replay: {v}", case=rec["case"], expected=rec["expected"], observed=o)
