"""C30 Workflow construction caching and repeated runs are transparent.

M1: TLC checks Transparent and NoLeak on WfConstructCache.tla (the memo keyed by type hash ->
    non-lazy key set -> value hash: exact hit, superset hit with deep copy, miss) for every
    history of 3 construct/run operations over two definitions (one with a value-dependent
    constructor), three input vectors and every lazy set; with branch inputs allowed to be
    lazy TLC must report the violation (the usage assumption is thereby explicit).
M3: TLC emits every history (h); each is replayed in ONE fresh interpreter; after every
    operation the returned workflow is projected (node names, task labels, splitters, the
    concrete input values) and compared with the projection of a FRESH construction (clean
    interpreter, empty cache) of the same request; run outputs are compared with the fresh
    run's; objects returned for different requests must not share node objects unless the
    spec says the very same object is returned (exact hit).
"""
import json
import os
import shutil
import subprocess
import tempfile

from harness import core

LEVEL = "model_checking"


def child(hist):
    base = tempfile.mkdtemp(prefix="verif_wfcc_")
    try:
        i, o = os.path.join(base, "in.json"), os.path.join(base, "out.json")
        json.dump(hist, open(i, "w"))
        p = subprocess.run([core.PY, "-m", "harness.wfcc_child", i, o], env=core.child_env(hooks=True), capture_output=True,
                           text=True, timeout=600)
        if not os.path.exists(o):
            raise core.MachineryError("wfcc_child failed: " + p.stderr[-600:])
        return json.load(open(o))
    finally:
        shutil.rmtree(base, ignore_errors=True)


def norm_op(s):
    return {"op": s["op"], "w": s["w"], "v": s["v"], "lazy": sorted(s["lazy"])}


def judge(ctx, h, obs, fresh):
    case = {"history": [norm_op(s) for s in h]}
    seen_obj = {}
    for i, (s, o) in enumerate(zip(h, obs)):
        key = json.dumps(norm_op(dict(s, op="construct" if s["op"] == "construct" else "run")), sort_keys=True)
        f = fresh[key]
        if "err" in o or "err" in f:
            if ("err" in o) != ("err" in f):
                ctx.violation(f"operation {i+1}: error differs from a fresh construction", case=case, expected=f, observed=o)
                return
            continue
        if o["graph"] != f["graph"]:
            ctx.violation(f"operation {i+1} ({s['how']} in the spec): returned workflow differs from a fresh construction",
                          case=case, expected=f["graph"], observed=o["graph"])
            return
        if s["op"] == "run" and o.get("out") != f.get("out"):
            ctx.violation(f"operation {i+1}: run outputs differ from a fresh run", case=case, expected=f.get("out"), observed=o.get("out"))
            return
        # identity / sharing as the spec says
        if s["obj"] in seen_obj:
            pass
        for j in range(i):
            if "err" in obs[j]:
                continue
            same_spec = h[j]["obj"] == s["obj"]
            same_real = obs[j]["obj"] == o["obj"]
            same_request = (h[j]["w"], h[j]["v"], sorted(h[j]["lazy"])) == (s["w"], s["v"], sorted(s["lazy"]))
            # identical requests may be answered with one object whatever hit kind the model predicts (a missed
            # superset hit is cached as an exact entry): only DIFFERENT requests must never share mutable parts
            if not same_spec and not same_request and (set(obs[j]["node_ids"]) & set(o["node_ids"])):
                ctx.violation(f"operations {j+1} and {i+1} return different constructions that share node objects",
                              case=case, expected="no shared mutable parts", observed={"a": obs[j]["node_ids"], "b": o["node_ids"]})
                return
            if same_spec != same_real and s["op"] == "construct" and h[j]["op"] == "construct":
                ctx.observe("object identity differs from the spec's hit kind (not observable through the API)")


def run(ctx):
    ctx.tlc("MC_WfCC", cfg="MC_WfCC_m1.cfg", workers=8, timeout=1500)
    r = ctx.tlc("MC_WfCC", cfg="MC_WfCC_lazybranch.cfg", workers=2, must_pass=False)
    if "Transparent" not in r.invariant_violated:
        raise core.MachineryError("model insensitive: lazy branch inputs do not violate Transparent")
    # file-valued inputs: the memo must tell the same file at two paths apart (as first built it did not)
    ctx.tlc("MC_WfCC", cfg="MC_WfCC_file_m1.cfg", workers=4, timeout=1500)
    r = ctx.tlc("MC_WfCC", cfg="MC_WfCC_file_asbuilt.cfg", workers=2, must_pass=False)
    if not ({"Transparent", "NoLeak"} & set(r.invariant_violated)):
        raise core.MachineryError("model insensitive: a memo keyed by content hashes does not violate Transparent / NoLeak")
    g = ctx.tlc("MC_WfCC", cfg="MC_WfCC_gen4.cfg" if ctx.thorough else "MC_WfCC_gen.cfg", workers=1, timeout=3000)
    hists = g.printed()
    gf = ctx.tlc("MC_WfCC", cfg="MC_WfCC_file_gen.cfg", workers=1, timeout=3000)
    fh = gf.printed()
    total = len(hists) + len(fh)
    hists = ctx.rng.sample(hists, min(len(hists), 1500 if ctx.thorough else 120))
    # file histories: those that construct the same file at two paths first
    twin = [h for h in fh if len({s["v"]["x"] % 10 for s in h}) < len({s["v"]["x"] for s in h})]
    rest = [h for h in fh if h not in twin]
    hists += ctx.rng.sample(twin, min(len(twin), 600 if ctx.thorough else 60)) + ctx.rng.sample(rest, min(len(rest), 200 if ctx.thorough else 20))
    ctx.extra["file_histories"] = {"total": len(fh), "same_file_two_paths": len(twin)}
    # fresh references: every distinct request constructed / run alone in a clean interpreter
    reqs = {}
    for h in hists:
        for s in h:
            reqs[json.dumps(norm_op(s), sort_keys=True)] = norm_op(s)
    keys = sorted(reqs)
    fresh_list = core.tmap(lambda k: child([reqs[k]])[0], keys, threads=8)
    fresh = dict(zip(keys, fresh_list))
    obs = core.tmap(lambda h: child([norm_op(s) for s in h]), hists, threads=8)
    for h, o in zip(hists, obs):
        ctx.ran()
        if len({s["how"] for s in h}) > 1:
            ctx.nontriv(json.dumps([norm_op(s) for s in h]))
        judge(ctx, h, o, fresh)
    ctx.sample({"history": [dict(norm_op(s), how=s["how"]) for s in hists[0]]})
    ctx.rule = "every history of construct(w, inputs, lazy set) / run(w, inputs) operations of WfConstructCache.tla (TLC, BFS over paths), sampled by seed; non-trivial = history with at least two hit kinds"
    ctx.extra["histories_total"] = total
    ctx.extra["fresh_requests"] = len(keys)
    ctx.assume("inputs on which a constructor branches are never in the lazy set (TLC shows transparency fails otherwise)")


def replay(ctx, rec):
    h = rec["case"]["history"]
    obs = child(h)
    fresh = {json.dumps(norm_op(s), sort_keys=True): child([norm_op(s)])[0] for s in h}
    print(obs)
    ctx.ran()
    judge(ctx, [dict(s, how=s.get("how", "?"), obj=s.get("obj", i)) for i, s in enumerate(h)], obs, fresh)
