"""C08 Value hashing is deterministic, discriminating and context-free.

Spec: specs/Identity.tla (relation idOf / keyOf over canonical keys built by TLA+),
generator specs/Identity_Gen.tla (M2: every value term of the depth-2 grammar over a
handful of atoms, extended atoms -- types, functions, attrs / plain / slots objects,
paths, big ints, complex -- and arrays with every shape / dtype), monitor
specs/Identity_Obs.tla (M4, all pairs of observations in O(N log N)).

Every generated term is materialised as a real Python value and hashed with the real
pydra.utils.hash.hash_function / hash_object
  alone; in another insertion order; with maximal object sharing (equal sub-terms are the
  same object); after a cloudpickle round trip; through a Cache in which another live
  value was hashed first; embedded in a pair next to another term (shared / unshared).
The term of the *real* value (in Python's iteration order) + configuration + digest are
the events; TLC builds the keys and evaluates Deterministic / ContextFree / Injective over
the whole log (all pairs).  Thorough adds hypothesis-generated terms (depth <= 4).
"""
import json

from harness import core, identity_common as ic

LEVEL = "model_checking"

INVS = {"Deterministic", "ContextFree", "Injective"}


def has_unordered(t):
    if isinstance(t, dict):
        if t.get("k") in ("set", "frozenset", "dict"):
            return True
        if t.get("k") == "ndarray" and len(t.get("shape", [])) >= 2:
            return True          # memory layout is the "insertion order" of an array
        return any(has_unordered(x) for x in t.values())
    if isinstance(t, list):
        return any(has_unordered(x) for x in t)
    return False


def repeats(t):
    """does the term contain the same non-scalar sub-term twice (sharing can matter)?"""
    seen, dup = set(), [False]

    def walk(x):
        if isinstance(x, dict) and "k" in x:
            if x["k"] not in ("int", "float", "bool", "str", "bytes", "none"):
                k = json.dumps(x, sort_keys=True)
                if k in seen:
                    dup[0] = True
                seen.add(k)
            for y in x.values():
                walk(y)
        elif isinstance(x, list):
            for y in x:
                walk(y)

    walk(t)
    return dup[0]


SCALARS = ("int", "float", "bool", "str", "bytes", "none", "complex", "ellipsis")


def jobs_for(terms, rng, full):
    """configurations per term.  full (thorough): all ten; quick: those that can matter for the term"""
    jobs = []
    n = len(terms)
    for i, t in enumerate(terms):
        w = terms[(i + 1 + rng.randrange(n - 1)) % n] if n > 1 else t
        unordered, scalar = has_unordered(t), t["k"] in SCALARS
        jobs.append({"vid": i, "src": t})
        jobs.append({"vid": i, "src": t, "ctx": "after", "partner": w})
        if full or repeats(t):
            jobs.append({"vid": i, "src": t, "alias": True})
        if full or unordered or not scalar and i % 3 == 0:
            jobs.append({"vid": i, "src": t, "pickled": True})
        if unordered:
            jobs.append({"vid": i, "src": t, "order": 1})
            jobs.append({"vid": i, "src": t, "order": 2, "pickled": True})
        if full or i % 3 == 1:
            pair = {"k": "tuple", "v": [w, t]}
            jobs.append({"vid": i, "src": pair, "ctx": "pair"})
            jobs.append({"vid": i, "src": pair, "ctx": "pair", "alias": True})
        if full or (not scalar and i % 3 == 2):
            twice = {"k": "list", "v": [t, t]}
            jobs.append({"vid": i, "src": twice, "ctx": "twice"})
            jobs.append({"vid": i, "src": twice, "ctx": "twice", "alias": True})
    return jobs


def _chunk(jobs):
    return ic.hash_jobs(jobs, files=None)


def observe(ctx, terms):
    jobs = jobs_for(terms, ctx.rng, ctx.thorough)
    chunks = [jobs[i:i + 400] for i in range(0, len(jobs), 400)]
    evs = [e for part in core.pmap(_chunk, chunks, chunksize=1) for e in part]
    obs = [e for e in evs if e["a"] == "Observe"]
    for e in evs:
        if e["a"] == "NoDigest":
            ctx.observe("value cannot be hashed (no digest; neither equal nor distinct): " + e["err"].split(":")[0],
                        {"term": ic.short(e["src"]), "err": e["err"]})
    return obs


def hypothesis_terms(ctx, n):
    """terms beyond depth 2 (thorough): hypothesis explores the same grammar recursively"""
    from hypothesis import given, settings, strategies as st, HealthCheck, seed

    txt = st.text(alphabet="abAB01 _-é", max_size=4)
    scal = st.one_of(
        st.integers(-3, 3).map(lambda i: {"k": "int", "v": str(i)}),
        st.integers(2**62, 2**66).map(lambda i: {"k": "int", "v": str(i)}),
        st.sampled_from([0.0, 1.0, -1.0, 0.5, 1e300, 3.0]).map(lambda f: {"k": "float", "v": repr(f)}),
        st.booleans().map(lambda b: {"k": "bool", "v": str(b)}),
        txt.map(lambda s: {"k": "str", "v": s}),
        st.binary(max_size=3).map(lambda b: {"k": "bytes", "v": b.hex()}),
        st.just({"k": "none", "v": "None"}),
    )
    strs = txt.map(lambda s: {"k": "str", "v": s})
    ints = st.integers(-3, 3).map(lambda i: {"k": "int", "v": str(i)})

    def uniq(xs):
        seen, out = set(), []
        for x in xs:
            k = json.dumps(x, sort_keys=True)
            if k not in seen:
                seen.add(k)
                out.append(x)
        return out

    def hashable(depth):
        base = st.one_of(strs, ints)
        if depth == 0:
            return base
        sub = hashable(depth - 1)
        fs = st.one_of(st.lists(strs, max_size=3), st.lists(ints, max_size=3)).map(
            lambda xs: {"k": "frozenset", "v": uniq(xs)})
        ffs = st.lists(st.lists(strs, min_size=1, max_size=3).map(lambda xs: {"k": "frozenset", "v": uniq(xs)}),
                       min_size=1, max_size=4).map(lambda xs: {"k": "frozenset", "v": uniq(xs)})
        tup = st.lists(sub, max_size=3).map(lambda xs: {"k": "tuple", "v": xs})
        return st.one_of(base, fs, ffs, tup)

    def arrays():
        return st.builds(
            lambda dt, shape, pat: {"k": "ndarray", "cls": "numpyndarray", "dtype": dt, "shape": list(shape),
                                    "v": [("True" if b else "False") if dt == "bool" else
                                          (("1.0" if b else "0.0") if dt.startswith("float") else ("1" if b else "0"))
                                          for b in [(pat >> i) & 1 for i in range(_prod(shape))]]},
            st.sampled_from(["int64", "float64", "int32", "float32", "uint8", "int8", "bool", "int16", "uint16"]),
            st.sampled_from([(1,), (2,), (4,), (2, 2), (1, 4), (4, 1), (2, 1, 2), (1, 2), (2, 1), (6,), (2, 3), (3, 2)]),
            st.integers(0, 63))

    def values(depth):
        if depth == 0:
            return st.one_of(scal, arrays())
        sub = values(depth - 1)
        return st.one_of(
            scal,
            st.lists(sub, max_size=3).map(lambda xs: {"k": "list", "v": xs}),
            st.lists(sub, max_size=3).map(lambda xs: {"k": "tuple", "v": xs}),
            st.one_of(st.lists(strs, max_size=3), st.lists(ints, max_size=3)).map(lambda xs: {"k": "set", "v": uniq(xs)}),
            hashable(2),
            st.lists(st.tuples(strs, sub), max_size=3).map(
                lambda kv: {"k": "dict", "v": [[k, v] for k, v in {json.dumps(k): (k, v) for k, v in kv}.values()]}),
            st.builds(lambda c, a, b: {"k": "obj", "cls": c, "v": [["a", a], ["b", b]]},
                      st.sampled_from(sorted(ic.CLASSES)), sub, sub),
            arrays(),
        )

    got = []

    @seed(ctx.seed)
    @settings(max_examples=n, database=None, deadline=None, derandomize=False,
              suppress_health_check=list(HealthCheck))
    @given(values(3))
    def collect(t):
        got.append(t)

    collect()
    return uniq(got)


def _prod(shape):
    p = 1
    for s in shape:
        p *= s
    return p


def selftest(ctx):
    """binding self-test: a corrupted digest / a collided digest must be noticed by the TLC monitor"""
    t1, t2 = {"k": "set", "v": [{"k": "int", "v": "1"}, {"k": "int", "v": "2"}]}, {"k": "set", "v": [{"k": "int", "v": "2"}, {"k": "int", "v": "1"}]}
    t3 = {"k": "list", "v": [{"k": "int", "v": "1"}, {"k": "int", "v": "2"}]}
    c = ic.cfg_of()
    evs = [ic.observe_event(t1, "aa", c), ic.observe_event(t2, "aa", c), ic.observe_event(t2, "ab", dict(c, ctx="after")),
           ic.observe_event(t3, "cc", c), ic.observe_event(t3, "cc", c, src=t3), ic.observe_event(t1, "cc", c)]
    reps, _ = ic.validate_obs(ctx, evs, name="selftest")
    got = sorted((r["l"], r["inv"], r["with"]) for r in reps)
    want = [(3, "ContextFree", 1), (6, "Deterministic", 1), (6, "Injective", 4)]
    if any(r["inv"] == "Injective" and r["l"] == 4 for r in reps):   # scan order may pick the other witness
        got = sorted((6 if r["inv"] == "Injective" else r["l"], r["inv"], 4 if r["inv"] == "Injective" else r["with"]) for r in reps)
    if got != want:
        raise core.MachineryError(f"binding self-test failed: monitor reported {got}, expected {want}")


def run(ctx):
    selftest(ctx)
    import time
    t0 = time.time()
    if ctx.thorough:
        terms = ic.gen_terms(ctx, "all", natoms=10, nsmall=3, maxlen1=2, maxlens=2, maxlen2=2, arrsizes=(2, 4, 6))
    else:
        terms = ic.gen_terms(ctx, "all", natoms=8, nsmall=2, maxlen1=2, maxlens=1, maxlen2=2, arrsizes=(2, 6))
    ctx.extra["tlc_terms"] = len(terms)
    # arrays of the TLC grammar have uniform content; derive, for every multi-dimensional array term, the two
    # terms with distinct elements (row-major ramp and its column-major twin) so that memory layout matters
    extra_arr = []
    for t in terms:
        if t["k"] == "ndarray" and len(t["shape"]) >= 2 and t["dtype"] != "bool":
            n = 1
            for d in t["shape"]:
                n *= d
            import numpy as _np
            ramp = list(range(n))
            twin = _np.arange(n).reshape(tuple(t["shape"]), order="F").ravel(order="C").tolist()
            fmt = (lambda i: repr(float(i))) if t["dtype"].startswith("float") else str
            for vals in (ramp, twin):
                extra_arr.append(dict(t, v=[fmt(i) for i in vals]))
    seen_x = set()
    for t in extra_arr:
        k = json.dumps(t, sort_keys=True)
        if k not in seen_x:
            seen_x.add(k)
            terms.append(t)
    ctx.extra["derived_array_terms"] = len(seen_x)
    t1 = time.time()
    if ctx.thorough:
        hyp = hypothesis_terms(ctx, 4000)
        ctx.extra["hypothesis_terms"] = len(hyp)
        terms += hyp
    obs = observe(ctx, terms)
    for e in obs:
        ctx.ran()
    for t in terms:
        if t["k"] not in ("int", "float", "bool", "str", "bytes", "none"):
            ctx.nontriv(json.dumps(t, sort_keys=True))
    t2 = time.time()
    reps, summ = ic.validate_obs(ctx, obs, name="c08")
    ctx.extra["stage_wall_s"] = {"generate": round(t1 - t0, 1), "observe": round(t2 - t1, 1), "validate": round(time.time() - t2, 1)}
    ctx.extra["distinct_keys"] = summ["keys"]
    ctx.extra["distinct_digests"] = summ["digests"]
    ctx.extra["observations"] = len(obs)
    ctx.exhaustive = True
    ctx.rule = ("TLC enumerates every term of the depth-2 grammar (families d1, d2seq, d2set, d2dict, ext, array of "
                "Identity_Gen; distinct = distinct initial states); each term is hashed by the real code in 8-10 "
                "configurations; TLC builds the canonical keys and checks the key<->digest relation over ALL pairs of "
                "observations (keys x digests bijection); non-trivial = non-scalar terms")
    ctx.assume("term_of() is a faithful projection of a Python value (checked per event: the key of the real value "
               "equals the key of the TLC-generated term it was built from)")
    for t in terms[:2] + [t for t in terms if t["k"] == "ndarray"][:1] + [t for t in terms if t["k"] == "frozenset"][-1:]:
        ctx.sample({"term": t})
    ic.judge_observe_reports(ctx, reps, [obs], INVS)


def replay(ctx, rec):
    ic.replay_observe_pair(ctx, rec)
