"""C14 A failing job never stops independent jobs (asynchronous workers).

M1: TLC explores Submitter.tla (expansion loop + worker pool) over small DAGs, every
    subset of failing jobs and every interleaving of worker progress with loop scans:
    IndependentJobsRun, DependentsNeverRun, ErrorNamesEveryFailedJob, FailureIsReported,
    NeverCrashes; the as-built switch RunningLoopRaises must make TLC find the violation.
M3: TLC emits (graph, failing set, completion order) schedules; each is forced on a real
    Submitter(worker="cf") with token-gated bodies: bodies are released / failed in that
    order, waiting for the loop's next scan in between (so "seen running, then fails" is
    realised).
M4: the recorded scan/launch/body events and the final error are validated by TLC against
    Submitter_Trace; outcome and executed-job set must equal the behaviour's.
"""
from harness import core
from harness import sub_common as sc

LEVEL = "model_checking"
PROPS = ["IndependentJobsRun", "DependentsNeverRun", "ErrorNamesEveryFailedJob", "FailureIsReported", "NeverCrashes",
         "StartAfterPredsSucceeded", "NoPendingAtEnd", "ErrorOnlyIfFailure"]


def run(ctx):
    graphs = "Small" if ctx.thorough else "Quick14"
    sc.sub_mc(ctx, "c14_m1", graphs, "K0", "any", PROPS)
    r = sc.sub_mc(ctx, "c14_asbuilt", "GSideChain", "K0", "any", ["NeverCrashes"], raises_asbuilt=True, must_pass=False)
    if "NeverCrashes" not in r.invariant_violated:
        raise core.MachineryError("model insensitive: RunningLoopRaises does not violate NeverCrashes")
    behs = sc.tlc_schedules(ctx, "c14_sched", graphs, "K0", fails="any", simulate=3000 if ctx.thorough else 400, seed=ctx.seed + 3)
    behs = [b for b in behs if b["fails"]]
    pick = behs if ctx.thorough and len(behs) < 600 else sc.pick_schedules(ctx, behs, 600 if ctx.thorough else 36)
    specs = sc.schedules_to_specs(pick, "cf")
    # late futures: when the first job to finish fails and another node fails too, let the first one's future
    # complete late (result on disk, future outstanding while the other completions are processed)
    for sp in list(specs):
        fl = {tuple(j) for j in sp["fails"]}
        if sp["order"] and tuple(sp["order"][0]) in fl and len({j[0] for j in fl}) >= 2:
            specs.append(dict(sp, late=sp["order"][0][0]))
    obs = core.tmap(sc.run_and_trace, specs, threads=8)
    items = sc.judge_runs(ctx, specs, obs, "C14")
    if items:
        ctx.sample({"graph": specs[0]["graph"], "fails": specs[0]["fails"], "order": specs[0]["order"], "events": items[0][2]})
    ctx.rule = "schedules = (graph, failing subset, completion order) behaviours of Submitter.tla sampled by TLC -simulate; each forced on a real cf Submitter"
    ctx.extra["schedules_generated"] = len(behs)


def replay(ctx, rec):
    spec = rec["case"]["spec"]
    o = sc.run_and_trace(spec)
    print(o["out"], o["body"], o["problem"])
    sc.judge_runs(ctx, [spec], [o], "replay")
