"""C07 Identical computations map to the same cache identity in every session.

Spec: specs/Identity.tla -- Deterministic over *configurations* (interpreter process,
PYTHONHASHSEED, insertion order, pickling round trip, worker, cache-root path) and
FoundByNext (a result computed into a cache root by one session is a hit for the next).

TLC generates the value terms (Identity_Gen, M2).  Separate interpreter sessions with
different hash seeds materialise every term (in different insertion orders, with / without
a cloudpickle round trip), and record hash_function(value), Task._checksum of a task taking
the value as input, the cache directory actually created, and whether a later session's
submission into the same root was answered from the cache.  Tasks with several xor groups
(hashed through a frozenset of frozensets of names) are observed as values and run as split
tasks.  TLC (Identity_Obs / Identity_Trace, M4) builds the canonical keys and checks that
the digest is a function of the key across all sessions; thorough adds hypothesis terms.
"""
import json
import os

from harness import core, identity_common as ic

LEVEL = "model_checking"

XOR_MODULE = '''"""generated for C07: tasks with several xor groups (distinct source text per task)"""
import os
import typing as ty
from pydra.compose import python
from pydra.utils.hash import hash_function
from harness import identity_common as ic


def _log():
    log = os.environ.get("VERIF_BODYLOG")
    if log:
        with open(log, "a") as f:
            f.write("body\\n")


@python.define(xor=[("a", "b"), ("c", "d")])
def X2(a: int | None = None, b: int | None = None, c: int | None = None, d: int | None = None) -> int:
    _log()
    return (a or 0) + 10 * (b or 0) + 100 * (c or 0) + 1000 * (d or 0)


@python.define(xor=[("a", "b"), ("c", "d"), ("e", "f")])
def X3(a: int | None = None, b: int | None = None, c: int | None = None, d: int | None = None,
       e: int | None = None, f: int | None = None) -> int:
    _log()
    return (a or 0) + 10 * (b or 0) + 100 * (c or 0) + 1000 * (d or 0) + 7 * (e or 0) + 70 * (f or 0)


@python.define(xor=[("a", "b")])
def X1(a: int | None = None, b: int | None = None, c: int | None = None) -> int:
    _log()
    return (a or 0) + 10 * (b or 0) + 100 * (c or 0)


@python.define(xor=[("a", "b", "c"), ("a", "d")])
def X2o(a: int | None = None, b: int | None = None, c: int | None = None, d: int | None = None) -> int:
    _log()
    return (a or 0) + 10 * (b or 0) + 100 * (c or 0) + 1000 * (d or 0)


CASES = {"X1": (X1, dict(c=5)), "X2": (X2, dict(c=2)), "X3": (X3, dict(c=2, e=3)), "X2o": (X2o, dict())}


def observe_xor(spec, part):
    """hash the task as a value, compute its checksum, run it split over `a` in part['root']"""
    import cloudpickle as cp

    evs = []
    root = part["root"]
    log = os.path.join(os.path.dirname(root), "body_" + spec["proc"] + "_xor.log")
    os.environ["VERIF_BODYLOG"] = log
    for name, (cls, kw) in sorted(CASES.items()):
        plain = cls(a=1, **kw)
        if part.get("pickled"):
            plain = cp.loads(cp.dumps(plain))
        cfg = ic.cfg_of(proc=spec["proc"], pickled=bool(part.get("pickled")), root=os.path.basename(root))
        d, err = ic.digest_of(plain)
        if d:
            evs.append(ic.observe_event(ic.task_term(plain), d, dict(cfg, ctx="task-as-value")))
        else:
            evs.append({"a": "NoDigest", "src": {"k": "str", "v": name}, "err": err, "cfg": cfg})
        evs.append(ic.observe_event({"k": "call", "defn": name, "v": [[k, ic.term_of(v)] for k, v in sorted(dict(kw, a=1).items())]},
                                    plain._checksum, dict(cfg, ctx="checksum")))
        split = cls(**kw).split(a=[1, 2])
        term = {"k": "call", "defn": "Split", "v": [["defn", ic.task_term(split)]]}
        before = ic.body_count(log)
        listing = set(os.listdir(root)) if os.path.isdir(root) else set()
        try:
            out = split(cache_root=root, worker="debug").out
            err = None
        except Exception as e:  # noqa
            out, err = None, type(e).__name__ + ": " + str(e)[:60]
        new = sorted(x for x in set(os.listdir(root)) - listing if x.startswith("workflow-") and not x.endswith(".lock"))
        for wdir in new:
            evs.append(ic.observe_event(term, wdir, dict(cfg, ctx="split-dir")))
        if err:
            evs.append({"a": "NoDigest", "src": {"k": "str", "v": name + ".split"}, "err": err, "cfg": cfg})
        else:
            evs.append({"a": "Submit", "kk": "term", "term": term, "hit": ic.body_count(log) == before,
                        "out": json_out(out), "fresh": json_out(out), "cfg": cfg, "vid": "xor-" + name})
    os.environ.pop("VERIF_BODYLOG", None)
    return evs


def json_out(x):
    import json
    return json.dumps(x, default=str)
'''


def has_unordered(t):
    if isinstance(t, dict):
        if t.get("k") in ("set", "frozenset", "dict"):
            return True
        return any(has_unordered(x) for x in t.values())
    if isinstance(t, list):
        return any(has_unordered(x) for x in t)
    return False


def hash_part(terms, sidx, nsess, thorough):
    jobs = []
    for i, t in enumerate(terms):
        un = has_unordered(t)
        order = sidx % 3 if un else 0
        jobs.append({"vid": i, "src": t, "order": order})
        if un or thorough:
            jobs.append({"vid": i, "src": t, "order": (order + 1) % 3, "pickled": True})
        if (i + sidx) % 4 == 0 or (un and t["k"] in ("set", "frozenset")):
            jobs.append({"vid": i, "src": t, "order": order, "level": "checksum", "pickled": sidx % 2 == 1})
    return {"op": "hash", "jobs": jobs}


def selftest(ctx):
    t = {"k": "frozenset", "v": [{"k": "str", "v": "a"}, {"k": "str", "v": "b"}]}
    t2 = {"k": "frozenset", "v": [{"k": "str", "v": "b"}, {"k": "str", "v": "a"}]}
    evs = [ic.observe_event(t, "d1", ic.cfg_of(seed=1)), ic.observe_event(t2, "d1", ic.cfg_of(seed=2)),
           ic.observe_event(t2, "d2", ic.cfg_of(seed=3))]
    reps, _ = ic.validate_obs(ctx, evs, name="selftest")
    if [(r["l"], r["inv"]) for r in reps] != [(3, "Deterministic")]:
        raise core.MachineryError(f"binding self-test failed: {reps}")
    call = {"k": "call", "defn": "T", "v": [["x", t]]}
    sub = [{"a": "Submit", "kk": "term", "term": call, "hit": False, "out": "o", "fresh": "o"},
           {"a": "Submit", "kk": "term", "term": {"k": "call", "defn": "T", "v": [["x", t2]]}, "hit": False, "out": "o", "fresh": "o"}]
    reps, _ = ic.validate(ctx, [sub], name="selftest_sub")
    if [(r["l"], r["inv"]) for r in reps] != [(2, "FoundByNext")]:
        raise core.MachineryError(f"binding self-test (submit) failed: {reps}")


def run(ctx):
    import time

    selftest(ctx)
    t0 = time.time()
    if ctx.thorough:
        terms = ic.gen_terms(ctx, "all", natoms=10, nsmall=3, maxlen1=2, maxlens=1, maxlen2=2, arrsizes=(2, 6))
        from harness.props import C08
        hyp = C08.hypothesis_terms(ctx, 2500)
        ctx.extra["hypothesis_terms"] = len(hyp)
        terms += hyp
        seeds = [0, 1, 2, 3, ctx.rng.randrange(4, 2**32), ctx.rng.randrange(4, 2**32)]
    else:
        terms = ic.gen_terms(ctx, "all", natoms=6, nsmall=2, maxlen1=2, maxlens=1, maxlen2=1, arrsizes=(2,))
        seeds = [0, 1, 2, ctx.rng.randrange(3, 2**32)]
    ctx.extra["tlc_terms"] = len(terms) - ctx.extra.get("hypothesis_terms", 0)
    files = ctx.scratch / "files"
    files.mkdir()
    fterms = [{"k": "file", "cls": "File", "name": "a.txt", "content": b"AAAA".hex()},
              {"k": "file", "cls": "File", "name": "b.txt", "content": b"BBBB".hex()},
              {"k": "list", "v": [{"k": "file", "cls": "File", "name": "c.bin", "content": bytes(range(7)).hex()}]}]
    for ft in fterms:
        ic.build(ft, files=str(files))
    terms = terms + fterms
    ctx.extra["seeds"] = seeds
    t1 = time.time()
    xmod = ctx.scratch / "verif_c07_xor.py"
    xmod.write_text(XOR_MODULE)
    rootA, rootB = ctx.scratch / "rootA" / "cache", ctx.scratch / "another" / "place" / "cache"
    for r in (rootA, rootB):
        r.mkdir(parents=True)
    fsets = [t for t in terms if t["k"] in ("set", "frozenset") and any(x["k"] == "frozenset" for x in t["v"])]
    others = [t for t in terms if t not in fsets]
    nsub = 150 if ctx.thorough else 20
    sub_terms = ctx.rng.sample(fsets, min(len(fsets), nsub // 3)) + others[:: max(1, len(others) // (nsub - nsub // 3))]
    sub_jobs = [{"vid": i, "src": t} for i, t in enumerate(sub_terms)]
    xor_part = lambda root, pickled=False: {"op": "module", "name": "verif_c07_xor", "path": str(xmod), "fn": "observe_xor",
                                            "root": str(root), "pickled": pickled}
    # phase 1: every session hashes everything; session s1 also fills cache root A, s2 fills root B (other path)
    specs = []
    for n, sd in enumerate(seeds):
        parts = [hash_part(terms, n, len(seeds), ctx.thorough)]
        if n == 1:
            parts += [{"op": "submit", "root": str(rootA), "jobs": sub_jobs}, xor_part(rootA)]
        if n == 2:
            parts += [{"op": "submit", "root": str(rootB), "jobs": sub_jobs[::3]}, xor_part(rootB)]
        specs.append({"proc": f"s{n}", "seed": sd, "files": str(files), "parts": parts})
    res = ic.run_sessions(ctx, specs, timeout=540)
    # phase 2: the next sessions (other seeds, other insertion order, pickled values, one with the cf worker)
    later = [dict(j, order=1, pickled=True) for j in sub_jobs]
    specs2 = [{"proc": "n0", "seed": seeds[0], "files": str(files),
               "parts": [{"op": "submit", "root": str(rootA), "jobs": later}, xor_part(rootA, True)]}]
    res2 = ic.run_sessions(ctx, specs2, timeout=300)
    cf_jobs = later[:: max(1, len(later) // (12 if ctx.thorough else 5))]
    res3 = ic.run_sessions(ctx, [{"proc": "n1", "seed": seeds[-1], "files": str(files),
                                  "parts": [{"op": "submit", "root": str(rootA), "jobs": cf_jobs, "worker": "cf"}]}], timeout=300)
    t2 = time.time()
    allev = [e for s in specs for e in res[s["proc"]]] + res2["n0"] + res3["n1"]
    obs = [e for e in allev if e["a"] == "Observe"]
    subs = [e for e in allev if e["a"] == "Submit"]
    for e in subs:                      # the directory actually used is an observation of the identity, too
        if e.get("checksum"):
            if not e["dir_exists"]:
                ctx.violation("cache directory named by the checksum does not exist after the run",
                              case={"kind": "dir", "event": ic._strip(e)}, expected=e["checksum"], observed=e["newdirs"])
            obs.append(ic.observe_event(e["term"], e["checksum"], dict(e["cfg"], ctx="cache-dir")))
    for e in allev:
        if e["a"] == "NoDigest":
            ctx.observe("no digest / run error (recorded, not judged): " + e["err"].split(":")[0],
                        {"src": ic.short(e["src"]), "err": e["err"], "cfg": e["cfg"]})
    ctx.ran(len(obs) + len(subs))
    for t in terms:
        if t["k"] not in ("int", "float", "bool", "str", "bytes", "none"):
            ctx.nontriv(json.dumps(t, sort_keys=True))
    reps, summ = ic.validate_obs(ctx, obs, name="c07_obs")
    # cache reuse: per root one history, phase 1 first
    hist_A = [e for e in res["s1"] if e["a"] == "Submit"] + [e for e in res2["n0"] + res3["n1"] if e["a"] == "Submit"]
    hist_B = [e for e in res["s2"] if e["a"] == "Submit"]
    sreps, ssum = ic.validate(ctx, [hist_A, hist_B], name="c07_sub")
    t3 = time.time()
    ctx.extra["stage_wall_s"] = {"generate": round(t1 - t0, 1), "sessions": round(t2 - t1, 1), "validate": round(t3 - t2, 1)}
    ctx.extra.update({"observations": len(obs), "submissions": len(subs), "distinct_keys": summ["keys"],
                      "distinct_digests": summ["digests"], "sessions": len(seeds) + 2,
                      "resubmissions_hit": sum(1 for e in res2["n0"] + res3["n1"] if e["a"] == "Submit" and e["hit"]),
                      "resubmissions": sum(1 for e in res2["n0"] + res3["n1"] if e["a"] == "Submit")})
    ctx.exhaustive = True
    ctx.rule = ("TLC enumerates the depth-2 value grammar (Identity_Gen, family all; distinct = initial states); every "
                "term is hashed in every session (seed) in 1-3 insertion orders / pickling variants, a subset also as "
                "task checksum and as a real submission; TLC checks digest = f(key) over all observations of all sessions")
    ctx.assume("term_of() is a faithful projection (checked per event against the generated term)")
    ctx.assume("hash seeds are sampled (0,1,2,3 + seeded random ones), not enumerated")
    for t in [t for t in terms if t["k"] == "frozenset" and t["v"] and t["v"][0]["k"] == "frozenset"][:2] + terms[:1] + fterms[:1]:
        ctx.sample({"term": t, "seeds": seeds})
    ic.judge_observe_reports(ctx, reps, [obs], {"Deterministic"})
    ic.judge_submit_reports(ctx, sreps, [hist_A, hist_B], {"FoundByNext"},
                            describe=lambda tr, r: ic.short(tr[r["l"] - 1]["term"], 120))
    concurrent_file_hash(ctx)


def concurrent_file_hash(ctx):
    """HashCacheEntry.tla on the real code: a writer session (entry write slowed down by a harness-side test double),
    a reader session racing it and a late session must all obtain the same digest for one file."""
    import subprocess, tempfile, shutil, os as _os
    r0 = ctx.tlc("HashCacheEntry", cfg="HashCacheEntry.cfg", workers=1)
    r1 = ctx.tlc("HashCacheEntry", cfg="HashCacheEntry_lockfree.cfg", workers=1, must_pass=False)
    if "SameDigestEverywhere" not in r1.invariant_violated:
        raise core.MachineryError("model insensitive: a lock-free read of the hash-cache entry does not violate SameDigestEverywhere")
    base = tempfile.mkdtemp(prefix="verif_hashrace_")
    try:
        f = _os.path.join(base, "in.dat")
        open(f, "w").write("content of the hashed file\n")
        cache = _os.path.join(base, "hashcache")
        _os.makedirs(cache)
        procs = []
        for role, seed in (("writer", "1"), ("reader", "2")):
            out = _os.path.join(base, role + ".json")
            procs.append((role, out, subprocess.Popen([core.PY, "-m", "harness.hashrace_child", role, f, cache, out],
                                                       env=core.child_env({"PYTHONHASHSEED": seed}), stderr=subprocess.PIPE, text=True)))
        for role, out, p in procs:
            try:
                p.wait(timeout=120)
            except subprocess.TimeoutExpired:
                p.kill()
                raise core.MachineryError(f"hash race child {role} timed out")
        out = _os.path.join(base, "late.json")
        subprocess.run([core.PY, "-m", "harness.hashrace_child", "late", f, cache, out], env=core.child_env({"PYTHONHASHSEED": "3"}), timeout=120)
        res = {}
        for role in ("writer", "reader", "late"):
            pth = _os.path.join(base, role + ".json")
            if not _os.path.exists(pth):
                raise core.MachineryError(f"hash race child {role} wrote no result")
            res[role] = json.load(open(pth))["digest"]
        ctx.ran(3)
        ctx.nontriv("concurrent-file-hash")
        if len(set(res.values())) != 1:
            ctx.violation("sessions hashing one file concurrently obtain different digests (cache identity differs between sessions)",
                          case={"scenario": "concurrent_file_hash"}, expected="one digest", observed=res)
    finally:
        shutil.rmtree(base, ignore_errors=True)


def replay(ctx, rec):
    case = rec["case"]
    if case.get("kind") == "observe-pair":
        return ic.replay_observe_pair(ctx, rec)
    if case.get("kind") == "submit-history":
        # re-validate the recorded history with TLC (the sessions themselves are re-run by ./check C07)
        hist = case["history"]
        reps, _ = ic.validate(ctx, [hist], name="replay")
        ctx.ran()
        print("replay reports:", json.dumps(reps)[:800])
        ic.judge_submit_reports(ctx, reps, [hist], {case["inv"]})
        return
    raise core.MachineryError("unknown replay kind")
