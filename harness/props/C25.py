"""C25 Command-line templates define the task they spell out.

Spec: specs/CmdTemplate.tla (documented token grammar -> field table and argv), case
generator specs/CmdTemplate_Gen.tla.  TLC enumerates element sequences (one element = one
token of the grammar: `<arg>`, `-o <arg>`, `-v<flag>`, `<out|arg>` with every documented
type / `?` `+` `*` `=` `$` decoration) and value patterns, renders the template TEXT and
computes the expected field table (name, kind, type, optional, multi, default, argstr,
template order, path template) and the expected argv.  The driver hands the text to
`shell.define`, projects `get_fields` and the argv (`_command_args` on every case, a real
run of an argv-dumping executable through Submitter on a seeded sample) and compares.
"""
import copy
import random

from harness import core, template_common as tc

LEVEL = "model_checking"
KNOWN_ID = "C25-untyped-output-after-option"
WORLD = None


# ------------------------------------------------------------------ judging (pure)
def judge_table(case, obs):
    """list of (what, expected, observed) for the field table."""
    bad = []
    if obs["define_err"]:
        return [("shell.define rejects a template of the documented grammar", "class defined", obs["define_err"])]
    if obs["exec"] != case["exec"]:
        bad.append(("executable", case["exec"], obs["exec"]))
    exp = {f["name"]: f for f in case["fields"]}
    got = {f["name"]: f for f in obs["fields"]}
    if sorted(exp) != sorted(got):
        return bad + [("field names", sorted(exp), sorted(got))]
    if not obs["after_exe"]:
        bad.append(("fields not positioned after the executable", True, False))
    for n, e in exp.items():
        g = got[n]
        for key in ("kind", "optional", "multi", "default", "argstr", "order", "tmpl", "type"):
            if key == "type" and e["type"]["k"] == "open":
                continue  # the documentation does not decide (spec leaves it open)
            if e[key] != g[key]:
                bad.append((f"field {n}: {key}", e[key], g[key]))
    return bad


def judge_argv(case, argv):
    if case["open"]:
        return None  # positional boolean: printed form not decided by the documentation
    return None if argv == case["argv"] else ("argv", case["argv"], argv)


def check_args(case):
    obs = tc.c25_observe(case, WORLD)
    return judge_table(case, obs), judge_argv(case, obs["argv"]) if not obs["define_err"] else None, obs


def check_run(case):
    obs = tc.c25_run(case, WORLD)
    return judge_argv(case, obs["argv"]), obs


def selftest(case):
    """Binding self-test (independent of what pydra does): an observation equal to the
    expected values must be accepted, a corrupted expected value must be noticed."""
    obs = {"define_err": None, "fields": copy.deepcopy(case["fields"]), "exec": list(case["exec"]), "after_exe": True,
           "argv": list(case["argv"])}
    if judge_table(case, obs) or judge_argv(case, obs["argv"]):
        raise core.MachineryError("selftest: observation equal to the expectation is not accepted")
    c = copy.deepcopy(case)
    c["argv"] = c["argv"] + ["x"]
    if judge_argv(c, obs["argv"]) is None:
        raise core.MachineryError("selftest: corrupted expected argv not noticed")
    c = copy.deepcopy(case)
    c["fields"][0]["optional"] = not c["fields"][0]["optional"]
    if not judge_table(c, obs):
        raise core.MachineryError("selftest: corrupted expected field table not noticed")
    c = copy.deepcopy(case)
    c["fields"][0]["default"] = {"k": "int", "s": "424242", "items": []}
    if not judge_table(c, obs):
        raise core.MachineryError("selftest: corrupted expected default not noticed")
    c = copy.deepcopy(case)
    c["fields"].reverse()
    for k, f in enumerate(c["fields"], start=1):
        f["order"] = k
    if len(c["fields"]) > 1 and not judge_table(c, obs):
        raise core.MachineryError("selftest: corrupted expected order not noticed")


# ------------------------------------------------------------------ generator jobs and replay
CASES = []  # quick tier: all generated cases, inherited by the forked replay workers


def generate(job):
    name, cfg, sim, seed, nsample = job
    return tc.tlc_cases("CmdTemplate_Gen", cfg, simulate=sim.get("simulate"), depth=sim.get("depth"),
                        seed=sim.get("seed"), env=sim.get("env"))


def replay_cases(cases, seed, nsample):
    """Replay cases at `_command_args` level; returns a summary (the parent does the
    accounting and the verdicts)."""
    rng = random.Random(seed)
    out = {"n": len(cases), "templates": set(), "nontriv": 0, "bad": [], "open": 0, "open_example": None,
           "bylen": {}, "sample": [], "first": None, "open_types": {}}
    for case in cases:
        t, a, obs = check_args(case)
        out["templates"].add(case["tpl"])
        out["bylen"][case["n"]] = out["bylen"].get(case["n"], 0) + 1
        if case["n"] >= 2:
            out["nontriv"] += 1
        if case["open"]:
            out["open"] += 1
            out["open_example"] = out["open_example"] or {"tpl": case["tpl"], "vals": case["vals"], "argv": obs["argv"]}
        if case["known"] and obs["fields"]:
            exp = {f["name"]: f for f in case["fields"]}
            for g in obs["fields"]:
                if exp.get(g["name"], {}).get("type", {}).get("k") == "open":
                    key = "type given to an untyped output argument after an option (left open by the documentation): " + \
                        (g["type"]["name"] or g["type"]["k"])
                    out["open_types"][key] = out["open_types"].get(key, 0) + 1
        for what, e, g in t:
            out["bad"].append((case, "field table: " + what, e, g, False))
        if a:
            out["bad"].append((case, "argv for generated values differs from the template order/contents", a[1], a[2], True))
        if out["first"] is None and case["n"] >= 2 and not case["open"] and not case["known"]:
            out["first"] = case
    pool = [c for c in cases if c["n"] >= 1]
    out["sample"] = rng.sample(pool, min(nsample, len(pool)))
    out["templates"] = len(out["templates"])
    return out


def gen_job(job):
    """thorough tier, inside a forked worker: one TLC generator process + replay of its cases."""
    cases, stats = generate(job)
    cases.sort(key=lambda c: c["tpl"])
    out = replay_cases(cases, job[3], job[4])
    out["stats"] = stats
    return out


def replay_range(arg):
    lo, hi, seed, nsample = arg
    return replay_cases(CASES[lo:hi], seed, nsample)


def report(ctx, case, level, what, expected, observed, is_argv):
    if is_argv and case["known"]:
        ctx.judge(False, f"{level}: {what}", case={"tlc": case, "level": level}, expected=expected, observed=observed,
                  known_id=case["known"], asbuilt=case["asbuilt"])
    else:
        ctx.violation(f"{level}: {what}", case={"tlc": case, "level": level}, expected=expected, observed=observed)


def plan(ctx):
    """(name, constants, simulate-args) of every TLC generator process of this tier."""
    base = {"Mode": "enum", "MenuName": "full", "LenLo": 0, "LenHi": 0, "MinEmit": 0, "MaxLen": 0, "Shard": 0, "NShards": 1}
    jobs = []

    def enum(menu, lo, hi, nshards, pick=None):
        shards = list(range(nshards)) if pick is None else sorted(ctx.rng.sample(range(nshards), pick))
        for k, sh in enumerate(shards):
            # sequences of < 2 elements are not sharded: generate them in the first job only
            lo_k = lo if k == 0 else max(lo, 2)
            jobs.append((f"{menu}{lo_k}-{hi}_{sh}of{nshards}",
                         dict(base, MenuName=menu, LenLo=lo_k, LenHi=hi, Shard=sh, NShards=nshards), {}))

    def walk(num, minlen, maxlen, parts):
        for k in range(parts):
            jobs.append((f"walk{minlen}-{maxlen}_{k}", dict(base, Mode="walk", MinEmit=minlen, MaxLen=maxlen),
                         {"simulate": f"num={num // parts}", "depth": maxlen + 1, "seed": ctx.seed * 1000 + k + 1}))

    if ctx.thorough:
        enum("full", 0, 2, 16, pick=6)    # every template of <= 1 element, 6/16 of all pairs of the full menu
        enum("core", 3, 4, 16)            # every sequence of 3-4 representatives
        enum("mixed", 3, 3, 16, pick=2)   # any element followed by two representatives (seeded 1/8)
        walk(2000, 3, 6, 4)               # 3-6 elements sampled from the full menu
    else:
        enum("full", 0, 2, 48, pick=1)
        enum("core", 3, 3, 3, pick=1)
        enum("core", 4, 4, 48, pick=1)
        enum("mixed", 3, 3, 96, pick=1)
        walk(200, 3, 6, 1)
    return jobs


def run(ctx):
    global WORLD
    WORLD = tc.World(ctx.scratch)
    jobs = []
    for i, (name, consts, sim) in enumerate(plan(ctx)):
        if not ctx.thorough:  # short generator runs: skip the optimising JIT tier
            sim = dict(sim, env={"JAVA_TOOL_OPTIONS": "-XX:TieredStopAtLevel=1"})
        cfg = tc.write_cfg(ctx, "c25_" + name, consts)
        jobs.append((name, cfg, sim, ctx.seed * 7919 + i, 40 if ctx.thorough else 25))
    if ctx.thorough:
        results = core.pmap(gen_job, jobs, chunksize=1)
        for r in results:
            tc.account(ctx, r["stats"])
    else:
        from concurrent.futures import ThreadPoolExecutor

        with ThreadPoolExecutor(max_workers=len(jobs)) as ex:
            gens = list(ex.map(generate, jobs))
        for cases, stats in gens:
            tc.account(ctx, stats)
            CASES.extend(cases)
        CASES.sort(key=lambda c: c["tpl"])
        step = max(1, len(CASES) // 64 + 1)
        results = core.pmap(replay_range, [(lo, min(lo + step, len(CASES)), ctx.seed * 7919 + lo, 4)
                                           for lo in range(0, len(CASES), step)], chunksize=1)

    first = next((r["first"] for r in results if r["first"]), None)
    if first is None:
        raise core.MachineryError("no case available for the binding self-test")
    selftest(first)

    bylen, total_templates, sample = {}, 0, []
    for r in results:
        ctx.ran(r["n"])
        ctx.nontrivial_extra += r["nontriv"]
        total_templates += r["templates"]
        for k, v in r["bylen"].items():
            bylen[k] = bylen.get(k, 0) + v
        if r["open"]:
            d = ctx.observations.setdefault("boolean argument without flag text (`<n:bool>`): printed form left open by the documentation",
                                            {"count": 0, "example": r["open_example"]})
            d["count"] += r["open"]
        for key, cnt in r["open_types"].items():
            ctx.observations.setdefault(key, {"count": 0, "example": "e.g. `vdump --long-opt <out|x2>`"})["count"] += cnt
        for case, what, e, g, is_argv in r["bad"]:
            report(ctx, case, "args", what, e, g, is_argv)
        sample += r["sample"]
    ctx.exhaustive = False  # exhaustive sub-spaces are listed in `rule`; the 6-element space is sampled
    ctx.rule = ("TLC enumerates sequences of grammar elements (full menu: 212 elements = every documented type x "
                "decoration x option form for inputs, flags, outputs; core menu: 13 representatives) x value patterns "
                "(nothing optional supplied / everything supplied / alternating); one case = one (template, values) state of "
                "CmdTemplate_Gen; thorough: exhaustive for <= 1 element of the full menu and <= 4 of the core menu, seeded "
                "shards (6/16) of all pairs of the full menu and (1/8) of full x core x core, and -simulate walks of 3-6 "
                "elements of the full menu; quick: seeded shards of the same spaces (all templates of <= 1 element).  "
                "non-trivial = templates with >= 2 elements")
    ctx.extra["cases_by_template_length"] = {str(k): v for k, v in sorted(bylen.items())}
    ctx.extra["templates_defined"] = total_templates
    ctx.assume("the judged grammar is the one of docs/source/tutorial/5-shell.ipynb (built-in types and MIME-like formats; "
               "decorations ? + * = $ mutually exclusive as in every documented example); defaults for file-typed "
               "inputs are not generated")

    # real runs of an argv-dumping executable on a seeded sample
    n_run = 800 if ctx.thorough else 120
    sample = ctx.rng.sample(sample, min(n_run, len(sample)))
    res = core.pmap(check_run, sample, chunksize=2)
    for case, (a, obs) in zip(sample, res):
        ctx.ran()
        if obs["argv"] and obs["argv"][0] == "vdump" and obs["cwd_is_jobdir"] is False:
            ctx.violation("run: executable not started in the job directory", case={"tlc": case, "level": "run"},
                          expected=True, observed=obs)
        if a:
            report(ctx, case, "run", "argv received by the executable differs", a[1], obs["argv"], True)
        elif obs["run_err"] and not case["open"] and not case["known"]:
            ctx.violation("run: task failed although the expected command ran", case={"tlc": case, "level": "run"},
                          expected="success", observed=obs)
    ctx.extra["real_runs"] = len(sample)
    for c in sample[:4]:
        ctx.sample({"template": c["tpl"], "values": {x["name"]: x["v"] for x in c["vals"]},
                    "expected_fields": [{k: f[k] for k in ("name", "kind", "type", "optional", "multi", "default", "argstr", "tmpl")} for f in c["fields"]],
                    "expected_argv": c["argv"]})
    probe_outside_grammar(ctx)


def probe_outside_grammar(ctx):
    """Spellings the tutorial does not document (recorded, never judged)."""
    from pydra.compose import shell

    for tpl in ("vdump <x:text>", "vdump <x:integer>", "vdump <s='a=b'>", "vdump <out|o$a=b.txt>"):
        try:
            shell.define(tpl)
            res = "accepted"
        except Exception as e:  # noqa
            res = f"{type(e).__name__}"
        ctx.observe(f"outside the judged grammar: {tpl!r} -> {res}", tpl)


def replay(ctx, rec):
    global WORLD
    WORLD = tc.World(ctx.scratch)
    case = rec["case"]["tlc"]
    ctx.ran()
    if rec["case"]["level"] == "run":
        a, obs = check_run(case)
        print("replay run:", obs)
        if a:
            report(ctx, case, "run", "argv received by the executable differs", a[1], obs["argv"], True)
    else:
        t, a, obs = check_args(case)
        print("replay args:", obs)
        for what, e, g in t:
            report(ctx, case, "args", "field table: " + what, e, g, False)
        if a:
            report(ctx, case, "args", "argv for generated values differs from the template order/contents", a[1], a[2], True)
