"""C23 Field values reach the command intact.

Spec: ShellArgv!Argv with opaque values (theorem ShellArgv!Intact: every supplied element
is found verbatim in one word of every admissible vector) and the named as-built reference
ShellArgv!AsBuilt (= the documented rendering flattened to a string and re-tokenised by the
TLA+ model of shlex, ShellArgv!Shlex / SplitCmd).  TLC (ShellArgv_Gen, mode chars)
enumerates every string over {a, space, tab, ', ", \\, $, *, ;, e-acute} up to length 3 x ten
placements (bare / -p / -p {x} / --p={x} string fields, list joined with "," / " ",
list and MultiInputObj with "...", File path, append_args) and prints the expectation.
Every case is materialised with the real API; `_command_args()` is compared for all of
them and the argv received by the executed test double (harness/fakes/argvdump, real
Submitter run, native environment) for a seeded subset (thorough: a large one).
"""
import time

from harness import core, shell_common as sc

LEVEL = "model_checking"
PROP = "C23"
NSH = 25  # the length-3 strings are cut into 25 seeded shards for the quick tier


def generate(ctx):
    if ctx.thorough:
        jobs = [("chars", 8, {"minl": 1, "maxl": 3})]
    else:
        # every string of length 1..2, and one seeded 1/25 shard of the length-3 strings
        jobs = [("chars", 1, {"minl": 1, "maxl": 2}),
                ("chars", NSH, {"minl": 3, "maxl": 3}, [ctx.seed % NSH])]
    return sc.generate_many(ctx, jobs)


def placement(case):
    if not case["def"]:
        return "append_args"
    f = case["def"][0]
    return f"{f['kind']}:{sc.argstr_of(f)!r}" + (f" sep={chr(f['sep'])!r}" if f["kind"] in ("list", "multi") else "")


def the_string(case):
    if not case["def"]:
        return sc.dec([c for c in case["app"][0]])
    return "".join(chr(c) for c in case["vals"][0]["es"][0] if c < 1000)


def run(ctx):
    sc.prepare(ctx)
    t0 = time.time()
    cases = generate(ctx)
    t1 = time.time()
    sc.selftest_binding(cases)
    ctx.exhaustive = True
    ctx.rule = ("TLC enumerates (ShellArgv_Gen mode chars) every string over the 10-character alphabet of length "
                "1..3 (quick: length 1..2 plus one seeded 1/25 shard of length 3) x 10 placements; distinct = "
                "initial states; non-trivial = the string contains a character other than 'a'")
    n_exec = 3000 if ctx.thorough else 120
    exec_set = set(ctx.rng.sample(range(len(cases)), min(n_exec, len(cases))))
    obs = sc.observe_all(cases, exec_set)
    t2 = time.time()
    ctx.extra["phase_s"] = {"tlc": round(t1 - t0, 1), "replay": round(t2 - t1, 1)}
    counts, by_class = {}, {}
    for case in cases:
        o = obs[case["k"]]
        ctx.ran()
        s = the_string(case)
        if set(s) - {"a"}:
            ctx.nontriv(case["k"])
        verdict, detail = sc.classify(case, o)
        counts[verdict] = counts.get(verdict, 0) + 1
        if verdict == "asbuilt":
            by_class.setdefault(detail, {}).setdefault(placement(case), 0)
            by_class[detail][placement(case)] += 1
        sc.report(ctx, PROP, case, o, verdict, detail, "exec" if o["executed"] else "args")
    shown = set()
    for c in cases:
        if c["explain"] != "ideal" and c["explain"] not in shown and len(the_string(c)) >= 2 \
                and "a" in the_string(c) and c["asbuilt"]["err"] == "":
            shown.add(c["explain"])
            ctx.sample({"placement": placement(c), "string": the_string(c), "admissible": sc.expected_adm(c)[:1],
                        "explain": c["explain"], "observed": sc.project(obs[c["k"]])})
    for c in [c for c in cases if c["explain"] == "ideal" and set(the_string(c)) & set("$*;é")][:2]:
        ctx.sample({"placement": placement(c), "string": the_string(c), "admissible": sc.expected_adm(c)[:1],
                    "explain": "ideal", "observed": sc.project(obs[c["k"]])})
    ctx.extra["verdict_counts"] = counts
    ctx.extra["asbuilt_by_class_and_placement"] = by_class
    ctx.extra["executed_through_submitter"] = len(exec_set)


def replay(ctx, rec):
    sc.prepare(ctx)
    case = rec["case"]["tlc"]
    o = sc.observe(case, execute=rec["case"].get("level") == "exec")
    ctx.ran()
    verdict, detail = sc.classify(case, o)
    print("replay verdict:", verdict, detail, sc.project(o))
    sc.report(ctx, PROP, case, o, verdict, detail, rec["case"].get("level", "args"))
