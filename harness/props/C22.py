"""C22 Shell argument vector follows the documented field semantics.

Spec: ShellArgv!Argv (set of admissible vectors: executable, contributions of the set
fields in the documented order, append_args) with the named as-built reference
ShellArgv!AsBuilt / Explain.  TLC (ShellArgv_Gen) enumerates
  mode one    every single-field definition of the menu (kind x optional x argstr form x
              '...' x separator) x position x value x append_args,
  mode two    every ordered pair of the reduced menu x every pair of positions,
  mode sample seeded definitions of 2..4 fields drawn from the full menu,
and prints the expectation.  Every case is materialised with shell.define(...)/Task(...)
and `_command_args()` (the vector the native environment executes) is compared; a seeded
subset is additionally run through a Submitter and the argv received by the test double
harness/fakes/argvdump is compared.  Values use only characters that C23 shows to be
transported faithfully, so C22 judges omission, expansion and order only.
"""
from harness import core, shell_common as sc

LEVEL = "model_checking"
PROP = "C22"


def nontrivial(case):
    return len(case["adm"][0]) > 1 + len(case["app"])


def run(ctx):
    sc.prepare(ctx)
    if ctx.thorough:
        jobs = [("one", 1, {}), ("two", 2, {}), ("sample", 8, {"seed": ctx.seed, "nsamples": 12000})]
        n_exec = 1500
    else:
        # quick: one seeded third of the two-field space
        jobs = [("one", 1, {}), ("two", 3, {}, [ctx.seed % 3]), ("sample", 1, {"seed": ctx.seed, "nsamples": 1200})]
        n_exec = 120
    import time
    t0 = time.time()
    cases = sc.generate_many(ctx, jobs)
    t1 = time.time()
    sc.selftest_binding(cases)
    ctx.exhaustive = True
    ctx.rule = ("TLC enumerates (ShellArgv_Gen) every 1-field definition of the menu x position x value x "
                "append_args, every ordered pair of the 16-entry reduced menu x positions (quick: a seeded third), and seeded samples of "
                "2..4 fields from the full menu; distinct = initial states of ShellArgv_Gen; non-trivial = at least "
                "one field contributes an argument")
    ctx.assume("values use characters outside the classes C23 reports (no blanks, quotes, backslashes)")
    ctx.assume("a definition refused when the class is made (two explicit positions claiming one slot) has no "
               "argument vector: recorded as an observation, not judged")

    exec_set = set(ctx.rng.sample(range(len(cases)), min(n_exec, len(cases))))
    obs = sc.observe_all(cases, exec_set)
    t2 = time.time()
    ctx.extra["phase_s"] = {"tlc": round(t1 - t0, 1), "replay": round(t2 - t1, 1)}
    counts = {}
    for case in cases:
        o = obs[case["k"]]
        ctx.ran()
        if nontrivial(case):
            ctx.nontriv(case["k"])
        level = "exec" if o["executed"] else "args"
        verdict, detail = sc.classify(case, o)
        counts[verdict] = counts.get(verdict, 0) + 1
        if verdict == "rejected":
            ctx.observe("definition refused at class creation: two explicit positions claim one slot "
                        "(as-built slot numbering)", {"case": sc.describe(case), "error": o["define_err"]})
        elif verdict == "ok":
            for op in case["open"]:
                ctx.observe(f"open point {op}: admissible alternative taken",
                            {"case": sc.describe(case), "argv": sc.project(o)["argv"]})
        sc.report(ctx, PROP, case, o, verdict, detail, level)
    for c in [c for c in cases if len(c["def"]) >= 3 and c["explain"] == "ideal" and nontrivial(c)][:3] \
            + [c for c in cases if c["explain"] == "position"][:1] + [c for c in cases if c["explain"] == "falsy"][:1]:
        ctx.sample({"case": sc.describe(c), "admissible": sc.expected_adm(c)[:2], "explain": c["explain"],
                    "observed": sc.project(obs[c["k"]])})
    ctx.extra["verdict_counts"] = counts
    ctx.extra["executed_through_submitter"] = len(exec_set)
    ctx.extra["command_args_level_cases"] = len(cases)


def replay(ctx, rec):
    sc.prepare(ctx)
    case = rec["case"]["tlc"]
    o = sc.observe(case, execute=rec["case"].get("level") == "exec")
    ctx.ran()
    verdict, detail = sc.classify(case, o)
    print("replay verdict:", verdict, detail, sc.project(o))
    sc.report(ctx, PROP, case, o, verdict, detail, rec["case"].get("level", "args"))
