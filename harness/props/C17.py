"""C17 Workflow results do not depend on worker or schedule.

Oracle: the WfState.tla reference (TLC, mode M2) - one expected value per workflow, so all
configurations must equal it and therefore each other; the schedule independence of the
expansion loop itself is the Submitter.tla result (C15: every interleaving ends with every
job executed once after its predecessors).  Binding: the C03 workflow generator (records
inside the classes where pydra agrees with the reference under the debug worker are the
interesting ones; records of the recorded C03 findings are skipped) x {debug, cf with
1/2/4/8 processes} x max_concurrent in {1, 2, unlimited} x seeded per-job delays that
permute completion orders.  Every configuration's outputs (all nodes) are compared with
TLC's terms.
"""
import json
import subprocess
import tempfile
import os
import shutil

from harness import core
from harness import wf_common as wc
from harness.props import C03

LEVEL = "model_checking"


def run_batch(batch):
    base = tempfile.mkdtemp(prefix="verif_c17_")
    try:
        inp, out = os.path.join(base, "in.json"), os.path.join(base, "out.json")
        json.dump(batch, open(inp, "w"))
        p = subprocess.run([core.PY, "-m", "harness.wf_child", inp, out], env=core.child_env(hooks=True),
                           capture_output=True, text=True, timeout=1200)
        if not os.path.exists(out):
            raise core.MachineryError("wf_child failed: " + p.stderr[-500:])
        return json.load(open(out))
    finally:
        shutil.rmtree(base, ignore_errors=True)


def run(ctx):
    n = 100 if ctx.thorough else 36      # thorough: ~2800 runs (about 50 min on 16 idle cores)
    wfs = [C03.all_outs(wc.sample(ctx.rng, 3 if i % 2 else 4)) for i in range(3 * n)] + [C03.all_outs(w) for w in wc.diamond_family()]
    nest = [C03.all_outs(wc.nested_sample(ctx.rng, 2 + i % 3)) for i in range(n)]       # nested-workflow nodes (WfState!JobTerm)
    # splits over upstream outputs, list-maker nodes, nodes with ZERO jobs (empty-split family: always kept)
    ups = [wc.upsplit_sample(ctx.rng, 2 + i % 3) for i in range(2 * n)]
    fam = wc.empty_split_family()
    exp = wc.tlc_expected(ctx, wfs + nest + ups + fam)
    ok = lambda e, minjobs=2: (not e["rejected"] and not e["absent"] and max(e["njobs"]) >= minjobs  # noqa
                               and not (e["badinner"] or e["badsplit"] or e["emptypartial"] or e["innerstate"])
                               and not any(c["cD"] or c["cP"] or c["cI"] for c in e["classes"]))
    n_nest = n // 4
    o1, o2, o3 = len(wfs), len(wfs) + len(nest), len(wfs) + len(nest) + len(ups)
    keep_n = [(w, e) for w, e in zip(nest, exp[o1:o2]) if ok(e)][:n_nest]
    keep_u = [(w, e) for w, e in zip(ups, exp[o2:o3]) if ok(e)][:n_nest]
    keep_f = [(w, e) for w, e in zip(fam, exp[o3:]) if ok(e, 0)]
    if not ctx.thorough:
        keep_f = [p for p in keep_f if p[0]["nodes"][0]["name"] == "n0" or p[0]["nodes"][1].get("mk") == 0][:6]
    keep = [(w, e) for w, e in zip(wfs, exp) if ok(e)][:n - len(keep_n) - len(keep_u)] + keep_n + keep_u + keep_f
    wfs = wfs + nest + ups + fam
    ctx.extra["nested_workflow_records"] = len(keep_n)
    ctx.extra["upstream_split_records"] = len(keep_u)
    ctx.extra["empty_split_family"] = len(keep_f)
    skipped = len(wfs) - len(keep)
    cfgs = [{"worker": "debug"}]
    for np_ in ([1, 2, 4, 8] if ctx.thorough else [1, 4]):
        for mc in ([None, 1, 2] if ctx.thorough else [None, 2]):
            for ds in ([0, 1] if ctx.thorough else [0]):
                cfgs.append({"worker": "cf", "n_procs": np_, "max_concurrent": mc, "delay_seed": ctx.seed * 10 + ds})
    items = [{"wf": w, "cfg": c, "k": k} for k, (w, e) in enumerate(keep) for c in cfgs]
    batches = [items[i:i + 12] for i in range(0, len(items), 12)]
    res = core.tmap(run_batch, batches, threads=6)
    flat = [o for b in res for o in b]
    by_wf = {}
    for it, o in zip(items, flat):
        ctx.ran()
        w, e = keep[it["k"]]
        want = [wc.conv(x) for x in e["outs"]]
        ctx.nontriv(json.dumps([it["k"], it["cfg"]]))
        if o["err"] or o["outs"] != want:
            ctx.violation(f"configuration {it['cfg']} yields outputs different from the reference / other workers",
                          case={"wf": w, "cfg": it["cfg"]}, expected=want, observed=o)
        by_wf.setdefault(it["k"], []).append(json.dumps(o.get("outs")))
    ctx.extra["configurations"] = cfgs
    ctx.extra["workflows"] = len(keep)
    ctx.extra["records_skipped_rejected_or_known_classes"] = skipped
    if keep:
        ctx.sample({"workflow": wc.wf_source(keep[0][0]).split("def GenWf")[1], "configurations": len(cfgs)})
    ctx.rule = "C03 generator (3-4 nodes + diamond family + nested-workflow nodes + splits over upstream outputs + the empty-split family (nodes with zero jobs), records of recorded C03 findings skipped) x worker configurations x delay seeds"
    ctx.assume("completion orders are permuted by seeded per-job delays, not forced; forced orders are covered on gate workflows by C15")


def replay(ctx, rec):
    w, cfg = rec["case"]["wf"], rec["case"]["cfg"]
    e = wc.tlc_expected(ctx, [w])[0]
    o = run_batch([{"wf": w, "cfg": cfg}])[0]
    ctx.ran()
    want = [wc.conv(x) for x in e["outs"]]
    print("expected", want)
    print("observed", o)
    if o["err"] or o["outs"] != want:
        ctx.violation("replay: differs", case=rec["case"], expected=want, observed=o)
