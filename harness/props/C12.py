"""C12 A crash at any point never yields a wrong result or a wedged cache.

M1: TLC explores JobProtocol with Crash enabled at every control point (budget 2, 3
    processes, leftover directories, one read-only cache): MutualExclusion,
    SuccessMeansBodyFinished, ErrNeverServed, OkResultOnlyAfterOkBody; and, under weak
    fairness (with StaleBreak), the liveness property EverybodyReturns.
Fault enumeration on real processes: for every hook point on the execution path (job
    points and the sub-steps of save()/record_error()) a forked child runs the task and is
    killed (os._exit(137)) exactly there; two further submissions must each return the
    complete correct outputs within the time-out.  The hook log (crash included) is
    validated against JobProtocol (M4): StaleBreak/Acquire by the successor, lookup result
    consistent with the spec's directory state, every invariant per step.
Truncation: for every byte length of a real _result.pklz, load_result returns None or the
    complete result (never another object, never another exception); sampled lengths are
    followed by a full resubmission.
"""
import os
import pickle
import shutil
import tempfile
from pathlib import Path

from harness import core
from harness import job_common as jc

LEVEL = "fault_enumeration"

OK_POINTS = ["pre_run", "locked", "checked", "info_written", "dir_cleared", "dir_made", "save_locked:1",
             "job_write_begin:1", "job_written:1", "job_saved", "chdir", "pre_run_task", "audit_started",
             "body_start", "body_end", "outputs_collected", "post_run_task", "audit_finalized", "save_locked:2",
             "result_write_begin", "result_written", "job_write_begin:2", "job_written:2", "result_saved",
             "info_unlinked", "cwd_restored", "releasing", "post_run", "returned"]
ERR_POINTS = ["error_file_written", "error_recorded", "post_run_task", "result_write_begin", "result_written",
              "result_saved", "cwd_restored"]


def truncation_case(n_and_data):
    from pydra.engine.result import load_result

    n, data, checksum, full_out = n_and_data
    base = tempfile.mkdtemp(prefix="verif_trunc_")
    try:
        d = Path(base) / checksum
        d.mkdir()
        (d / "_result.pklz").write_bytes(data[:n])
        try:
            r = load_result(checksum, [Path(base)], retries=2, polling_interval=0)
        except BaseException as e:  # noqa
            return n, f"raised {type(e).__name__}: {str(e)[:80]}"
        if r is None:
            return n, "none"
        try:
            out = r.outputs.out
        except Exception as e:  # noqa
            return n, f"object without outputs: {type(e).__name__}"
        return n, ("complete" if out == full_out and not r.errored else f"different object out={out!r}")
    finally:
        shutil.rmtree(base, ignore_errors=True)


def run(ctx):
    r = ctx.tlc("MC_JobProtocol", cfg="MC_C12.cfg", workers=8, coverage=True, timeout=1500)
    ctx.require_coverage(r, ["Crash", "CrashEmpty", "StaleBreak", "Acquire", "CheckHit", "CheckMiss"])
    ctx.tlc("MC_JobProtocol", cfg="MC_C12_live.cfg", workers=4, timeout=1500)
    if ctx.thorough:   # crashes combined with raising bodies and rerun submissions: 8.47 M distinct states, ~1 min
        ctx.tlc("MC_JobProtocol", cfg="MC_C12_deep.cfg", workers=12, timeout=1500)
    specs = []
    for pt in OK_POINTS:
        specs.append({"kind": "seq", "task": "Work", "init": {"root": "absent"}, "crash_point": pt, "mode": "ok",
                      "procs": [{"p": "p1", "crash_at": pt, "mode": "ok"}, {"p": "p2"}, {"p": "p3"}], "timeout": 45})
    for pt in ERR_POINTS:
        specs.append({"kind": "seq", "task": "Work", "init": {"root": "absent"}, "crash_point": pt, "mode": "raise",
                      "procs": [{"p": "p1", "crash_at": pt, "mode": "raise"}, {"p": "p2", "mode": "ok"}, {"p": "p3"}], "timeout": 45})
    if ctx.thorough:
        for pt in OK_POINTS:   # crash of a re-running process over an existing complete result
            specs.append({"kind": "seq", "task": "Work", "init": {"root": "ok"}, "crash_point": pt, "mode": "ok",
                          "procs": [{"p": "p1", "crash_at": pt, "mode": "ok", "rerun": True}, {"p": "p2"}, {"p": "p3"}], "timeout": 45})
        for pt in OK_POINTS[::2]:   # two crashes in a row
            specs.append({"kind": "seq", "task": "Work", "init": {"root": "absent"}, "crash_point": pt + "+body_end", "mode": "ok",
                          "procs": [{"p": "p1", "crash_at": pt, "mode": "ok"}, {"p": "p2", "crash_at": "body_end"}, {"p": "p3"}, {"p": "p4"}], "timeout": 45})
    obs = core.pmap(jc.execute_robust, specs, procs=8, chunksize=1)
    traces = []
    reached = 0
    for tid, (spec, o) in enumerate(zip(specs, obs), 1):
        ctx.ran()
        case = {"spec": spec}
        first = o["outs"][0]
        crashed = first.get("status") == "crashed"
        if crashed:
            reached += 1
            ctx.nontriv(spec["crash_point"] + "/" + spec["mode"] + "/" + spec["init"]["root"])
        later = [x for x, s in zip(o["outs"], spec["procs"]) if not s.get("crash_at")]
        for x in later:
            if x.get("status") == "timeout":
                ctx.violation(f"resubmission after a crash at '{spec['crash_point']}' did not return within {spec['timeout']} s (blocked)",
                              case=case, expected="returns", observed=o["outs"])
            elif x.get("status") != "ok" or x.get("outputs") != jc.EXPECTED["Work"]:
                ctx.violation(f"resubmission after a crash at '{spec['crash_point']}' did not return the complete correct result",
                              case=case, expected=jc.EXPECTED["Work"], observed=o["outs"])
        # a complete result that existed before (init root = ok) and was never cleared by the crashed re-running
        # process is legitimately served: it was produced by a finished body (the donor run)
        preexisting = spec["init"].get("root") == "ok" and not any(e["a"] == "ClearDir" for e in o["ev"])
        if later and o["bodies"][1] < 1 and not preexisting:
            ctx.violation("a result was served although no task body ever finished", case=case, observed=o["bodies"])
        traces.append({"tid": tid, "init": jc.spec_init(spec["init"]), "ev": o["ev"]})
    verdicts = jc.validate_traces(ctx, traces, "ideal")
    for t in traces:
        v = verdicts[t["tid"]]
        if v["verdict"][0] != "accepted":
            ctx.violation(f"trace with a crash is not a behaviour of JobProtocol: {v['verdict']}",
                          case={"spec": specs[t["tid"] - 1]}, expected="accepted", observed={"verdict": v, "events": t["ev"]})
    if reached < len(OK_POINTS) - 1:
        raise core.MachineryError(f"only {reached} crash points were reached")
    # assumption check: a lock left by a killed process is broken (filelock stale detection)
    ctx.assume("filelock SoftFileLock breaks a lock whose owner pid is dead on the same host (verified on this run: every resubmission after a crash inside the locked region returned)")
    # ---- truncation ----
    donor = jc.donor_dir("Work")
    data = (donor / "_result.pklz").read_bytes()
    lens = list(range(len(data) + 1))
    if not ctx.thorough and len(lens) > 4000:
        lens = sorted(set(ctx.rng.sample(lens, 4000) + list(range(0, 64)) + [len(data) - 1, len(data)]))
    res = core.pmap(truncation_case, [(n, data, donor.name, 2) for n in lens], chunksize=16)
    for n, v in res:
        ctx.ran()
        if n == len(data):
            if v != "complete":
                ctx.violation("complete result file not loaded", case={"trunc": n}, expected="complete", observed=v)
        elif v not in ("none", "complete"):
            ctx.violation(f"truncated result file ({n} of {len(data)} bytes) yields {v}", case={"trunc": n}, expected="None or complete result", observed=v)
    ctx.extra["truncation_lengths"] = len(lens)
    ctx.extra["result_file_bytes"] = len(data)
    ctx.extra["crash_points_reached"] = reached
    ctx.sample({"crash_at": specs[7]["crash_point"], "events": [(e["a"], e["p"]) for e in traces[7]["ev"]]})
    ctx.sample({"truncation": "load_result on the first n bytes of a real _result.pklz for n in 0..%d" % len(data)})
    ctx.rule = ("one run per hook point on the execution path (ok and raising bodies; thorough: also rerun over an existing result "
                "and two consecutive crashes) + one load per truncation length; non-trivial = the crash point was actually reached")


def replay(ctx, rec):
    case = rec["case"]
    if "trunc" in case:
        donor = jc.donor_dir("Work")
        data = (donor / "_result.pklz").read_bytes()
        n, v = truncation_case((case["trunc"], data, donor.name, 2))
        ctx.ran()
        print(n, v)
        if v not in ("none", "complete"):
            ctx.violation("replay: truncation", case=case, observed=v)
        return
    spec = case["spec"]
    o = jc.execute(spec)
    ctx.ran()
    print(o["outs"], o["bodies"])
    v = jc.validate_traces(ctx, [{"tid": 1, "init": jc.spec_init(spec["init"]), "ev": o["ev"]}], "ideal")[1]
    print("trace verdict:", v["verdict"])
    later = [x for x, s in zip(o["outs"], spec["procs"]) if not s.get("crash_at")]
    if v["verdict"][0] != "accepted" or any(x.get("status") != "ok" for x in later):
        ctx.violation("replay: crash scenario fails", case=case, observed={"outs": o["outs"], "verdict": v["verdict"]})
