"""C13 Failures are reported and never cached as success.

M1: TLC checks ErrNeverServed, RaiseIsReported, ErrorRecorded on JobProtocol with body
    outcomes {ok, raise} (a raise of the body, or a failure while collecting outputs).
M3/M4: TLC enumerates every history of one process with 3 submissions over those
    outcomes; each history is executed for real with a python task (raise), a python task
    with two declared outputs (dict return lacking one = CollectRaise) and a one-node
    workflow whose node fails; the same cache identity is made to succeed later (the body
    consults a side file).  Expected per submission (from the behaviour): raised / ok,
    body executions = BodyStart steps; error text retrievable; trace validated by TLC.
"""
from harness import core
from harness import job_common as jc

LEVEL = "model_checking"


def plan(b, task):
    """behaviour -> sequential submissions with the body mode each needs, and expectations."""
    procs, expect = [], []
    cur = None
    for s in b["steps"]:
        if s["a"] == "Submit":
            cur = {"p": s["p"], "rerun": s["rerun"], "mode": "ok"}
            procs.append(cur)
            expect.append({"status": "ok", "executed": False})
        elif s["a"] == "BodyStart":
            expect[-1]["executed"] = True
        elif s["a"] == "BodyRaise":
            cur["mode"] = "raise"
        elif s["a"] == "CollectRaise":
            cur["mode"] = "missing" if task == "Two" else "raise"
        elif s["a"] == "RaiseOut":
            expect[-1]["status"] = "raised"
    return procs, expect


def run(ctx):
    r = ctx.tlc("MC_JobProtocol", cfg="MC_C13.cfg", workers=8, coverage=True, timeout=900)
    ctx.require_coverage(r, ["BodyRaise", "CollectRaise", "RecordError", "RaiseOut", "CheckMiss"])
    behs = jc.tlc_behaviours(ctx, "c13_hist", ["p1"], maxsubs=3, rerun="Both", outcomes="OkOrRaise", lroot="OnlyAbsent")
    total = len(behs)
    specs = []
    for task in ("Work", "Two", "Wf1"):
        pick = behs if ctx.thorough else ctx.rng.sample(behs, min(len(behs), 22))
        for b in pick:
            uses_collect = any(s["a"] == "CollectRaise" for s in b["steps"])
            if uses_collect and task != "Two":
                continue
            procs, expect = plan(b, task)
            specs.append({"kind": "seq", "task": task, "init": {"root": "absent"}, "procs": procs, "expect": expect,
                          "steps": b["steps"], "expect_bodies": sum(1 for s in b["steps"] if s["a"] == "BodyStart")})
    obs = core.pmap(jc.execute_robust, specs, procs=8, chunksize=1)
    traces = []
    for tid, (spec, o) in enumerate(zip(specs, obs), 1):
        ctx.ran()
        ctx.nontriv((spec["task"], str([(p["mode"], p["rerun"]) for p in spec["procs"]])))
        case = {"spec": spec}
        for i, (x, exp, pr) in enumerate(zip(o["outs"], spec["expect"], spec["procs"])):
            if exp["status"] == "raised":
                if x.get("status") == "ok":
                    known = pr["mode"] == "missing" and x.get("outputs", {}).get("a") == 2
                    ctx.judge(False, f"submission {i+1} of a failing task (mode={pr['mode']}) returned success",
                              case=case, expected="failure reported", observed="ok" if known else x,
                              known_id="C13-missing-output" if known else None, asbuilt="ok" if known else None)
                    break
                if x.get("status") != "raised":
                    ctx.violation(f"submission {i+1}: unexpected status", case=case, expected="raised", observed=x)
                    break
                if pr["mode"] == "raise" and "body fails on request" not in (x.get("error", "") + " ".join(x.get("notes", []))):
                    ctx.violation(f"submission {i+1}: the recorded error is not reported", case=case, expected="error text", observed=x)
            else:
                if x.get("status") != "ok" or x.get("outputs") != jc.EXPECTED[spec["task"]]:
                    ctx.violation(f"submission {i+1}: expected the correct outputs (a failure must not be served from the cache)",
                                  case=case, expected=jc.EXPECTED[spec["task"]], observed=x)
                    break
        else:
            if spec["task"] != "Wf1" and o["bodies"][0] != spec["expect_bodies"]:
                ctx.violation(f"body executed {o['bodies'][0]} times; the history requires {spec['expect_bodies']} (a failure is executed again)",
                              case=case, expected=spec["expect_bodies"], observed=o["bodies"])
            traces.append({"tid": tid, "init": jc.spec_init(spec["init"]), "ev": o["ev"]})
    verdicts = jc.validate_traces(ctx, traces, "ideal")
    for t in traces:
        v = verdicts[t["tid"]]
        if v["verdict"][0] != "accepted":
            ctx.violation(f"trace of a real run is not a behaviour of JobProtocol: {v['verdict']}",
                          case={"spec": specs[t["tid"] - 1]}, expected="accepted", observed={"verdict": v, "events": t["ev"]})
    ctx.sample({"task": specs[0]["task"], "submissions": specs[0]["procs"], "expected": specs[0]["expect"]})
    ctx.exhaustive = ctx.thorough
    ctx.rule = "every 3-submission history over body outcomes {ok, raise, collect-failure} x rerun flags from TLC, per task kind (python, python two outputs, workflow)"
    ctx.extra["histories_total"] = total


def replay(ctx, rec):
    spec = rec["case"]["spec"]
    o = jc.execute(spec)
    ctx.ran()
    print(o["outs"], o["bodies"], spec["expect"])
    for x, exp in zip(o["outs"], spec["expect"]):
        if x.get("status") != exp["status"]:
            ctx.violation("replay: status differs", case=rec["case"], expected=exp, observed=x)
