"""C13 Failures are reported and never cached as success.

M1: TLC checks ErrNeverServed, RaiseIsReported, ErrorRecorded on JobProtocol with body
    outcomes {ok, raise} (a raise of the body, or a failure while collecting outputs).
M3/M4: TLC enumerates every history of one process with 3 submissions over those
    outcomes; each history is executed for real with a python task (raise), a python task
    with two declared outputs (dict return lacking one = CollectRaise) and a one-node
    workflow whose node fails; the same cache identity is made to succeed later (the body
    consults a side file).  Expected per submission (from the behaviour): raised / ok,
    body executions = BodyStart steps; error text retrievable; trace validated by TLC.
"""
from harness import core
from harness import job_common as jc

LEVEL = "model_checking"


def plan(b, task):
    """behaviour -> sequential submissions with the body mode each needs, and expectations."""
    procs, expect = [], []
    cur = None
    for s in b["steps"]:
        if s["a"] == "Submit":
            cur = {"p": s["p"], "rerun": s["rerun"], "mode": "ok"}
            procs.append(cur)
            expect.append({"status": "ok", "executed": False})
        elif s["a"] == "BodyStart":
            expect[-1]["executed"] = True
        elif s["a"] == "BodyRaise":
            cur["mode"] = "raise"
        elif s["a"] == "CollectRaise":
            cur["mode"] = "missing" if task == "Two" else "raise"
        elif s["a"] == "RaiseOut":
            expect[-1]["status"] = "raised"
    return procs, expect


def _fail_child(args):
    import json
    import os
    import shutil
    import subprocess
    import tempfile
    base = tempfile.mkdtemp(prefix="verif_c13f_")
    try:
        out = os.path.join(base, "out.json")
        p = subprocess.run([core.PY, "-m", "harness.fail_child", out] + [str(a) for a in args], env=core.child_env(hooks=False),
                           capture_output=True, text=True, timeout=600)
        if not os.path.exists(out):
            return {"machinery": p.stderr[-500:]}
        return {"history": json.load(open(out))}
    finally:
        shutil.rmtree(base, ignore_errors=True)


def failure_histories(ctx):
    """The failing pool of the statement beyond python raises: shell commands that exit non-zero or die from a signal,
    and a workflow whose node fails, under concurrency limits.  History (one child interpreter each): submission 1
    while the cause of the failure is present, cause removed, submissions 2 and 3.  The JobProtocol behaviour for it is
    fixed: [raised + executed, ok + executed again, ok + served from the cache]."""
    cases = [("shell", k) for k in ("exit1", "exit3", "sig9", "sig15")]
    cases += [("wf", w, mc) for w in ("debug", "cf") for mc in ((0, 1, 2) if (ctx.thorough or w == "debug") else (0, 1))]
    res = core.tmap(_fail_child, cases, threads=4)
    want = [("failed", 1), ("ok", 1), ("ok", 0)]
    for c, o in zip(cases, res):
        ctx.ran()
        ctx.nontriv(str(c))
        if "machinery" in o:
            raise core.MachineryError(f"fail_child {c}: {o['machinery']}")
        h = o["history"]
        got = [(x["status"] if x["status"] != "raised" else "failed", x["executions"]) for x in h]
        good_out = all((x.get("stdout") == "done-w" and x.get("return_code") == 0) if c[0] == "shell" else x.get("outputs") == [2, 10]
                       for x in h[1:] if x["status"] == "ok")
        ok = got == want and good_out
        # recorded finding: a node that failed in an earlier submission and is held back by max_concurrent in the first
        # pass of the resubmission is never executed again: its stale errored result is taken for the new run's
        #   (i) held back by max_concurrent: never executed again            -> [failed/1, failed/0, failed/0]
        #  (ii) asynchronous worker: update_status may read the stale result before the relaunched job has cleared
        #       its directory: the node IS executed again, yet the submission is reported failed (timing-dependent)
        #                                                                     -> [failed/1, failed/1, ok/0]
        in_class = c[0] == "wf" and (c[2] == 1 or c[1] == "cf")
        asbuilt = ([("failed", 1), ("failed", 0), ("failed", 0)], [("failed", 1), ("failed", 1), ("ok", 0)])
        predicted = in_class and got in asbuilt and good_out
        ctx.judge(ok, f"failure history {c}: expected failure, re-execution, cache hit", case={"failure_history": list(c)},
                  expected=want, observed="stale-error-served" if predicted else h,
                  known_id="C13-heldback-node-stale-error" if in_class else None,
                  asbuilt="stale-error-served" if in_class else None)
    ctx.extra["failure_histories"] = len(cases)


def run(ctx):
    failure_histories(ctx)
    r = ctx.tlc("MC_JobProtocol", cfg="MC_C13.cfg", workers=8, coverage=True, timeout=900)
    ctx.require_coverage(r, ["BodyRaise", "CollectRaise", "RecordError", "RaiseOut", "CheckMiss"])
    behs = jc.tlc_behaviours(ctx, "c13_hist", ["p1"], maxsubs=3, rerun="Both", outcomes="OkOrRaise", lroot="OnlyAbsent")
    total = len(behs)
    specs = []
    for task in ("Work", "Two", "Wf1"):
        pick = behs if ctx.thorough else ctx.rng.sample(behs, min(len(behs), 22))
        for b in pick:
            uses_collect = any(s["a"] == "CollectRaise" for s in b["steps"])
            if uses_collect and task != "Two":
                continue
            procs, expect = plan(b, task)
            specs.append({"kind": "seq", "task": task, "init": {"root": "absent"}, "procs": procs, "expect": expect,
                          "steps": b["steps"], "expect_bodies": sum(1 for s in b["steps"] if s["a"] == "BodyStart")})
    obs = core.pmap(jc.execute_robust, specs, procs=8, chunksize=1)
    traces = []
    for tid, (spec, o) in enumerate(zip(specs, obs), 1):
        ctx.ran()
        ctx.nontriv((spec["task"], str([(p["mode"], p["rerun"]) for p in spec["procs"]])))
        case = {"spec": spec}
        for i, (x, exp, pr) in enumerate(zip(o["outs"], spec["expect"], spec["procs"])):
            if exp["status"] == "raised":
                if x.get("status") == "ok":
                    known = pr["mode"] == "missing" and x.get("outputs", {}).get("a") == 2
                    ctx.judge(False, f"submission {i+1} of a failing task (mode={pr['mode']}) returned success",
                              case=case, expected="failure reported", observed="ok" if known else x,
                              known_id="C13-missing-output" if known else None, asbuilt="ok" if known else None)
                    break
                if x.get("status") != "raised":
                    ctx.violation(f"submission {i+1}: unexpected status", case=case, expected="raised", observed=x)
                    break
                if pr["mode"] == "raise" and "body fails on request" not in (x.get("error", "") + " ".join(x.get("notes", []))):
                    ctx.violation(f"submission {i+1}: the recorded error is not reported", case=case, expected="error text", observed=x)
            else:
                if x.get("status") != "ok" or x.get("outputs") != jc.EXPECTED[spec["task"]]:
                    ctx.violation(f"submission {i+1}: expected the correct outputs (a failure must not be served from the cache)",
                                  case=case, expected=jc.EXPECTED[spec["task"]], observed=x)
                    break
        else:
            if spec["task"] != "Wf1" and o["bodies"][0] != spec["expect_bodies"]:
                ctx.violation(f"body executed {o['bodies'][0]} times; the history requires {spec['expect_bodies']} (a failure is executed again)",
                              case=case, expected=spec["expect_bodies"], observed=o["bodies"])
            traces.append({"tid": tid, "init": jc.spec_init(spec["init"]), "ev": o["ev"]})
    verdicts = jc.validate_traces(ctx, traces, "ideal")
    for t in traces:
        v = verdicts[t["tid"]]
        if v["verdict"][0] != "accepted":
            ctx.violation(f"trace of a real run is not a behaviour of JobProtocol: {v['verdict']}",
                          case={"spec": specs[t["tid"] - 1]}, expected="accepted", observed={"verdict": v, "events": t["ev"]})
    ctx.sample({"task": specs[0]["task"], "submissions": specs[0]["procs"], "expected": specs[0]["expect"]})
    ctx.exhaustive = ctx.thorough
    ctx.rule = "every 3-submission history over body outcomes {ok, raise, collect-failure} x rerun flags from TLC, per task kind (python, python two outputs, workflow)"
    ctx.extra["histories_total"] = total


def replay(ctx, rec):
    if "failure_history" in rec["case"]:
        o = _fail_child(rec["case"]["failure_history"])
        ctx.ran()
        print(o)
        h = o.get("history", [])
        got = [(x["status"] if x["status"] != "raised" else "failed", x["executions"]) for x in h]
        if got != [("failed", 1), ("ok", 1), ("ok", 0)]:
            ctx.violation(f"replay: failure history {rec['case']['failure_history']}", case=rec["case"], observed=h)
        return
    spec = rec["case"]["spec"]
    o = jc.execute(spec)
    ctx.ran()
    print(o["outs"], o["bodies"], spec["expect"])
    for x, exp in zip(o["outs"], spec["expect"]):
        if x.get("status") != exp["status"]:
            ctx.violation("replay: status differs", case=rec["case"], expected=exp, observed=x)
