"""C27 Container environments run the native command with remapped, mounted paths.

Spec: ContainerEnv!IdealPrefix / IdealContainerArgv / Mounts (+ the named as-built
references BlankSplit* and ListCrashErr).  TLC (ContainerEnv_Gen, mode M2) enumerates
shell definitions (single File inputs, list[File] inputs, an output file, a plain word;
bare and flagged arguments, repeated-flag lists) x directory layouts (same, sibling,
nested, a directory name with a blank) x copy modes x command-line order x roots
(default /mnt/pydra, /r, /r/) x {Docker, Singularity} and prints the expected runtime
prefix, bind mounts, working directory and remapped argv.  Every case is replayed on the
real code: Job and Submitter are real, `pydra.environments.base.execute` is replaced in the
harness process by a recorder; the same task is also run in the native environment.
"""
from harness import core, env_common as ec

LEVEL = "model_checking"

RULE = ("TLC enumerates every (definition over the field kinds file/file/list/out/str with <= MaxFiles input "
        "files and at most two file-bearing fields, flag/bare, repeated-flag list) x directory assignment x copy mode x position order x root x "
        "runtime; distinct = initial states of ContainerEnv_Gen; non-trivial = distinct (fields, root, runtime) "
        "with at least one remapped path")


def generate(ctx):
    if ctx.thorough:
        return ec.tlc_cases(ctx, "ContainerEnv_Gen", "c27",
                            dict(MaxFiles=2, CopyModesF={"any", "copy", "link"}, Orders={"fwd", "rev"},
                                 Runtimes={"docker", "singularity"}, RootIds={1, 2, 3}, WithBlank=True,
                                 ListWithF=True, ListPlain=False, Rich=True),
                            nshards=12, timeout=3000)
    return ec.tlc_cases(ctx, "ContainerEnv_Gen", "c27",
                        dict(MaxFiles=2, CopyModesF={"any", "copy", "link"}, Orders={"fwd", "rev"},
                             Runtimes={"docker", "singularity"}, RootIds={1, 2, 3}, WithBlank=True,
                             ListWithF=False, ListPlain=True, Rich=False),
                        nshards=6)


def apply_verdicts(ctx, case, obs):
    for v in ec.c27_verdicts(case, obs):
        if v["note"]:
            ctx.observe(v["note"], {"fields": case["c"]["fields"], "observed": v["observed"]})
        ctx.judge(v["ok"], f"{v['part']}: {v['what']}", case={"tlc": case}, expected=v["expected"],
                  observed=v["observed"], known_id=v["known_id"], asbuilt=v["asbuilt"])
    if "image_token" in obs:
        ctx.observe(f"{case['c']['rt']}: image argument written as NAME" + (":TAG" if ":" in obs["image_token"] else "")
                    + f" (tag {'given' if case['c']['tag'] != 'latest' else 'defaulted'}); not judged",
                    obs["image_token"])
    if obs.get("dup_binds"):
        ctx.observe("the same bind mount is given more than once", {"fields": case["c"]["fields"]})
    if case["open"] and "prefix" in obs:
        for host, mode in sorted(obs.get("open_modes", {}).items()):
            ctx.observe("directory holding both a read-only (linked) input and an output/copied input is mounted "
                        f"{mode} (mode not decided by the statement)", {"dir": host, "fields": case["c"]["fields"]})


def selftest(ctx, cases):
    """Binding self-test: a real observation of a plain case must agree with TLC's expected
    values, and must stop agreeing when one expected value is flipped."""
    import copy

    plain = [c for c in cases if not c["haslist"] and not c["blankb"] and not c["blanka"] and not c["open"]
             and len(c["prefix"]["binds"]) >= 2]
    if not plain:
        raise core.MachineryError("selftest: no plain case in the enumeration")
    case = plain[0]
    (_, obs), = ec.c27_run_group(([case], str(ctx.scratch)))
    vs = ec.c27_verdicts(case, obs)
    if not all(v["ok"] for v in vs):
        return  # a genuine disagreement: the main loop reports it
    for mutate in ("bind-mode", "argv", "wd"):
        bad = copy.deepcopy(case)
        if mutate == "bind-mode":
            b = [x for x in bad["prefix"]["binds"] if x[1].endswith(":ro")]
            if not b:
                continue
            b[0][1] = b[0][1][:-2] + "rw"
        elif mutate == "argv":
            bad["argv"][-1] = bad["argv"][-1] + "x"
        else:
            bad["prefix"]["wd"][0][1] += "/x"
        if all(v["ok"] for v in ec.c27_verdicts(bad, obs)):
            raise core.MachineryError(f"selftest: corrupted expected value ({mutate}) was not noticed")


def run(ctx):
    import time

    ec.isolate_hash_cache(ctx)
    t0 = time.time()
    cases = generate(ctx)
    t1 = time.time()
    selftest(ctx, cases)
    t2 = time.time()
    ctx.rule = RULE
    ctx.exhaustive = True
    ctx.assume("no container runtime in the sandbox: pydra.environments.base.execute is replaced by a recorder "
               "inside the harness process (Job, Submitter, environment classes are real)")
    ctx.assume("paths are compared after collapsing repeated slashes (root '/r/' gives '/r//tmp/..')")
    ctx.assume("bind/working-directory options are recognised by the runtimes' documented flags "
               "(-v/--volume, -w/--workdir; -B/--bind, --pwd); the order of options is not judged")
    groups = ec.c27_groups(cases)
    res = core.pmap(ec.c27_run_group, [(g, str(ctx.scratch)) for g in groups], procs=ec.workers(), chunksize=2)
    t3 = time.time()
    ctx.extra["phase_wall_s"] = {"tlc": round(t1 - t0, 1), "selftest": round(t2 - t1, 1), "replay": round(t3 - t2, 1)}
    n = 0
    for out in res:
        for case, obs in out:
            n += 1
            ctx.ran()
            ctx.nontriv((ec.c27_key(case), case["rootstr"], case["c"]["rt"]))
            apply_verdicts(ctx, case, obs)
    if n != len(cases):
        raise core.MachineryError(f"replayed {n} of {len(cases)} cases")
    for c in ([c for c in cases if not c["haslist"] and not c["blankb"]][:2]
              + [c for c in cases if c["haslist"]][:1] + [c for c in cases if c["blankb"] and not c["haslist"]][:1]):
        ctx.sample({"fields": [{k: f[k] for k in ("name", "kind", "flag", "rep", "copy", "pos")} |
                               {"files": [ec.comp_path(x["dir"]) + "/" + x["name"] for x in f["files"]]}
                               for f in c["c"]["fields"]],
                    "runtime": c["c"]["rt"], "root": c["rootstr"], "expected_prefix": c["prefix"],
                    "expected_argv": c["argv"]})
    ctx.extra["definition_layout_groups"] = len(groups)
    ctx.extra["cases_with_list_input"] = sum(1 for c in cases if c["haslist"])
    ctx.extra["cases_with_blank_in_bind"] = sum(1 for c in cases if c["blankb"] and not c["haslist"])


def replay(ctx, rec):
    ec.isolate_hash_cache(ctx)
    case = rec["case"]["tlc"]
    (_, obs), = ec.c27_run_group(([case], str(ctx.scratch)))
    ctx.ran()
    print("replay observation:", obs)
    apply_verdicts(ctx, case, obs)
