"""C29 Jobs and results survive serialization to worker processes.

Spec: Shipping.tla - shipping (a cloudpickle round trip into another process) is a
stuttering step on the projection [checksum, per-field digests, cache root, read-only
caches, environment kind, worker and submitter parameters]; the shipped job's run yields
the outputs of the unshipped job; the result written in the other process is read back
equal by the submitter's process.  Tasks come from the C03 workflow generator, python
tasks and shell tasks; configurations vary worker, read-only caches, audit flags and
max_concurrent.  Each case is one real round trip through a FRESH interpreter; the
recorded events are validated by TLC (M4).  Thin use of TLA+ (one action), stated as such.
"""
import importlib.util
import json
import os
import shutil
import subprocess
import sys
import tempfile
from pathlib import Path

from harness import core

LEVEL = "model_checking"


def plain(x):
    if isinstance(x, dict):
        return {str(k): plain(v) for k, v in x.items()}
    if isinstance(x, (list, tuple)):
        return [plain(i) for i in x]
    if isinstance(x, (str, int, float, bool)) or x is None:
        return x
    return repr(x)


def outputs_of(result):
    from pydra.utils.general import attrs_values
    return {k: v for k, v in attrs_values(result.outputs).items()}


WORKER_VARIANTS = {      # non-default parameter sets per plugin (index = Shipping_Gen variant)
    "debug": [{}],
    "cf": [{}, {"n_procs": 1}, {"n_procs": 3}],
    "slurm": [{}, {"poll_delay": 3, "sbatch_args": "-p debug"}, {"poll_delay": 2, "sbatch_args": "--mem=1G -t 5"}],
    "sge": [{}, {"qsub_args": "-q all.q", "max_threads": 4, "write_output_files": False},
            {"poll_for_result_file": False, "default_threads_per_task": 2, "max_job_array_length": 7}],
}


def worker_kwargs(cfg):
    if "variant" in cfg:
        return dict(WORKER_VARIANTS[cfg["worker"]][cfg["variant"]])
    return {"n_procs": cfg.get("n_procs", 2)} if cfg["worker"] == "cf" else {}


def make_submitter(cfg, root, ro):
    """the three ways a Submitter accepts its worker"""
    from pydra.engine.submitter import Submitter
    from pydra.workers.base import Worker
    from pydra.utils.messenger import AuditFlag
    wkw = worker_kwargs(cfg)
    kw = {}
    if cfg.get("max_concurrent") or cfg.get("maxc"):
        kw["max_concurrent"] = cfg.get("max_concurrent") or cfg.get("maxc")
    how = cfg.get("how", "name")
    if how == "name":
        worker, kw = cfg["worker"], {**kw, **wkw}
    elif how == "class":
        worker, kw = Worker.plugin(cfg["worker"]), {**kw, **wkw}
    else:
        worker = Worker.plugin(cfg["worker"])(**wkw)
    return Submitter(cache_root=root, worker=worker, readonly_caches=ro or None,
                     audit_flags=getattr(AuditFlag, cfg.get("audit", "NONE")), **kw)


def worker_projection(w):
    """every scalar parameter of the worker (attrs fields) + the size of a process pool"""
    import attrs
    d = {}
    for a in attrs.fields(type(w)):
        if a.name == "loop":
            continue
        v = getattr(w, a.name, "<missing>")
        if isinstance(v, (str, int, float, bool)) or v is None:
            d[a.name] = v
        elif hasattr(v, "_max_workers"):
            d[a.name] = {"max_workers": v._max_workers}
    return d


def project(job):
    sub = job.submitter
    return json.dumps({
        "worker_params": worker_projection(sub.worker),
        "checksum": job.checksum,
        "hashes": {k: str(v) for k, v in sorted(job.task._compute_hashes()[1].items())},
        "cache_root": str(job.cache_root),
        "readonly": [str(p) for p in (job._readonly_caches or [])],
        "env": type(job.environment).__name__,
        "worker": type(sub.worker).__name__,
        "n_procs": getattr(sub.worker, "n_procs", None),
        "max_concurrent": repr(sub.max_concurrent),
        "audit": int(sub.audit.audit_flags.value) if hasattr(sub.audit.audit_flags, "value") else repr(sub.audit.audit_flags),
        "name": job.name,
    }, sort_keys=True)


def build_task(spec, base):
    """spec: {"kind": "wf", "wf": record} | {"kind": "py", "x": ..} | {"kind": "sh", "args": [...]}"""
    if spec["kind"] == "wf":
        from harness import wf_common as wc
        src = wc.wf_source(spec["wf"])
        p = Path(base) / f"shipwf_{abs(hash(src)) % 10**9}.py"
        if not p.exists():
            p.write_text(src)
        if p.stem in sys.modules:
            mod = sys.modules[p.stem]
        else:
            sp = importlib.util.spec_from_file_location(p.stem, p)
            mod = importlib.util.module_from_spec(sp)
            sys.modules[p.stem] = mod
            sp.loader.exec_module(mod)
        return mod.GenWf(**wc.INPUT_VALUES)
    if spec["kind"] == "py":
        from harness import job_common as jc
        return jc.Work(x=spec["x"]) if spec.get("two") is None else jc.Two(x=spec["x"])
    from pydra.compose import shell
    return shell.define("echo <a:str> <b:str>")(a=spec["args"][0], b=spec["args"][1])


def run_batch(batch):
    base = tempfile.mkdtemp(prefix="verif_c29_")
    try:
        i, o = os.path.join(base, "in.json"), os.path.join(base, "out.json")
        json.dump(batch, open(i, "w"))
        p = subprocess.run([core.PY, "-m", "harness.ship_parent", i, o], env=core.child_env(hooks=True), capture_output=True,
                           text=True, timeout=1800)
        if not os.path.exists(o):
            raise core.MachineryError("ship_parent failed: " + p.stderr[-600:])
        return json.load(open(o))
    finally:
        shutil.rmtree(base, ignore_errors=True)


def run(ctx):
    from harness import wf_common as wc
    from harness.props import C03
    n = 200 if ctx.thorough else 14
    wfs = [C03.all_outs(wc.sample(ctx.rng, 2 + i % 2)) for i in range(6 * n)]
    exp = wc.tlc_expected(ctx, wfs)
    wfs = [w for w, e in zip(wfs, exp) if not e["rejected"] and not e["absent"] and not any(c["cD"] or c["cP"] or c["cI"] for c in e["classes"])][:n]
    tasks = [{"kind": "wf", "wf": w} for w in wfs]
    tasks += [{"kind": "py", "x": k} for k in range(1, (40 if ctx.thorough else 4))]
    tasks += [{"kind": "sh", "args": [f"a{k}", "bcd"[: 1 + k % 3]]} for k in range(1, (40 if ctx.thorough else 4))]
    gen = ctx.tlc("Shipping_Gen", cfg="Shipping_Gen.cfg", workers=1)
    allcfgs = sorted(({**c, "n_ro": c["nro"]} for c in gen.printed()), key=lambda c: json.dumps(c, sort_keys=True))
    if len(allcfgs) != 240:
        raise core.MachineryError(f"Shipping_Gen produced {len(allcfgs)} configurations")
    if ctx.thorough:
        cfgs = allcfgs
    else:       # quick: every (worker, how, variant) once, the other dimensions drawn per configuration
        by = {}
        for c in allcfgs:
            by.setdefault((c["worker"], c["how"], c["variant"]), []).append(c)
        cfgs = [ctx.rng.choice(v) for _, v in sorted(by.items())]
    ctx.rng.shuffle(cfgs)
    run_cfgs = [c for c in cfgs if c["runnable"]]
    ship_cfgs = [c for c in cfgs if not c["runnable"]]
    cases = [{"task": t, "cfg": run_cfgs[(i + j) % len(run_cfgs)]} for i, t in enumerate(tasks) for j in range(2 if ctx.thorough else 1)]
    # every runnable configuration at least once; batch-system workers are shipped and projected only
    used = {json.dumps(c["cfg"], sort_keys=True) for c in cases}
    cases += [{"task": tasks[k % len(tasks)], "cfg": c} for k, c in enumerate(run_cfgs) if json.dumps(c, sort_keys=True) not in used]
    cases += [{"task": tasks[-1 - k % 6], "cfg": c} for k, c in enumerate(ship_cfgs)]
    ctx.extra["configurations"] = {"all": len(allcfgs), "used": len({json.dumps(c["cfg"], sort_keys=True) for c in cases})}
    batches = [cases[i:i + 6] for i in range(0, len(cases), 6)]
    res = [r for b in core.tmap(run_batch, batches, threads=6) for r in b]
    lines = validate(ctx, cases, res)
    ctx.sample({"case": cases[0]["cfg"], "events": [e["a"] + "@" + e["where"] for e in lines[0]["ev"]] if lines else []})
    ctx.rule = RULE


def validate(ctx, cases, res):
    """recorded round trips -> Shipping.tla (M4); a rejected trace is a violation"""
    lines = []
    for tid, (c, r) in enumerate(zip(cases, res), 1):
        ctx.ran()
        ctx.nontriv(json.dumps([c["task"].get("kind"), c["cfg"], tid]))
        if "machinery" in r:
            ctx.violation("the job could not be shipped / run in a fresh interpreter", case={"case": c}, expected="round trip", observed=r["machinery"])
            continue
        lines.append({"tid": tid, "ev": [{"a": e["a"], "where": e.get("where", ""), "p": e.get("p") or "", "out": e.get("out") or ""} for e in r["ev"]]})
    f = ctx.scratch / "ship.ndjson"
    f.write_text("".join(json.dumps(l) + "\n" for l in lines))
    tl = ctx.tlc("Shipping", cfg="Shipping.cfg", workers=1, env={"TRACE_FILE": str(f)})
    verd = {rec["tid"]: rec for rec in tl.printed()}
    for l in lines:
        v = verd.get(l["tid"], {"verdict": ["no verdict"]})
        if v["verdict"][0] != "accepted":
            c = cases[l["tid"] - 1]
            ev = l["ev"][min(v.get("l", 1), len(l["ev"])) - 1]
            ctx.violation(f"shipping trace rejected at {v['verdict']}: {ev['a']} ({ev['where']})", case={"case": c},
                          expected="accepted", observed={"verdict": v, "events": l["ev"]})
    return lines


RULE = ("tasks (C03 workflow generator records outside the recorded finding classes, python tasks, shell tasks) x "
                "worker/submitter configurations enumerated by TLC (Shipping_Gen: plugin x way of passing the worker x parameter "
                "set x read-only caches x audit x max_concurrent; quick: every plugin/way/parameter-set once); one cloudpickle "
                "round trip through a fresh interpreter each; batch-system workers are shipped and projected, not run")


def replay(ctx, rec):
    c = rec["case"]["case"]
    res = run_batch([c])
    print(res)
    validate(ctx, [c], res)
