"""C15 Jobs start only after the jobs they consume have succeeded; each job runs once.

M1: TLC checks StartAfterPredsSucceeded, EachJobOnce, AllRunWhenNoFailure on Submitter.tla
    for chains, fan-in, fan-out, diamonds and split nodes, every limit K and every
    interleaving.  M3/M4: completion orders from TLC forced on a real cf Submitter with
    gated bodies; the debug (sequential) worker is run ungated; traces validated by TLC.
"""
from harness import core
from harness import sub_common as sc

LEVEL = "model_checking"


def run(ctx):
    graphs = "Small" if ctx.thorough else "Quick15"
    sc.sub_mc(ctx, "c15_m1", graphs, "KAll", "none", ["StartAfterPredsSucceeded", "EachJobOnce", "AllRunWhenNoFailure", "NeverCrashes"])
    behs = sc.tlc_schedules(ctx, "c15_sched", graphs, "KAll", fails="none", simulate=2500 if ctx.thorough else 300, seed=ctx.seed + 5)
    pick = sc.pick_schedules(ctx, behs, 500 if ctx.thorough else 30)
    specs = sc.schedules_to_specs(pick, "cf")
    # sequential loop (debug worker): no control needed, bodies run inline
    seen = set()
    for b in behs:
        key = (b["graph"]["name"], b["K"])
        if key not in seen:
            seen.add(key)
            s = sc.schedules_to_specs([b], "debug")[0]
            s["order"] = []          # everything released up-front
            s["expect"] = {"outcome": "done", "errors": [], "ran": b["ran"]}
            specs.append(s)
    obs = core.tmap(sc.run_and_trace, specs, threads=8)
    items = sc.judge_runs(ctx, specs, obs, "C15")
    if items:
        ctx.sample({"graph": specs[0]["graph"], "K": specs[0]["K"], "order": specs[0]["order"], "events": items[0][2]})
    ctx.rule = "schedules = (graph, K, completion order) behaviours of Submitter.tla from TLC; cf worker gated, debug worker ungated"
    ctx.extra["schedules_generated"] = len(behs)


def replay(ctx, rec):
    spec = rec["case"]["spec"]
    o = sc.run_and_trace(spec)
    print(o["out"], o["body"], o["problem"])
    sc.judge_runs(ctx, [spec], [o], "replay")
