"""C19 Task execution cannot silently alter its recorded inputs.

Spec: InputIntegrity.tla - submitted value, the copy the body sees (aliased with the
sequential worker, a pickled copy in a pool worker, a staged copy for copy-mode files), the
post-run hash check.  TLC checks MutationReported, NoFalseReport, StoredUnderOriginalId,
CopyLeavesOriginal on every (input kind, worker, mutates) behaviour and emits the expected
observation; each case is run for real in a fresh interpreter and compared.
TLA+ adds little beyond the case table here (small exhaustive space); stated as such.
"""
import json
import os
import shutil
import subprocess
import tempfile

from harness import core

LEVEL = "model_checking"
FIELD = {"list": "x", "dict": "x", "set": "x", "object": "x", "array": "x", "array-shape": "x", "file-any": "f", "file-copy": "f",
         "tuple-list": "x", "tuple-dict": "x", "tuple-array": "x", "dict-list": "x"}


def run_case(c):
    base = tempfile.mkdtemp(prefix="verif_mut_")
    try:
        o = os.path.join(base, "out.json")
        p = subprocess.run([core.PY, "-m", "harness.mut_child", c["kind"], c["worker"], "1" if c["mutates"] else "0", o],
                           env=core.child_env(hooks=True), capture_output=True, text=True, timeout=600)
        if not os.path.exists(o):
            return {"machinery": p.stderr[-600:]}
        return json.load(open(o))
    finally:
        shutil.rmtree(base, ignore_errors=True)


def judge(ctx, c, o):
    case = {"case": c}
    if "machinery" in o:
        raise core.MachineryError("mut_child failed: " + o["machinery"])
    if o["caller_changed"] != c["caller_changed"]:
        if o["caller_changed"]:
            ctx.violation(f"{c['kind']}/{c['worker']}: the caller's input was altered although the specification says it is not",
                          case=case, expected=c, observed=o)
        else:
            ctx.observe("input not altered although aliased in the model (harmless)", {"case": c, "obs": o})
    if o["caller_changed"] and not (o["status"] == "raised" and "hash" in o.get("error", "").lower()):
        ctx.violation(f"{c['kind']}/{c['worker']}: input altered in place and no error reported", case=case,
                      expected="RuntimeError: Input field hashes have changed", observed=o)
    if o["caller_changed"] and o["status"] == "raised" and f"- {FIELD[c['kind']]}:" not in o.get("error", ""):
        ctx.violation("the reported error does not name the altered field", case=case, expected=FIELD[c["kind"]], observed=o.get("error"))
    if not o["caller_changed"] and o["status"] != "ok":
        ctx.violation(f"{c['kind']}/{c['worker']}: error although the submitted inputs are unchanged", case=case, expected="ok", observed=o)
    if o["dirs"] != [o["pre"]]:
        ctx.violation("result not stored under the cache identity of the original inputs", case=case, expected=[o["pre"]], observed=o["dirs"])


def run(ctx):
    r = ctx.tlc("InputIntegrity", cfg="InputIntegrity.cfg", workers=1)
    cases = r.printed()
    outs = core.tmap(run_case, cases, threads=8)
    for c, o in zip(cases, outs):
        ctx.ran()
        if c["mutates"]:
            ctx.nontriv(json.dumps(c))
        judge(ctx, c, o)
    ctx.exhaustive = True
    ctx.sample({"case": cases[0], "observed": outs[0]})
    ctx.rule = "TLC enumerates every (input kind in 8, worker in {debug, cf}, mutates) behaviour of InputIntegrity; one real run each"
    ctx.assume("the model's 'aliased' relation (debug worker shares objects, cf pickles, copy-mode files are staged) is part of the specification and is itself checked: a changed caller value where the model says unaliased is a violation")


def replay(ctx, rec):
    c = rec["case"]["case"]
    o = run_case(c)
    ctx.ran()
    print(o)
    judge(ctx, c, o)
