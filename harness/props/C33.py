"""C33 Workflow output files are collected without clashes or loss.

Spec: specs/Staging.tla (MustDiffer / ContentOf / ShapeOf; theorem: staging by base name is
valid iff no name clash).  TLC (Staging_Gen, mode M2) enumerates every case: one output
field holding a nested value (list/tuple/dict to depth 2) or two output fields of depth
<= 1, leaves ranging over 4 files and 2 directories in 3 source directories with colliding
names (the same object may occur several times) and a non-file value.
Replay: for every case a real one-node workflow (source text generated per type
signature) is run with the debug worker; the outputs and the workflow's cache directory
are observed and compared with the values TLC computed.
"""
from concurrent.futures import ThreadPoolExecutor
from pathlib import Path

from harness import core, staging_common as sc

LEVEL = "model_checking"
MAX_RECORDED = 12  # replay files written per run (the rest is only counted)
POOL = ["F1", "F2", "G3", "N1", "S1", "S2"]


# ------------------------------------------------------------------ generated workflows
def sig_of(case):
    return tuple(sc.type_text(f) for f in case["fields"])


def defs_text(sigs):
    out = [sc.HEADER]
    for idx, sig in enumerate(sigs):
        n = len(sig)
        outs = ", ".join(f'"o{i + 1}": {t}' for i, t in enumerate(sig))
        args = ", ".join(f"x{i + 1}: {t}" for i, t in enumerate(sig))
        ret = ", ".join(f"x{i + 1}" for i in range(n))
        kw = ", ".join(f"x{i + 1}=x{i + 1}" for i in range(n))
        lazy = ", ".join(f"n.o{i + 1}" for i in range(n))
        out.append(f"""
@python.define(outputs={{{outs}}})
def N{idx}({args}):
    return {ret}


@workflow.define(outputs={{{outs}}})
def W{idx}({args}):
    n = workflow.add(N{idx}({kw}))
    return {lazy}
""")
    return "\n".join(out)


_DEFS = {}


def prepare(ctx, cases, name="c33_defs"):
    sigs = sorted({sig_of(c) for c in cases})
    mod = sc.load_defs(ctx, name, defs_text(sigs))
    _DEFS.clear()
    _DEFS.update({sig: getattr(mod, f"W{i}") for i, sig in enumerate(sigs)})


# ------------------------------------------------------------------ real code
def observe(case, info, variant):
    W = _DEFS[sig_of(case)]
    with sc.Scratch("verif_c33_") as tmp:
        salt = "|" + tmp.name
        pool = sc.materialise_pool(tmp / "src", info, salt)
        shared = {} if variant % 2 == 0 else None
        vals = [sc.build_value(f, pool, shared) for f in case["fields"]]
        cache = tmp / "cache"
        obs = {"err": None}
        try:
            wf = W(**{f"x{i + 1}": v for i, v in enumerate(vals)})
            stored = [getattr(wf, f"x{i + 1}") for i in range(len(vals))]
            if [sc.shape_of(s) for s in stored] != [sc.shape_of(v) for v in vals]:
                obs["err"] = "harness: the workflow input was coerced before the run"
                obs["harness"] = True
                return obs
            res = wf(cache_root=cache, worker="debug")
            outs = [getattr(res, f"o{i + 1}") for i in range(len(vals))]
        except Exception as e:  # noqa
            obs["err"] = f"{type(e).__name__}: {str(e)[:200]}"
            return obs
        wfdirs = [p for p in cache.iterdir() if p.is_dir() and p.name.startswith("workflow-")]
        if len(wfdirs) != 1:
            obs["err"] = f"harness: {len(wfdirs)} workflow directories"
            obs["harness"] = True
            return obs
        wfdir = wfdirs[0]
        obs["shape"] = [sc.shape_of(o) for o in outs]
        leaves = [x for o in outs for x in sc.flatten(o)]
        obs["leaves"] = []
        for lf in leaves:
            if isinstance(lf, int):
                obs["leaves"].append({"dest": [], "content": [str(lf)], "inside": True})
                continue
            dest = sc.leaf_paths(lf)
            obs["leaves"].append({
                "dest": [str(Path(d).relative_to(wfdir)) if sc.inside(d, wfdir) else d.replace(str(tmp), "<tmp>") for d in dest],
                "content": sc.read_leaf(lf, salt),
                "inside": all(sc.inside(d, wfdir) and sc.inside(Path(d).resolve(), wfdir.resolve())
                              and not Path(d).is_symlink() for d in dest)})
        obs["sources_intact"] = all(
            [((p / "f.txt") if p.is_dir() else p).read_text() for p in d["paths"]] == d["content"]
            for d in pool.values())
        obs["tree"] = sc.tree_of(wfdir, skip=("_job.pklz", "_result.pklz", "_return_values.pklz"))
        return obs


def judge(case, obs):
    """-> (verdict, detail); every expected value is taken from the TLC case"""
    if obs.get("harness"):
        return "harness", obs["err"]
    if obs["err"]:
        return "collection-failed", obs["err"]
    if [sc.norm_shape(s) for s in obs["shape"]] != [sc.norm_shape(s) for s in case["shape"]]:
        return "shape-changed", obs["shape"]
    lv = obs["leaves"]
    if len(lv) != len(case["leaves"]):
        return "leaf-count", len(lv)
    for i, (l, exp) in enumerate(zip(lv, case["content"])):
        if l["content"] != exp:
            return "content-not-preserved", {"leaf": i + 1, "expected": exp, "observed": l["content"]}
        if not l["inside"]:
            return "outside-workflow-directory", {"leaf": i + 1, "dest": l["dest"]}
    for i, j in case["differ"]:
        if set(lv[i - 1]["dest"]) & set(lv[j - 1]["dest"]):
            return "distinct-sources-share-destination", {"leaves": [i, j], "dest": lv[i - 1]["dest"]}
    if not obs["sources_intact"]:
        return "source-files-altered", None
    return "ok", None


def check(arg):
    case, info, variant = arg
    obs = observe(case, info, variant)
    v, d = judge(case, obs)
    extra = {}
    if v == "ok":
        lv = obs["leaves"]
        extra["same_coincide"] = [lv[i - 1]["dest"] == lv[j - 1]["dest"] for i, j in case["same"]]
        extra["across_coincide"] = [lv[i - 1]["dest"] == lv[j - 1]["dest"] for i, j in case["across"]]
    return v, d, (obs if v != "ok" else None), extra


def selftest(case, info):
    """Binding self-test: corrupted expectations must be noticed."""
    obs = observe(case, info, 0)
    if judge(case, obs)[0] != "ok":
        return
    bad = dict(case, content=[["corrupted"]] + case["content"][1:])
    if judge(bad, obs)[0] == "ok":
        raise core.MachineryError("selftest: corrupted expected content not noticed")
    bad = dict(case, differ=[[1, 1]])
    if judge(bad, obs)[0] == "ok":
        raise core.MachineryError("selftest: corrupted MustDiffer not noticed")
    bad = dict(case, shape=[{"k": "leaf", "o": "int", "kids": []}] * len(case["shape"]))
    if judge(bad, obs)[0] == "ok":
        raise core.MachineryError("selftest: corrupted expected shape not noticed")


def run(ctx):
    ctx.rule = ("TLC enumerates every case = 1 output field with a nested value of depth <= 2 (or 2 fields of depth "
                "<= 1) with exactly n leaves over {4 files, 2 directories, one int}; distinct = initial states of "
                "Staging_Gen; an evaluation = one real one-node workflow run; non-trivial = at least two distinct "
                "file objects with the same base name, or the same object twice")
    with ThreadPoolExecutor(max_workers=2) as ex:
        f1 = ex.submit(sc.generate, ctx, POOL, 1, True, False)
        f2 = ex.submit(sc.generate, ctx, POOL, 2, True, False, 4)
        (info, c1), (_, c2) = f1.result(), f2.result()
    spaces = {"n=1": c1, "n=2": c2}
    if ctx.thorough:
        sh = ctx.rng.sample(range(40), 2)
        _, c3 = sc.generate(ctx, POOL, 3, True, False, nshards=40, shards=sh)
        spaces[f"n=3 shards {sh} of 40"] = c3
        todo = c1 + c2 + c3
        ctx.exhaustive = True
    else:
        nontrivial = [c for c in c2 if c["clash"] or c["same"] or c["across"]]
        todo = c1 + ctx.rng.sample(nontrivial, 150) + ctx.rng.sample(c2, 50)
        ctx.exhaustive = False
    ctx.extra["spaces"] = {k: len(v) for k, v in spaces.items()}
    prepare(ctx, todo)
    sc.BASE = str(ctx.scratch)
    sc.private_hash_cache(ctx)
    selftest(next(c for c in c2 if c["clash"] and len(c["fields"]) == 1), info)
    res = core.pmap(check, [(c, info, k) for k, c in enumerate(todo)], chunksize=4)
    for k, (case, (v, d, obs, extra)) in enumerate(zip(todo, res)):
        ctx.ran()
        if case["clash"] or case["same"] or case["across"]:
            ctx.nontriv(str(case["fields"]))
        if v == "harness":
            ctx.observe("case not evaluated: " + str(d), {"fields": case["fields"]})
            continue
        if v != "ok":
            if len(ctx.violations) >= MAX_RECORDED:
                ctx.extra["violations_not_recorded"] = ctx.extra.get("violations_not_recorded", 0) + 1
                continue
            # the code under test is deterministic: a genuine defect reproduces (the machine is shared)
            v2, d2, obs2, _ = check((case, info, k))
            if v2 == "ok":
                ctx.observe("non-reproducible failure (environment)", {"fields": case["fields"], "first": f"{v}: {d}"})
                continue
            v, d, obs = v2, d2, obs2
            ctx.violation(f"workflow output collection: {v}: {d}", case={"tlc": case, "pool": info, "variant": k},
                          expected={"shape": case["shape"], "content": case["content"], "must_differ": case["differ"]},
                          observed=obs)
            continue
        for flag in extra["same_coincide"]:
            ctx.observe("same object twice in one output value: " + ("one destination" if flag else "two destinations"))
        for flag in extra["across_coincide"]:
            ctx.observe("same object in two output fields: " + ("one destination" if flag else "two destinations"))
    for c in [c for c in todo if c["clash"]][:3]:
        ctx.sample({"fields": c["fields"], "must_differ": c["differ"], "expected_content": c["content"]})
    ctx.assume("sources and the cache root are on one ordinary file system; file names without blanks")


def replay(ctx, rec):
    case, info = rec["case"]["tlc"], rec["case"]["pool"]
    prepare(ctx, [case], name="c33_replay_defs")
    sc.BASE = str(ctx.scratch)
    sc.private_hash_cache(ctx)
    v, d, obs, _ = check((case, info, rec["case"].get("variant", 0)))
    ctx.ran()
    print("replay verdict:", v, d)
    if v not in ("ok", "harness"):
        ctx.violation(f"replay: workflow output collection: {v}: {d}", case=rec["case"], expected=rec.get("expected"),
                      observed=obs)
