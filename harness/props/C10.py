"""C10 Concurrent submitters of one job share a single execution.

M1: TLC checks MutualExclusion, OneBodyPerId, ReturnedOkMeansComplete,
    NoPartialVisibleUnlocked on JobProtocol for 3 processes (every interleaving).
    The lock/check/body/save/release core (LockCore.tla) is PROVED with TLAPS for any number of
    submitters; TLC checks that JobProtocol (3 processes, no faults) refines it.
M3: TLC enumerates complete behaviours of 2 processes (BFS over paths) / simulates 3-4;
    each is forced onto real processes calling task(cache_root=shared) by granting the
    gated hook points in behaviour order (conformance spec -> code).
M4: the hook logs of those replays and of free-running adversarial races (all processes
    released at once, the first one slowed down inside the body or the save) are validated
    action by action against JobProtocol (code -> spec), every invariant evaluated per step.
End-state oracle: one body execution, identical outputs for every submitter.
"""
from harness import core
from harness import job_common as jc

LEVEL = "model_checking"
ACTIONS = ["Submit", "Acquire", "CheckHit", "CheckMiss", "WriteInfo", "SaveJob", "BodyStart", "BodyOk",
           "SaveBegin", "SaveResult", "Release", "Return"]


def judge_end(ctx, spec, obs, tag):
    """outputs identical and correct, body executed exactly once (0 if a result pre-existed)."""
    bad = []
    oks = [o for o in obs["outs"] if o.get("status") == "ok"]
    if len(oks) != len(obs["outs"]):
        bad.append(f"not every submitter returned: {[o.get('status') for o in obs['outs']]}")
    if any(o["outputs"] != jc.EXPECTED[spec.get("task", "Work")] for o in oks):
        bad.append("a submitter received different outputs")
    want = 0 if spec.get("init", {}).get("root") == "ok" else 1       # a leftover incomplete directory counts as no result
    if obs["bodies"][0] != want:
        bad.append(f"task body started {obs['bodies'][0]} times, expected {want}")
    return bad


def unbounded_core(ctx):
    """LockCore.tla: Mutex / AtMostOnce / NoPartialOut proved inductive with the TLA+ proof system for an ARBITRARY set
    of processes; TLC checks that the code-bound JobProtocol (3 processes, no faults) refines it (JobProtocol_Refines)."""
    import re
    import shutil
    import subprocess
    work = ctx.scratch / "tlaps"
    work.mkdir(exist_ok=True)
    for f in ("LockCore.tla", "TLAPS.tla"):
        shutil.copy(core.SPECS / f, work / f)
    exe = shutil.which("tlapm")
    if exe is None:
        raise core.MachineryError("tlapm (TLA+ proof system) not found on PATH")
    p = subprocess.run([exe, "--threads", "8", "--cleanfp", "LockCore.tla"], cwd=work, capture_output=True, text=True, timeout=1500)
    out = p.stdout + p.stderr
    m = re.search(r"All (\d+) obligations? proved", out)
    if p.returncode != 0 or not m:
        raise core.MachineryError("TLAPS did not prove LockCore: " + out[-600:])
    r = ctx.tlc("JobProtocol_Refines", cfg="MC_Refines.cfg", workers=4, timeout=900)
    apalache = None
    if ctx.thorough and shutil.which("apalache-mc"):
        # cross-check of the proof obligations' transcription with a second tool (4 processes): Init => IndInv,
        # IndInv /\ Next => IndInv', IndInv => Safety
        apalache = []
        for init, inv, length in (("Init", "IndInv", 0), ("IndInv", "IndInv", 1), ("IndInv", "Safety", 0)):
            q = subprocess.run(["apalache-mc", "check", "--cinit=CInit", f"--init={init}", f"--inv={inv}", f"--length={length}",
                                f"--out-dir={work / 'apa'}", "LockCore.tla"], cwd=work, capture_output=True, text=True, timeout=1500)
            ok = "The outcome is: NoError" in q.stdout
            apalache.append({"init": init, "inv": inv, "length": length, "ok": ok})
            if not ok:
                raise core.MachineryError(f"Apalache does not confirm {init} => {inv}: " + q.stdout[-400:])
    ctx.extra["unbounded_core"] = {"tlaps_obligations_proved": int(m.group(1)), "refinement_states": r.distinct, "apalache": apalache,
                                   "theorem": "LockCore!Correct: Spec => [](Mutex /\\ AtMostOnce /\\ NoPartialOut) for every Proc"}


def slow_workflow_race(ctx, secs, gap):
    """two submitters of one SLOW workflow under the cf worker (the asynchronous job lock, PydraFileLock, whose
    waiters poll with a growing interval): the workflow body runs once, both submitters get the outputs"""
    import json
    import shutil
    import subprocess
    import tempfile
    import time
    shared = tempfile.mkdtemp(prefix="verif_slowwf_")
    try:
        procs = []
        for k, nm in enumerate(("A", "B")):
            procs.append(subprocess.Popen([core.PY, "-m", "harness.slowwf_child", shared, nm, str(secs)], env=core.child_env(hooks=False),
                                          stdout=subprocess.DEVNULL, stderr=subprocess.DEVNULL))
            if k == 0:
                time.sleep(gap)
        for p in procs:
            try:
                p.wait(timeout=secs * 3 + 120)
            except subprocess.TimeoutExpired:
                p.kill()
        outs = []
        for nm in ("A", "B"):
            f = f"{shared}/out_{nm}.json"
            outs.append(json.load(open(f)) if __import__("os").path.exists(f) else {"name": nm, "status": "no outcome"})
        log = open(f"{shared}/bodies.log").read().split("\n") if __import__("os").path.exists(f"{shared}/bodies.log") else []
        return {"outs": outs, "wf_bodies": sum(1 for l in log if l.startswith("wf ")), "node_bodies": sum(1 for l in log if l == "node")}
    finally:
        shutil.rmtree(shared, ignore_errors=True)


def judge_slow(ctx, secs, gap, o):
    ctx.ran()
    ctx.nontriv(("slow-workflow-race", secs, gap))
    bad = []
    if [x.get("status") for x in o["outs"]] != ["ok", "ok"] or any(x.get("out") != 2 for x in o["outs"]):
        bad.append("not every submitter returned the outputs")
    if o["wf_bodies"] != 1:
        bad.append(f"the workflow body ran {o['wf_bodies']} times")
    if o["node_bodies"] != 1:
        bad.append(f"the node body ran {o['node_bodies']} times")
    if bad:
        ctx.violation("two submitters of one slow workflow (cf worker): " + "; ".join(bad),
                      case={"slow_workflow_race": {"secs": secs, "gap": gap}}, expected="one execution, identical outputs", observed=o)


def run(ctx):
    # ---- asynchronous job lock: waiters of a slow workflow (poll interval grows past its cap) ----
    import concurrent.futures as cfut
    slow_pool = cfut.ThreadPoolExecutor(max_workers=2)
    slow = [(s, g, slow_pool.submit(slow_workflow_race, ctx, s, g)) for s, g in ([(10.0, 1.0), (14.0, 0.3)] if ctx.thorough else [(10.0, 1.0)])]
    # ---- M1 design check ----
    r = ctx.tlc("MC_JobProtocol", cfg="MC_C10.cfg", workers=8, coverage=True, timeout=900)
    ctx.require_coverage(r, ACTIONS)
    # the lock-free final read of Submitter.__call__ is part of the model: harmless without rerun (FinalReadFindsResult
    # holds above), but TLC must find the race with a concurrent rerun submitter (recorded observation, DESIGN 13.6)
    rr = ctx.tlc("MC_JobProtocol", cfg="MC_FinalRead_rerun.cfg", workers=4, must_pass=False, timeout=600)
    if "FinalReadFindsResult" not in rr.invariant_violated:
        raise core.MachineryError("model insensitive: the concurrent-rerun race of the final lock-free read is not reachable")
    ctx.observe("concurrent rerun submitters: the lock-free final read can find the directory wiped (TLC counterexample exists)")
    # ---- unbounded core: LockCore proved by TLAPS for any number of submitters, linked to JobProtocol by refinement ----
    unbounded_core(ctx)
    for s_, g_, fut in slow:
        judge_slow(ctx, s_, g_, fut.result())
    # ---- M3 behaviours -> real processes ----
    behs = jc.tlc_behaviours(ctx, "c10_2p", ["p1", "p2"], lroot="LeftoversAndDone")   # incl. leftover incomplete directories
    if ctx.thorough:
        behs3 = jc.tlc_behaviours(ctx, "c10_3p", ["p1", "p2", "p3"], simulate=400, seed=ctx.seed + 1)
        pick = behs + behs3
    else:
        behs3 = jc.tlc_behaviours(ctx, "c10_3p", ["p1", "p2", "p3"], simulate=40, seed=ctx.seed + 1)
        pick = ctx.rng.sample(behs, min(len(behs), 40)) + behs3[:10]
    specs = []
    for b in pick:
        specs.append({"kind": "replay", "task": "Work", "init": {"root": jc.init_kind(b["init"]["root"])},
                      "steps": b["steps"], "src": "tlc-behaviour"})
    # ---- adversarial free-running races ----
    n_race = 60 if ctx.thorough else 14
    for i in range(n_race):
        n = 2 + i % 3
        slow = ["body_start:0.25", "result_write_begin:0.2", "locked:0.15", None, "job_saved:0.15"][i % 5]
        init = ["absent", "jobonly", "ok", "absent", "partial", "emptydir", "absent"][i % 7]
        procs = [{"p": f"p{k+1}", "sleep_at": slow if k == 0 else None, "delay": 0.02 if k == 0 else 0} for k in range(n)]
        specs.append({"kind": "race", "task": "Work", "init": {"root": init}, "procs": procs, "src": f"race slow={slow}"})
    obs = core.pmap(jc.execute_robust, specs, procs=8, chunksize=1)
    traces = []
    for tid, (spec, o) in enumerate(zip(specs, obs), 1):
        ctx.ran()
        ctx.nontriv((spec["src"], str(spec.get("steps") or spec.get("procs"))))
        if o["problem"]:
            ctx.violation("replay: the real processes could not follow a behaviour the specification allows",
                          case={"spec": spec}, expected=o["problem"]["expected_after"], observed=o["problem"])
            continue
        bad = judge_end(ctx, spec, o, tid)
        for b in bad:
            ctx.violation(b, case={"spec": spec}, expected="one execution, identical outputs", observed={k: o[k] for k in ("outs", "bodies", "end")})
        traces.append({"tid": tid, "init": jc.spec_init(spec["init"]), "ev": o["ev"]})
    verdicts = jc.validate_traces(ctx, traces, "ideal")
    for t in traces:
        v = verdicts[t["tid"]]
        if v["verdict"][0] != "accepted":
            spec = specs[t["tid"] - 1]
            ctx.violation(f"trace of a real run is not a behaviour of JobProtocol: {v['verdict']}",
                          case={"spec": spec}, expected="accepted", observed={"verdict": v, "events": t["ev"]})
    ctx.sample({"behaviour_replayed": [(s["a"], s["p"]) for s in specs[0]["steps"]][:40]})
    ctx.sample({"race": specs[-1]["procs"], "events": [(e["a"], e["p"]) for e in traces[-1]["ev"]][:60]} if traces else {})
    ctx.rule = ("behaviours: complete interleavings of JobProtocol generated by TLC (2 processes exhaustive BFS over paths, "
                "3 by simulation) replayed on forked real processes through gated hook points; races: 2-4 free-running "
                "processes with one slowed down at a critical point; distinct = distinct schedules")
    ctx.assume("filelock SoftFileLock provides mutual exclusion on the local file system")
    ctx.extra["behaviours_available_2procs"] = len(behs)


def replay(ctx, rec):
    if "slow_workflow_race" in rec["case"]:
        c = rec["case"]["slow_workflow_race"]
        o = slow_workflow_race(ctx, c["secs"], c["gap"])
        print(o)
        judge_slow(ctx, c["secs"], c["gap"], o)
        return
    spec = rec["case"]["spec"]
    o = jc.execute(spec)
    ctx.ran()
    print("outs:", o["outs"], "bodies:", o["bodies"], "problem:", o["problem"])
    if o["problem"]:
        ctx.violation("replay: nonconformant", case=rec["case"], observed=o["problem"])
        return
    for b in judge_end(ctx, spec, o, 1):
        ctx.violation(b, case=rec["case"], observed=o["outs"])
    v = jc.validate_traces(ctx, [{"tid": 1, "init": jc.spec_init(spec["init"]), "ev": o["ev"]}], "ideal")[1]
    print("trace verdict:", v["verdict"])
    if v["verdict"][0] != "accepted":
        ctx.violation(f"trace rejected: {v['verdict']}", case=rec["case"], observed=v)
