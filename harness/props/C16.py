"""C16 The max_concurrent limit is never exceeded.

M1: TLC checks WithinLimit (jobs in flight <= K) on Submitter.tla for independent, split
    and chained jobs, K in 1..3, every interleaving; the as-built switch SliceIgnoresRunning
    must make TLC find the overshoot.  M3/M4: completion orders from TLC forced on a real cf
    Submitter (8 pool processes, so only max_concurrent limits) with gated bodies that are
    held until the schedule releases them; concurrency is measured from body start/end
    events (never from timing) by the WithinLimit invariant in Submitter_Trace.
"""
from harness import core
from harness import sub_common as sc

LEVEL = "model_checking"


def run(ctx):
    graphs = "Conc" if ctx.thorough else "Quick16"
    sc.sub_mc(ctx, "c16_m1", graphs, "KLim", "none", ["WithinLimit", "StartAfterPredsSucceeded"])
    r = sc.sub_mc(ctx, "c16_asbuilt", "GIndep4", "K2", "none", ["WithinLimit"], slice_asbuilt=True, must_pass=False)
    if "WithinLimit" not in r.invariant_violated:
        raise core.MachineryError("model insensitive: SliceIgnoresRunning does not violate WithinLimit")
    behs = sc.tlc_schedules(ctx, "c16_sched", graphs, "KLim", fails="none", simulate=2500 if ctx.thorough else 300, seed=ctx.seed + 9)
    pick = sc.pick_schedules(ctx, behs, 400 if ctx.thorough else 30)
    specs = sc.schedules_to_specs(pick, "cf")
    obs = core.tmap(sc.run_and_trace, specs, threads=8)
    items = sc.judge_runs(ctx, specs, obs, "C16")
    if items:
        ctx.sample({"graph": specs[0]["graph"], "K": specs[0]["K"], "order": specs[0]["order"], "body_events": [e for e in items[0][2] if e["a"] in ("S", "E")]})
    ctx.rule = "schedules = (graph, K, completion order) from TLC; bodies held by tokens so that the spec's worst schedule is realised"
    ctx.extra["schedules_generated"] = len(behs)


def replay(ctx, rec):
    spec = rec["case"]["spec"]
    o = sc.run_and_trace(spec)
    print(o["out"], o["body"], o["problem"])
    sc.judge_runs(ctx, [spec], [o], "replay")
