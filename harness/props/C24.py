"""C24 The displayed command line is a faithful rendering of the executed argv.

Spec: PosixWords (POSIX word splitting / quote removal as a character state machine;
`Split`, `Faithful`, the reference rendering `RenderQuoted` and the named as-built
rendering `RenderSpacesOnly`).  The definitions and values come from ShellArgv_Gen
(mode chars: every alphabet string x placement as in C23; mode sample with Chars: seeded
2..4-field definitions of C22 whose string elements are drawn from the alphabet).  Each
case is materialised with the real API; the pair (task.cmdline, argv) -- argv as received
by the executed test double for a seeded subset, else the vector handed to the
environment -- is recorded and validated by TLC (PosixWords_Gen mode validate, M4):
faithful iff Split(cmdline) is "ok" and its words equal the argv.
Spec sanity (not the pydra oracle): the machine is stepped by TLC over every alphabet
string up to length 3 (thorough: a seeded half of the strings up to length 4) and its
result compared with /bin/sh.
"""
import shutil
import tempfile
import time
from concurrent.futures import ThreadPoolExecutor

from harness import core, shell_common as sc

LEVEL = "model_checking"
PROP = "C24"


def select_for_sh(ctx, recs):
    """Strings whose outcome /bin/sh can confirm (literal or unterminated)."""
    judged = [r for r in recs if r["status"] in ("ok", "unterminated")]
    if not ctx.thorough and len(judged) > 260:      # quick: every string up to length 2 and a seeded sample
        short = [r for r in judged if len(r["s"]) <= 2]
        longer = [r for r in judged if len(r["s"]) > 2]
        judged = short + ctx.rng.sample(longer, 260 - len(short))
    return judged


def sanity_vs_sh(ctx, recs, judged):
    """PosixWords!Split against /bin/sh on the alphabet (validates the spec, not pydra)."""
    work = tempfile.mkdtemp(prefix="shsanity_", dir=str(ctx.scratch))
    chunks = [judged[i:i + 200] for i in range(0, len(judged), 200)]

    def one(chunk):
        return sc.sh_split(["".join(chr(c) for c in r["s"]) for r in chunk], work)

    with ThreadPoolExecutor(max_workers=8) as ex:
        res = [x for part in ex.map(one, chunks) for x in part]
    shutil.rmtree(work, ignore_errors=True)
    bad = []
    for r, (rc, words) in zip(judged, res):
        s = "".join(chr(c) for c in r["s"])
        if r["status"] == "ok":
            exp = ["".join(chr(c) for c in w) for w in r["words"]]
            if rc != 0 or words != exp:
                bad.append((s, "spec ok " + repr(exp), f"sh rc={rc} {words!r}"))
        elif rc == 0:
            bad.append((s, "spec unterminated", f"sh rc=0 {words!r}"))
    if bad:
        raise core.MachineryError(f"PosixWords disagrees with /bin/sh on {len(bad)} strings, e.g. {bad[:3]}")
    by = {}
    for r in recs:
        by[r["status"]] = by.get(r["status"], 0) + 1
    ctx.extra["posixwords_vs_sh"] = {"strings": len(recs), "compared_with_sh": len(judged), "by_status": by}


SENTINELS = [
    {"k": -1, "cl": "cmd 'a b' c", "av": ["cmd", "a b", "c"], "faithful": True},
    {"k": -2, "cl": "cmd 'a b' c", "av": ["cmd", "a", "b", "c"], "faithful": False},
    {"k": -3, "cl": "cmd a;b", "av": ["cmd", "a;b"], "faithful": False},
    {"k": -4, "cl": "cmd 'it'\\''s' \"$\\\"\" ''", "av": ["cmd", "it's", "$\"", ""], "faithful": False},   # "$\"" : $ then \" -> unspec
    {"k": -5, "cl": "cmd 'it'\\''s' \"\\$\\\"\" ''", "av": ["cmd", "it's", "$\"", ""], "faithful": True},
]


def run(ctx):
    sc.prepare(ctx)
    t0 = time.time()
    if ctx.thorough:
        jobs = [("chars", 8, {"minl": 1, "maxl": 3}),
                ("sample", 4, {"seed": ctx.seed, "nsamples": 5000, "chars": True})]
        n_exec = 1000
    else:
        jobs = [("chars", 1, {"minl": 1, "maxl": 2}),
                ("sample", 1, {"seed": ctx.seed, "nsamples": 500, "chars": True})]
        n_exec = 120
    with ThreadPoolExecutor(max_workers=3) as ex:
        futs = [ex.submit(sc.posix_strings, ctx, 3)]            # every string up to length 3
        if ctx.thorough:                                         # + a seeded half of the length-4 strings
            futs.append(ex.submit(sc.posix_strings, ctx, 4, 8, [sh for sh in range(8) if sh % 2 == ctx.seed % 2], 4))
        cases = sc.generate_many(ctx, jobs, max_procs=8 if ctx.thorough else 3)
        strings = [r for f in futs for r in f.result()]
    t1 = time.time()
    pool = ThreadPoolExecutor(max_workers=1)       # the /bin/sh cross-check runs beside the replay
    sanity = pool.submit(sanity_vs_sh, ctx, strings, select_for_sh(ctx, strings))
    t2 = time.time()
    ctx.exhaustive = True
    ctx.rule = ("pairs (cmdline, argv) recorded from every ShellArgv_Gen case that yields a command: mode chars "
                "(alphabet strings of length 1..3 x 10 placements; quick: length 1..2) "
                "and seeded 2..4-field definitions with alphabet strings; validated by TLC (PosixWords_Gen); "
                "distinct = initial states of both generators; non-trivial = some argument contains a character "
                "other than letters, digits, '-', '=', '/', '_', '.', ','")
    ctx.assume("the first word of the command line (the executable) contains no character special to the shell")
    ctx.assume("renderings whose meaning POSIX leaves unspecified ($ not followed by an expansion start, trailing "
               "backslash) are recorded, not judged")

    exec_set = set(ctx.rng.sample(range(len(cases)), min(n_exec, len(cases))))
    # in-process observations first (no fork while the cross-check thread spawns shells) ...
    obs = sc.observe_all([c for c in cases if c["k"] not in exec_set], ())
    sanity.result()                                 # raises MachineryError if the spec and /bin/sh disagree
    pool.shutdown()
    # ... then the executions through the fork pool
    obs.update(sc.observe_all([c for c in cases if c["k"] in exec_set], exec_set))
    t3 = time.time()
    pairs, bykey = [], {c["k"]: c for c in cases}
    for case in cases:
        o = obs[case["k"]]
        ctx.ran(validated=False)
        if o["define_err"] or o["init_err"]:
            ctx.observe("definition refused (no command line, no argv)", {"case": sc.describe(case), "error": o["define_err"] or o["init_err"]})
            continue
        if o["executed"] and o["err"] is None and (o["exec_argv"] is None or o["exec_argv"] != o["argv"]):
            ctx.violation("binding: executed argv differs from _command_args() or execution failed",
                          case={"tlc": case, "level": "exec"}, expected=o["argv"], observed=o)
            continue
        argv = o["argv"]
        if argv is None and o["cmdline"] is None:
            ctx.observe("no command can be built (ValueError from the re-tokenisation, see C23): no pair to judge",
                        {"case": sc.describe(case), "error": o["err"]})
            continue
        if argv is None or o["cmdline"] is None:
            ctx.violation("cmdline and argv disagree about whether a command exists",
                          case={"tlc": case, "level": "exec" if o["executed"] else "args"}, expected="both or neither", observed=o)
            continue
        pairs.append({"k": case["k"], "cl": o["cmdline"], "av": argv})
    verdicts = sc.posix_validate(ctx, pairs + [{k: s[k] for k in ("k", "cl", "av")} for s in SENTINELS],
                                 nshards=6 if ctx.thorough else 2)
    t4 = time.time()
    ctx.extra["phase_s"] = {"tlc_gen+strings": round(t1 - t0, 1), "replay+sh_sanity": round(t3 - t1, 1), "tlc_validate": round(t4 - t3, 1)}
    for s in SENTINELS:   # binding self-test: TLC must tell faithful from unfaithful
        if verdicts[s["k"]]["faithful"] != s["faithful"]:
            raise core.MachineryError(f"binding self-test: sentinel {s} judged {verdicts[s['k']]}")
    counts, shown = {}, set()
    for p in pairs:
        v = verdicts[p["k"]]
        case = bykey[p["k"]]
        level = "exec" if obs[p["k"]]["executed"] else "args"
        ctx.validated += 1
        if any(set(a) - set("abcdefghijklmnopqrstuvwxyz0123456789-=/_.,ABCDEFGHIJKLMNOPQRSTUVWXYZ") for a in p["av"][1:]):
            ctx.nontriv(p["k"])
        verdict = judge_pair(ctx, case, p, v, level)
        counts[verdict] = counts.get(verdict, 0) + 1
        if verdict not in shown and len(p["av"]) >= 2:
            shown.add(verdict)
            ctx.sample({"cmdline": p["cl"], "argv": p["av"], "posix_split": {"status": v["status"], "words": words(v)},
                        "verdict": verdict})
    ctx.extra["verdict_counts"] = counts
    ctx.extra["pairs_validated"] = len(pairs)
    ctx.extra["executed_through_submitter"] = len(exec_set)


def words(v):
    return ["".join(chr(c) for c in w) for w in v["words"]]


def judge_pair(ctx, case, p, v, level):
    if v["faithful"]:
        return "faithful"
    if v["status"] == "unspec":
        ctx.observe("command line relies on behaviour POSIX leaves unspecified (not judged)",
                    {"cmdline": p["cl"], "argv": p["av"]})
        return "unspecified"
    asbuilt = "".join(chr(c) for c in v["asbuilt"])
    cls = v["cls"]
    known_id = f"C24-cmdline-{cls}" if cls not in ("none", "other") else None
    ctx.judge(False, f"cmdline does not split back into the executed argv (posix status {v['status']}, class {cls})",
              case={"tlc": case, "level": level, "pair": p}, expected={"argv": p["av"], "posix_split_should_equal": p["av"]},
              observed=p["cl"], known_id=known_id, asbuilt=asbuilt,
              posix_split={"status": v["status"], "words": words(v)})
    return f"unfaithful-{cls}" if p["cl"] == asbuilt else "unfaithful-unpredicted"


def replay(ctx, rec):
    sc.prepare(ctx)
    case = rec["case"]["tlc"]
    level = rec["case"].get("level", "args")
    o = sc.observe(case, execute=level == "exec")
    ctx.ran(validated=False)
    argv = o["exec_argv"] if (o["executed"] and o["exec_argv"] is not None) else o["argv"]
    print("replay observation:", {"cmdline": o["cmdline"], "argv": argv, "err": o["err"], "cmdline_err": o["cmdline_err"]})
    if argv is None or o["cmdline"] is None:
        ctx.violation("replay: no (cmdline, argv) pair", case=rec["case"], expected=rec.get("expected"), observed=o)
        return
    p = {"k": 0, "cl": o["cmdline"], "av": argv}
    v = sc.posix_validate(ctx, [p])[0]
    ctx.validated += 1
    print("replay verdict:", judge_pair(ctx, case, p, v, level), v["status"], words(v))
