"""C31 Requirement and mutual-exclusion rules are enforced exactly.

Spec: Rules!Executable (the statement transcribed with quantifiers) enumerated by
Rules_Gen: TLC generates every task definition of the bounded families below (kinds
bool / str|None / int|None / mandatory str, `requires` = <=2 alternative sets of <=2
requirements with and without allowed values, <=2 xor groups with and without None) and
prints, per definition, the verdict for EVERY value assignment.

Binding: every definition is materialised as generated source text (python.define and
shell.define variants), every assignment is checked with the real `Task._check_rules`,
and a seeded sample (two thirds violating) is executed in three contexts -- direct call,
workflow node with constant inputs, workflow node whose set inputs arrive lazily from
upstream nodes -- where a violating assignment must raise with no body of the task run
(and, without lazy inputs, no body and no job directory at all) and a valid one must run
exactly once with the assigned values.
"""
import copy
import time
import multiprocessing as mp
import os

from harness import core, rules_common as rc

LEVEL = "model_checking"

BSI = ["b", "s", "i"]


def families(ctx):
    """(family, shards to run).  A family is one Rules_Gen configuration; its kind
    vectors are split into NShards shards (one TLC process each)."""
    F = []

    def fam(name, nshards, pick=None, both=True, **cfg):
        cfg["nshards"] = nshards
        shards = list(range(nshards)) if pick is None else sorted(ctx.rng.sample(range(nshards), pick))
        F.append(({"name": name, "cfg": cfg, "both": both}, shards))

    BS = ["b", "s"]
    if ctx.thorough:
        # 1-2 fields: everything (all four kinds, one-member groups, q with requirements), both variants
        fam("n1", 1, N=1, kinds=BSI + ["m"], maxmand=1, reqsets=0, reqs=0, owners=1, maxxor=2, mingroup=1, maxgroup=1)
        fam("n2", 2, N=2, kinds=BSI + ["m"], maxmand=1, reqsets=2, reqs=2, owners=2, maxxor=2, mingroup=1, maxgroup=2)
        # 3 fields: full requires space x <=1 group; one requirement set + second owner x <=1 group;
        # one requirement x <=2 groups
        fam("n3r", 9, both=False, N=3, kinds=BSI, reqsets=2, reqs=2, owners=1, maxxor=1, mingroup=2, maxgroup=3)
        fam("n3o", 9, both=False, N=3, kinds=BSI, reqsets=1, reqs=2, owners=2, maxxor=1, mingroup=2, maxgroup=3)
        fam("n3x", 9, both=False, N=3, kinds=BSI, reqsets=1, reqs=1, owners=1, maxxor=2, mingroup=2, maxgroup=3)
        # 3 fields with a mandatory one and one-member groups
        fam("n3m", 3, N=3, kinds=["b", "s", "m"], maxmand=1, reqsets=1, reqs=2, owners=1, maxxor=1, mingroup=1, maxgroup=3)
        # 4 fields: full requires space; one requirement set x one group; two groups of any size
        fam("n4r", 4, both=False, N=4, kinds=BS, reqsets=2, reqs=2, owners=1, maxxor=0, mingroup=2, maxgroup=2)
        fam("n4rx", 8, both=False, N=4, kinds=BS, reqsets=1, reqs=2, owners=1, maxxor=1, mingroup=2, maxgroup=4)
        fam("n4g", 8, both=False, N=4, kinds=BS, reqsets=0, reqs=0, owners=1, maxxor=2, mingroup=2, maxgroup=4)
        # 5 fields: one seed-chosen kind vector of the 32 (the only family not enumerated completely)
        fam("n5", 32, pick=1, both=False, N=5, kinds=BS, reqsets=1, reqs=2, owners=1, maxxor=1, mingroup=2, maxgroup=3)
    else:
        # wider configurations than the thorough ones, each on one seed-chosen shard of the kind vectors
        fam("n2", 2, pick=1, both=False, N=2, kinds=BSI + ["m"], maxmand=1, reqsets=2, reqs=2, owners=2, maxxor=2, mingroup=1, maxgroup=2)
        fam("n3", 27, pick=1, both=False, N=3, kinds=BSI, reqsets=2, reqs=2, owners=1, maxxor=2, mingroup=2, maxgroup=3)
        fam("n4rx", 16, pick=1, both=False, N=4, kinds=BS, reqsets=1, reqs=2, owners=1, maxxor=1, mingroup=2, maxgroup=4)
        fam("n4x", 16, pick=1, both=False, N=4, kinds=BS, reqsets=1, reqs=1, owners=1, maxxor=2, mingroup=2, maxgroup=2)
    return F


def selftest(ctx):
    """The binding must notice (a) a corrupted expected value and (b) a pydra whose rule
    check is disabled (patched in this process only)."""
    from pydra.compose.base import Task

    case = {"n": ["p", "q"], "k": {"p": "b", "q": "s"},
            "req": {"p": [[{"name": "q", "restricted": False, "allowed": []}]], "q": []},
            "xor": [], "tab": [{"a": "T-", "y": "r"}, {"a": "Tv", "y": ""}]}
    one = dict(case, tab=case["tab"][:1])
    if any(rc.check_one(ctx.scratch, case, fl) for fl in ("python", "shell")) or \
            rc.run_one_context(ctx.scratch, one, "python", "run", "selftest0")[0] != "ok":
        return  # pydra itself is off on the simplest rule; the real run reports it
    flipped = copy.deepcopy(case)
    flipped["tab"][0]["y"], flipped["tab"][1]["y"] = "", "r"
    for fl in ("python", "shell"):
        if len(rc.check_one(ctx.scratch, flipped, fl)) != 2:
            raise core.MachineryError("selftest: flipped expected verdicts were not noticed (check level)")
    if rc.run_one_context(ctx.scratch, dict(flipped, tab=flipped["tab"][:1]), "python", "run", "selftest1")[0] == "ok":
        raise core.MachineryError("selftest: a flipped expected verdict was not noticed (run level)")
    real = Task._rule_violations
    Task._rule_violations = lambda self: []
    try:
        blind = [rc.check_one(ctx.scratch, case, "python"),
                 [rc.run_one_context(ctx.scratch, one, "python", c, "selftest2" + c)[0] for c in rc.CONTEXTS]]
    finally:
        Task._rule_violations = real
    if not blind[0] or "ok" in blind[1]:
        raise core.MachineryError(f"selftest: a disabled rule check was not noticed: {blind}")


def run(ctx):
    rc.private_hash_cache(ctx.scratch)
    selftest(ctx)
    ctx.extra["selftest_s"] = round(time.time() - ctx.t0, 1)
    fams = families(ctx)
    n_jobs = sum(len(s) for _, s in fams)
    total_ctx = 600 if ctx.thorough else 25
    jobs = []
    for f, shards in fams:
        for sh in shards:
            jobs.append({"fam": f, "shard": sh, "scratch": str(ctx.scratch), "seed": ctx.seed,
                         "n_ctx": max(2, total_ctx // n_jobs), "chunk": 150,
                         # short TLC runs: skip the optimising JIT tiers (JVM start-up dominates)
                         "jvm_env": None if ctx.thorough else {"_JAVA_OPTIONS": "-XX:TieredStopAtLevel=1"}})
    # large shards first
    jobs.sort(key=lambda j: -j["fam"]["cfg"]["N"])
    procs = min(14, os.cpu_count() or 4, len(jobs))
    with mp.get_context("fork").Pool(procs) as pool:
        results = pool.map(rc.rules_shard, jobs, chunksize=1)

    seen = {}
    ctx_counts = {}
    for res in results:
        if res["machinery"]:
            raise core.MachineryError(res["machinery"])
        ctx.states += res["distinct"]
        ctx.transitions += res["generated"]
        ctx.tlc_runs.append({"module": "Rules_Gen", "cfg": f"{res['fam']} shard {res['shard']}",
                             "distinct": res["distinct"], "generated": res["generated"], "wall_s": res["wall"],
                             "replay_s": res["timing"]["replay"], "contexts_s": res["timing"]["contexts"]})
        ctx.ran(res["pairs"])
        for dg, npairs, nt in res["defs"]:
            seen[dg] = (npairs, nt)
        for context, fl, label in res["ctx_results"]:
            ctx.ran()
            k = f"{context}/{fl}"
            ctx_counts[k] = ctx_counts.get(k, 0) + 1
        for m in res["mismatches"]:
            ctx.violation(m["what"], case=m["case"], expected=m["expected"], observed=m["observed"])
        for key, (n, ex) in res["observations"].items():
            d = ctx.observations.setdefault(key, {"count": 0, "example": ex})
            d["count"] += n
        for s in res["samples"]:
            ctx.sample(s)
    ctx.nontrivial_extra = sum(nt for _, nt in seen.values())
    ctx.exhaustive = True
    ctx.rule = ("TLC enumerates every definition of each Rules_Gen family (distinct states = definitions; the case of a "
                "definition lists the spec verdict for every value assignment); evaluations = (definition, assignment, "
                "variant) checks on _check_rules + execution-context runs; non-trivial = (definition, assignment) pairs "
                "of distinct definitions that declare at least one requires / xor / mandatory rule")
    ctx.extra["families"] = [{"name": f["name"], **f["cfg"], "shards_run": s,
                              "variants": "python+shell" if f["both"] else "alternating"} for f, s in fams]
    ctx.extra["distinct_definitions"] = len(seen)
    ctx.extra["distinct_pairs"] = sum(n for n, _ in seen.values())
    ctx.extra["execution_context_runs"] = ctx_counts
    if ctx.thorough:
        ctx.extra["thorough_scope"] = "every family enumerated completely except n5 (1 seed-chosen kind vector of 32)"
    if not ctx.thorough:
        ctx.extra["quick_scope"] = "families n3/n4rx/n4x (and half of n2) restricted to one seed-chosen shard of the kind vectors each"
    ctx.assume("a bool field holding False (flag off) and an optional field holding None count as not set; "
               "falsy-but-not-None values (0, '', []) are outside the value menu because the statement does not decide them")
    ctx.assume("requirements refer to other fields (no self-requirement); allowed values only on str fields")


def replay(ctx, rec):
    rc.private_hash_cache(ctx.scratch)
    c = rec["case"]
    one, fl, level = c["tlc"], c["flavour"], c["level"]
    ctx.ran()
    exp = one["tab"][0]["y"] == ""
    if level == "define":
        try:
            rc.check_one(ctx.scratch, dict(one, tab=one["tab"][:1]), fl)
            print("replay verdict: definition accepted")
        except Exception as e:  # noqa
            ctx.violation("replay: definition rejected", case=c, expected=rec["expected"], observed=str(e)[:300])
        return
    if level == "check":
        mism = rc.check_one(ctx.scratch, one, fl)
        print("replay verdict:", mism[0]["observed"] if mism else "agrees with the spec", "; expected executable =", exp)
        for m in mism:
            ctx.violation("replay: " + m["what"], case=c, expected=m["expected"], observed=m["observed"])
        return
    label, obs = rc.run_one_context(ctx.scratch, one, fl, level, "replay0")
    print("replay verdict:", label, obs)
    if label != "ok":
        ctx.violation(f"replay: {level} ({fl}): {label}", case=c, expected=rec["expected"], observed=obs)
