"""C38 Mount lookup compares whole path components.

Spec: specs/Mounts.tla (GetMount / OnCifs / SameMount = longest COMPONENT-wise prefix in
the table of mounts that fall under a CIFS mount) and the named as-built reference
C38-string-prefix (the same operators with the character-wise prefix relation).
TLC (Mounts_Gen, mode M2) enumerates every mount table of the bounded space and prints,
for every query path of the bounded space, the expected mount under both references.
The driver renders each table as Linux and as macOS `mount` output (two line orders),
feeds it through the real parse_mount_table -> patch_table -> get_mount / on_cifs /
on_same_mount and compares the projected observation with the values TLC computed.
"""
import random
from concurrent.futures import ThreadPoolExecutor
from pathlib import Path

from harness import core

LEVEL = "model_checking"
KNOWN_ID = "C38-string-prefix"
MAX_RECORDED = 8  # replay files written per run (the rest is only counted)


# ------------------------------------------------------------------ TLC side
def gen_cfg(ctx, name, maxdepth, minent, maxent, qdepth, shard, nshards):
    p = ctx.scratch / f"{name}.cfg"
    p.write_text(f"""INIT Init
NEXT Next
CONSTANTS
  MaxDepth = {maxdepth}
  MinEntries = {minent}
  MaxEntries = {maxent}
  QDepth = {qdepth}
  Shard = {shard}
  NShards = {nshards}
  Pre <- FastPre
  RLen <- FastRLen
INVARIANT Emit
INVARIANT Theorems
CHECK_DEADLOCK FALSE
""")
    return p


def generate(ctx, maxdepth, minent, maxent, qdepth, nshards=1, shards=None, par=12):
    """-> (queries, cases); every case is one mount table with its expected vectors."""
    shards = list(range(nshards)) if shards is None else list(shards)

    def one(sh):
        cfg = gen_cfg(ctx, f"mounts_{maxdepth}_{minent}_{maxent}_{qdepth}_{sh}of{nshards}",
                      maxdepth, minent, maxent, qdepth, sh, nshards)
        return ctx.tlc("Mounts_Gen", cfg=cfg, workers=1, timeout=3000)

    if len(shards) == 1:
        rs = [one(shards[0])]
    else:
        with ThreadPoolExecutor(max_workers=min(len(shards), par)) as ex:
            rs = list(ex.map(one, shards))
    queries, cases = None, []
    for r in rs:
        recs = r.printed()
        heads = [x for x in recs if "queries" in x]
        body = [x for x in recs if "tbl" in x]
        if not heads or len(body) != r.distinct:
            raise core.MachineryError(f"Mounts_Gen printed {len(body)} cases for {r.distinct} states")
        if queries is None:
            queries = heads[0]["queries"]
        elif queries != heads[0]["queries"]:
            raise core.MachineryError("shards disagree on the query order")
        cases.extend(body)
    for c in cases:
        if any(len(c[k]) != len(queries) for k in ("im", "ic", "ig", "am", "ac", "ag", "fg")):
            raise core.MachineryError("expected vectors do not match the query list")
    return queries, cases


# ------------------------------------------------------------------ rendering (projection spec -> text)
def pstr(comps):
    return "/" + "/".join(comps)


def render(entries, flavour, order):
    idx = list(range(len(entries)))
    if order == "reversed":
        idx.reverse()
    lines = ["", "this line is not a mount line"]
    for n, i in enumerate(idx):
        e = entries[i]
        dev = f"//srv{n}/share" if e["fs"] == "cifs" else (f"srv{n}:/export" if e["fs"] == "nfs" else f"/dev/sd{'abc'[n]}1")
        if flavour == "linux":
            lines.append(f"{dev} on {pstr(e['mp'])} type {e['fs']} (rw,relatime)")
        else:
            lines.append(f"{dev} on {pstr(e['mp'])} ({e['fs']}, local, nodev)")
        lines.append("")
    return "\n".join(lines) + "\n"


def expected_from(case, queries, pk, mk, ck, gk, pairs):
    ent = case["tbl"]

    def mount(i):
        return ["/", "ext4"] if i == 0 else [pstr(ent[i - 1]["mp"]), ent[i - 1]["fs"]]

    return {"parsed": list(case[pk]),
            "mount": [mount(i) for i in case[mk]],
            "cifs": list(case[ck]),
            "same": [case[gk][a] == case[gk][b] for a, b in pairs]}


def pairs_for(case, queries, seed):
    short = [k for k, q in enumerate(queries) if len(q) <= 2]
    pairs = [(a, b) for a in short for b in short]
    rng = random.Random(f"{seed}:{case['tbl']}")
    pairs += [(rng.randrange(len(queries)), rng.randrange(len(queries))) for _ in range(30)]
    return pairs


# ------------------------------------------------------------------ real code
def observe(case, queries, flavour, order, pairs):
    from pydra.utils.mount_identifier import MountIndentifier as M

    ent = case["tbl"]
    text = render(ent, flavour, order)
    parsed = M.parse_mount_table(0, text)
    plain = [(str(p), str(t)) for p, t in parsed]
    obs = {"parsed": [(pstr(e["mp"]), e["fs"]) in plain for e in ent]}
    extra = [x for x in plain if x not in [(pstr(e["mp"]), e["fs"]) for e in ent]]
    if extra or len(set(plain)) != len(plain):
        obs["parsed_extra"] = extra or "duplicates"
    qs = [pstr(q) for q in queries]
    with M.patch_table(parsed):
        ms = [M.get_mount(q) for q in qs]
        obs["mount"] = [[str(m[0]), str(m[1])] for m in ms]
        obs["cifs"] = [bool(M.on_cifs(q)) for q in qs]
        obs["same"] = [bool(M.on_same_mount(qs[a], qs[b])) for a, b in pairs]
    return obs


def first_diff(queries, exp, obs, pairs):
    for k in ("parsed",):
        if exp[k] != obs.get(k):
            return {"what": "parsed table (entries kept)", "expected": exp[k], "observed": obs.get(k)}
    if "parsed_extra" in obs:
        return {"what": "parsed table has foreign entries", "observed": obs["parsed_extra"]}
    for i, q in enumerate(queries):
        if exp["mount"][i] != obs["mount"][i]:
            return {"what": "get_mount", "path": pstr(q), "expected": exp["mount"][i], "observed": obs["mount"][i]}
        if exp["cifs"][i] != obs["cifs"][i]:
            return {"what": "on_cifs", "path": pstr(q), "expected": exp["cifs"][i], "observed": obs["cifs"][i]}
    for n, (a, b) in enumerate(pairs):
        if exp["same"][n] != obs["same"][n]:
            return {"what": "on_same_mount", "paths": [pstr(queries[a]), pstr(queries[b])],
                    "expected": exp["same"][n], "observed": obs["same"][n]}
    return None


RENDERINGS = [("linux", "given"), ("macos", "given"), ("linux", "reversed"), ("macos", "reversed")]


def check_case(arg):
    """-> list of (flavour, order, verdict, exp, asb, obs, diff); verdict in ok/asbuilt/other."""
    case, queries, seed = arg
    pairs = pairs_for(case, queries, seed)
    exp = expected_from(case, queries, "ip", "im", "ic", "ig", pairs)
    asb = expected_from(case, queries, "ap", "am", "ac", "ag", pairs)
    full_same = [case["fg"][a] == case["fg"][b] for a, b in pairs]
    out = []
    for flavour, order in RENDERINGS:
        obs = observe(case, queries, flavour, order, pairs)
        if obs == exp:
            v = "ok"
        elif obs == asb:
            v = "asbuilt"
        else:
            v = "other"
        out.append((flavour, order, v, None if v == "ok" else obs))
    return {"verdicts": out, "differs": exp != asb,
            "full_table_differs": full_same != exp["same"]}


def selftest(ctx, queries, cases):
    """Binding self-test: a flipped expected value must be noticed."""
    case = next(c for c in cases if any(c["im"]))
    pairs = pairs_for(case, queries, ctx.seed)
    obs = observe(case, queries, "linux", "given", pairs)
    good = expected_from(case, queries, "ap", "am", "ac", "ag", pairs)  # as-built or ideal: one of them matches
    ideal = expected_from(case, queries, "ip", "im", "ic", "ig", pairs)
    if obs != good and obs != ideal:
        return  # the real run will report it
    bad = dict(case)
    k = next(i for i, v in enumerate(case["im"]) if v)
    bad["im"] = list(case["im"]); bad["im"][k] = 0
    bad["am"] = list(case["am"]); bad["am"][k] = 0
    if obs == expected_from(bad, queries, "ip", "im", "ic", "ig", pairs) or \
            obs == expected_from(bad, queries, "ap", "am", "ac", "ag", pairs):
        raise core.MachineryError("selftest: corrupted expected mount not noticed")
    bad = dict(case)
    bad["ic"] = [not x for x in case["ic"]]; bad["ac"] = [not x for x in case["ac"]]
    if obs == expected_from(bad, queries, "ip", "im", "ic", "ig", pairs) or \
            obs == expected_from(bad, queries, "ap", "am", "ac", "ag", pairs):
        raise core.MachineryError("selftest: corrupted expected on_cifs not noticed")


def judge_all(ctx, queries, cases, label):
    res = core.pmap(check_case, [(c, queries, ctx.seed) for c in cases], chunksize=32)
    order = sorted(range(len(cases)), key=lambda i: (len(cases[i]["tbl"]), sum(len(e["mp"]) for e in cases[i]["tbl"])))
    for i in order:
        case, r = cases[i], res[i]
        pairs = None
        for flavour, od, v, obs in r["verdicts"]:
            ctx.ran()
            if v == "ok":
                continue
            pairs = pairs or pairs_for(case, queries, ctx.seed)
            exp = expected_from(case, queries, "ip", "im", "ic", "ig", pairs)
            asb = expected_from(case, queries, "ap", "am", "ac", "ag", pairs)
            d = first_diff(queries, exp, obs, pairs)
            full = {"tlc": case, "queries": queries, "flavour": flavour, "order": od, "space": label}
            listed = ctx.known.get(KNOWN_ID, {}).get("status") == "known"
            if v == "asbuilt" and listed:
                ctx.judge(False, "string-prefix mount lookup", case=full, expected=exp, observed=obs,
                          known_id=KNOWN_ID, asbuilt=asb, first_difference=d)
                continue
            ctx.extra["deviating_runs"] = ctx.extra.get("deviating_runs", 0) + 1
            if ctx.extra.get("violations_recorded", 0) >= MAX_RECORDED:
                ctx.extra["violations_not_recorded"] = ctx.extra.get("violations_not_recorded", 0) + 1
                continue
            ctx.extra["violations_recorded"] = ctx.extra.get("violations_recorded", 0) + 1
            tag = "equals the as-built string-prefix prediction" if v == "asbuilt" else "NOT the as-built prediction"
            ctx.judge(False, f"mount lookup deviates from the component-wise reference ({tag}): {d}",
                      case=full, expected=exp, observed=obs, known_id=KNOWN_ID, asbuilt=asb, first_difference=d)
            break
        if r["differs"]:
            ctx.nontriv(("differs", str(case["tbl"])))
        elif any(case["ip"]):
            ctx.nontriv(("cifs", str(case["tbl"])))
        if r["full_table_differs"]:
            ctx.observe("on_same_mount judged on the table as parsed (mounts not under a CIFS mount are dropped by "
                        "design, so paths on two different non-CIFS mounts count as the same mount)",
                        {"tbl": [[pstr(e["mp"]), e["fs"]] for e in case["tbl"]]})


def run(ctx):
    ctx.rule = ("TLC enumerates every mount table (set of <= N entries with distinct mount points of <= D components "
                "over {d,data,data2}, fstype in {cifs,ext4,nfs}); one TLC state per table, each carrying the expected "
                "mount / on_cifs / same-mount class of EVERY query path of <= Q components; an evaluation = one "
                "table x one rendering (linux/macos x two line orders) replayed through parse_mount_table, "
                "patch_table, get_mount, on_cifs, on_same_mount; non-trivial = table with a CIFS mount")
    spaces = []
    if ctx.thorough:
        spaces.append(("D2-N3-Q4", generate(ctx, 2, 1, 3, 4, nshards=12)))
        spaces.append(("D3-N2-Q3", generate(ctx, 3, 1, 2, 3, nshards=12)))
        # the 3-entry tables over 3-component mount points: 266,760 tables; a seeded 2/60 of them
        rng = random.Random(ctx.seed)
        sh = rng.sample(range(60), 2)
        spaces.append((f"D3-N3-Q3-shards{sh}of60", generate(ctx, 3, 3, 3, 3, nshards=60, shards=sh)))
    else:
        with ThreadPoolExecutor(max_workers=2) as ex:
            f1 = ex.submit(generate, ctx, 2, 1, 2, 3, 2)
            f2 = ex.submit(generate, ctx, 1, 3, 3, 3, 1)
            spaces.append(("D2-N2-Q3", f1.result()))
            spaces.append(("D1-N3-Q3", f2.result()))
    ctx.exhaustive = True
    selftest(ctx, *spaces[0][1])
    for label, (queries, cases) in spaces:
        judge_all(ctx, queries, cases, label)
        ctx.extra.setdefault("spaces", {})[label] = {"tables": len(cases), "queries": len(queries)}
    q, cs = spaces[0][1]
    for c in [c for c in cs if c["im"] != c["am"]][:2] + [c for c in cs if any(c["ic"])][:2]:
        k = next((i for i in range(len(q)) if c["im"][i] != c["am"][i]), 0)
        ctx.sample({"table": [[pstr(e["mp"]), e["fs"]] for e in c["tbl"]], "query": pstr(q[k]),
                    "expected_mount_index": c["im"][k], "as_built_index": c["am"][k], "expected_on_cifs": c["ic"][k]})
    ctx.assume("mount output lines have the Linux or macOS shape of the doc-string; mount points without blanks")


def replay(ctx, rec):
    c = rec["case"]
    case, queries = c["tlc"], c["queries"]
    pairs = pairs_for(case, queries, rec.get("seed", 0))
    exp = expected_from(case, queries, "ip", "im", "ic", "ig", pairs)
    asb = expected_from(case, queries, "ap", "am", "ac", "ag", pairs)
    obs = observe(case, queries, c["flavour"], c["order"], pairs)
    ctx.ran()
    d = first_diff(queries, exp, obs, pairs)
    print("replay first difference:", d)
    ctx.judge(obs == exp, f"replay: mount lookup deviates: {d}", case=c, expected=exp, observed=obs,
              known_id=KNOWN_ID, asbuilt=asb)
