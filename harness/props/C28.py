"""C28 Batch-scheduler workers (SLURM, SGE) follow the scheduler's verdict.

Spec: specs/BatchWorker.tla - the worker's polling protocol (submit, poll the queue,
consult the accounting, requeue/resubmit, verdict) against an adversarial scheduler whose
whole response sequence is chosen arbitrarily, plus the semantics of the user's
job-name/output/error options.
  M1  TLC checks the invariants (complete iff success+result, failed iff failure,
      interruption => requeue and keep polling, options exactly once) exhaustively
      (MC_BatchWorker_quick: every option string x sequences <= 3, with an action-coverage
      vacuity guard; thorough adds MC_BatchWorker_opts: every option string x sequences
      <= 4 and MC_BatchWorker: sequences <= 6 with/without --no-requeue) and the liveness
      properties Terminates / KeepsPolling (MC_BatchWorker_live); the two as-built
      switches (MC_BatchWorker_asbuilt_*) must violate Inv.
  M3  BatchWorker_Gen prints every terminal behaviour (history variable `ev`) of the
      selected cases in both modes; the driver replays each case on the real
      SlurmWorker / SgeWorker through a real Submitter against fake scheduler commands
      (harness/fakes) that answer with the behaviour's responses, and compares the
      observed event sequence (submit / poll(response) / requeue), the verdict and the
      argv given to sbatch/qsub with the spec's.
"""
import json
import re
import threading

from harness import core, batch_common as bc

LEVEL = "model_checking"

ACTIONS = ["Submit", "PollWait", "PollComplete", "PollFailed", "PollInterrupted",
           "PollInterruptedNoRequeue", "PollMissingWait", "PollMissingRaise", "Requeue"]


# ------------------------------------------------------------------ TLC
class M1(threading.Thread):
    def __init__(self, cfg, expect_violation=False, coverage=False, workers=4, timeout=560):
        super().__init__(daemon=True)
        self.cfg, self.expect_violation, self.coverage, self.workers, self.timeout = cfg, expect_violation, coverage, workers, timeout
        self.r = None

    def run(self):
        self.r = core.run_tlc("BatchWorker.tla", cfg=self.cfg, workers=self.workers, coverage=self.coverage,
                              timeout=self.timeout)

    def account(self, ctx):
        self.join()
        r = self.r
        ctx.states += r.distinct
        ctx.transitions += r.generated
        ctx.tlc_runs.append({"module": "BatchWorker", "cfg": self.cfg, "distinct": r.distinct,
                             "generated": r.generated, "wall_s": round(r.wall, 1),
                             "expect": "Inv violated" if self.expect_violation else "no error"})
        tail = "\n".join(r.out.splitlines()[-30:])
        if self.expect_violation:
            if "Inv" not in r.invariant_violated:
                raise core.MachineryError(f"as-built switch does not reproduce the finding at model level ({self.cfg}):\n{tail}")
        elif not r.ok or r.invariant_violated or r.property_violated:
            raise core.MachineryError(f"design check failed ({self.cfg}): the reference spec violates its own properties:\n{tail}")
        if self.coverage:  # vacuity guard: every action of the reference must have fired
            cov = {m.group(1): int(m.group(2)) for m in
                   re.finditer(r"<(\w+) line \d+, col \d+ to line \d+, col \d+ of module BatchWorker(?: \([\d ]+\))?>: \d+:(\d+)", r.out)}
            missing = [a for a in ACTIONS if not cov.get(a)]
            if missing:
                raise core.MachineryError(f"vacuity: actions never taken in {self.cfg}: {missing}")
            ctx.extra.setdefault("action_coverage", {}).update({a: cov[a] for a in ACTIONS})


def generate(ctx, name, plan, maxpolls, exhlen, samplemod):
    cfg = bc.gen_cfg(ctx, name, ["slurm", "sge"], plan, maxpolls, exhlen, samplemod, ctx.seed)
    r = ctx.tlc("BatchWorker_Gen", cfg=cfg, workers=1, timeout=500)
    return bc.group(r.printed())


def pick(ctx, cases, n):
    """Seeded sample of n cases that covers every (kind, --no-requeue?, response), every pair of
    consecutive responses' classes and every (kind, option string) first."""
    if n >= len(cases):
        return list(cases)
    pool = list(cases)
    ctx.rng.shuffle(pool)

    def primary(c):
        o = c["opts"]
        return ({(c["kind"], o["nr"], "r", r) for r in c["script"]}
                | {(c["kind"], "o", o["J"], o["o"], o["e"], o["nr"]), (c["kind"], "s", c["sub"])})

    def pairs(c):
        sc = c["script"]
        return {(c["kind"], c["opts"]["nr"], "rr", sc[k], sc[k + 1]) for k in range(len(sc) - 1)}

    chosen = []
    for feats in (primary, pairs):  # greedy cover, the single responses / option strings first
        seen, rest = set(), []
        for c in chosen:
            seen |= feats(c)
        for c in pool:
            f = feats(c)
            if not f <= seen and len(chosen) < n:
                chosen.append(c)
                seen |= f
            else:
                rest.append(c)
        pool = rest
    return chosen + pool[:max(0, n - len(chosen))]


# ------------------------------------------------------------------ judge
def slim(case):
    return {k: case[k] for k in ("kind", "opts", "sub", "script", "want", "allowed", "asbuilt", "finding")}


def report(ctx, case, obs):
    problems, proj = bc.evaluate(case, obs)
    detail = {k: obs.get(k) for k in ("optstr", "etype", "msg", "where", "out")}
    for pr in problems:
        ctx.judge(False, pr["what"], case={"tlc": slim(case)}, expected=pr["expected"], observed=pr["observed"],
                  known_id=pr.get("known_id"), asbuilt=pr.get("asbuilt"), detail=detail)
    # outcomes the statement leaves open: recorded, not judged
    if not problems:
        last = proj["ev"][-1] if proj["ev"] else None
        if last and last[0] == "poll" and last[1] == "acctmissing":
            ctx.observe(f"{case['kind']}: accounting knows nothing about the job -> worker raises {obs.get('etype')}",
                        {"script": case["script"], "msg": obs.get("msg")})
        elif "acctmissing" in case["script"][:len([e for e in proj["ev"] if e[0] == "poll"])]:
            ctx.observe(f"{case['kind']}: accounting knows nothing about the job -> worker keeps polling", {"script": case["script"]})
        if case["opts"]["nr"] and last and last[0] == "poll" and last[1] in ("cancelled", "timeout", "preempted"):
            ctx.observe(f"slurm --no-requeue: interrupted job is not requeued, submitter raises {obs.get('etype')}",
                        {"script": case["script"], "msg": obs.get("msg")})
    return problems


def selftest(case):
    """Binding self-test: a synthetic observation equal to the spec's first allowed behaviour
    is accepted; corrupting one expected value (verdict / event / option source) is noticed."""
    kind = case["kind"]
    vals = {"J": "vjob", "o": "/u/o", "e": "/u/e"}
    flag = {"J": "-J" if kind == "slurm" else "-N", "o": "-o", "e": "-e"}
    argv = []
    for k in ("J", "o", "e"):
        argv += [flag[k], vals[k] if case["want"][k] == ["user"] else "dflt"]
    argv.append("batchscript_x.sh")
    beh = case["allowed"][0]
    log, nsub = [], 0
    for e, r in beh["ev"]:
        if e == "submit" or (e == "requeue" and kind == "sge"):
            nsub += 1
            log.append({"cmd": "sbatch" if kind == "slurm" else "qsub", "argv": argv, "nsub": nsub})
        elif e == "poll":
            log.append({"cmd": "squeue" if kind == "slurm" else "qstat", "argv": [], "r": r})
        else:
            log.append({"cmd": "scontrol", "argv": ["requeue", "1"], "jobid_ok": True})
    obs = {"verdict": beh["verdict"], "out": 2, "log": log, "vals": vals}
    if bc.evaluate(case, obs)[0]:
        raise core.MachineryError("selftest: the spec's own behaviour is rejected by the judge")
    bad = json.loads(json.dumps(case))
    for a in bad["allowed"]:
        a["verdict"] = "error" if a["verdict"] == "complete" else "complete"
    if not bc.evaluate(bad, obs)[0]:
        raise core.MachineryError("selftest: corrupted expected verdict not noticed")
    bad = json.loads(json.dumps(case))
    for a in bad["allowed"]:
        a["ev"] = a["ev"] + [["requeue", "-"]]
    if not bc.evaluate(bad, obs)[0]:
        raise core.MachineryError("selftest: corrupted expected event sequence not noticed")
    bad = json.loads(json.dumps(case))
    bad["want"]["o"] = ["default"] if bad["want"]["o"] == ["user"] else ["user"]
    if not bc.evaluate(bad, obs)[0]:
        raise core.MachineryError("selftest: corrupted expected option source not noticed")


# ------------------------------------------------------------------ run
def replay_cases(ctx, cases):
    for n, c in enumerate(cases):
        c["n"] = n
    res = bc.run_cases(ctx, cases)
    # a case that timed out is retried alone with a doubled allowance
    def overran(obs):
        return sum(1 for r in obs["log"] if r["cmd"] in ("squeue", "qstat") and r["r"] == "overrun") >= 4

    late = [dict(c, timeout=2 * bc.CASE_TIMEOUT) for c in cases
            if res[c["n"]]["verdict"] == "timeout" and not overran(res[c["n"]])]
    if late:
        res.update(bc.run_cases(ctx, late, chunk=1))
    nviol = 0
    for c in cases:
        obs = res[c["n"]]
        if obs["verdict"] == "timeout":
            if overran(obs):
                ctx.violation(f"{c['kind']} worker keeps polling after the scheduler's final answer and never reports a verdict",
                              case={"tlc": slim(c)}, expected=c["allowed"], observed=[(r["cmd"], r.get("r")) for r in obs["log"]][:40])
                nviol += 1
                continue
            raise core.MachineryError(f"replay of case {c['kind']} {c['opts']} {c['script']} timed out twice "
                                      f"({2 * bc.CASE_TIMEOUT} s); fake log: {[(r['cmd'], r.get('r')) for r in obs['log']]}")
        ctx.ran()
        ctx.nontriv(json.dumps([c["kind"], c["opts"], c["sub"], c["script"]], sort_keys=True))
        if report(ctx, c, obs):
            nviol += 1
    return res


SPELLINGS = {"long option, value as next word": "--job-name {J} --output {o}",
             "short option, value attached": "-J{J} -o{o}",
             "two blanks between option and value": "-J  {J} -o  {o}"}


def observe_spellings(ctx, base):
    """Other legal sbatch spellings of job-name/output (outside the statement's -J/-o/-e and
    --job-name=/--output=/--error= combinations): recorded, not judged."""
    cases = [dict(base, n=k, optstr=v, label=l) for k, (l, v) in enumerate(SPELLINGS.items())]
    res = bc.run_cases(ctx, cases, chunk=1)
    for c in cases:
        obs = res[c["n"]]
        _, argvs = bc.project_log(obs["log"])
        got = bc.project_argv("slurm", argvs[0], obs["vals"]) if argvs else None
        ctx.observe(f"slurm, {c['label']} ({c['optstr']}): occurrences in the sbatch argv "
                    f"job-name={got and got['J']} output={got and got['o']}, verdict {obs['verdict']}",
                    {"argv": argvs[0][:-1] if argvs else None})


def run(ctx):
    import time
    t0 = time.time()
    timing = ctx.extra.setdefault("timing_s", {})
    th = ctx.thorough
    # M1 design checks run beside the replay
    m1 = [M1("MC_BatchWorker_quick.cfg", coverage=True, workers=2),
          M1("MC_BatchWorker_live.cfg", workers=1),
          M1("MC_BatchWorker_asbuilt_slurm.cfg", expect_violation=True, workers=1),
          M1("MC_BatchWorker_asbuilt_sge.cfg", expect_violation=True, workers=1)]
    if th:
        m1 += [M1("MC_BatchWorker_opts.cfg", workers=4), M1("MC_BatchWorker.cfg", workers=6)]
    for t in m1:
        t.start()

    # M3 behaviour generation (plan "mix"): (a) representative option strings x response scripts
    # (all up to length 2, hash-sampled up to length 6/4), (b) every other option string x one-response scripts
    allc = generate(ctx, "gen", "mix", 6 if th else 4, 2, 9604 if th else 343)
    timing["generate"] = round(time.time() - t0, 1)
    few = {json.dumps(c["opts"], sort_keys=True) for c in allc if len(c["script"]) > 1}
    scripts = [c for c in allc if json.dumps(c["opts"], sort_keys=True) in few]
    options = [c for c in allc if json.dumps(c["opts"], sort_keys=True) not in few]
    for c in scripts + options:
        if not c["allowed"] or not c["asbuilt"]:
            raise core.MachineryError(f"generator gave no behaviour for {c['kind']} {c['opts']} {c['script']}")
    selftest(next(c for c in scripts if c["kind"] == "slurm" and len(c["script"]) == 2 and c["script"][0] == "cancelled"
                  and not c["opts"]["nr"] and c["opts"]["J"] != "none"))
    selftest(next(c for c in scripts if c["kind"] == "sge" and c["script"] == ["evicted", "completed"]))
    ctx.extra["generated_cases"] = {"scripts_x_few_options": len(scripts), "all_options_x_short_scripts": len(options)}
    if th:
        chosen = scripts + options
    else:
        # mostly cases in which the as-built code is expected to follow the protocol
        chosen = (pick(ctx, [c for c in scripts if not c["finding"]], 36) + pick(ctx, [c for c in scripts if c["finding"]], 8)
                  + pick(ctx, [c for c in options if not c["finding"]], 8) + pick(ctx, [c for c in options if c["finding"]], 8))
    # always replayed (quick too): the schedules in which accounting is consulted twice for one job and the job then
    # completes - requeue after cancellation / time-out / pre-emption, and an empty queue while accounting says running
    twice = [c for c in scripts if c["kind"] == "slurm" and not c["finding"] and not c["opts"]["nr"] and c["sub"] == "accepted"
             and len(c["script"]) == 2 and c["script"][1] in ("completed", "failed1")
             and c["script"][0] in ("cancelled", "timeout", "preempted", "acctrunning")]
    by_script = {}
    for c in twice:
        by_script.setdefault(json.dumps(c["script"]), c)
    chosen = list(by_script.values()) + chosen
    seen, cases = set(), []
    for c in chosen:
        k = json.dumps([c["kind"], c["opts"], c["sub"], c["script"]], sort_keys=True)
        if k not in seen:
            seen.add(k)
            cases.append(c)
    ctx.exhaustive = bool(th)
    ctx.rule = ("case = (worker kind, user option string, answer to the submission, scheduler response script ending in a "
                "forcing response); TLC (BatchWorker_Gen) prints every terminal behaviour of each case in intended and as-built "
                "mode; thorough replays every case of {6 slurm + 3 sge representative option strings} x {all scripts of "
                "length <= 2, hash-sampled scripts of length 3..6} and {all 54 slurm + 8 sge option strings} x {all scripts "
                "of length 1, submit error}; quick replays a seeded covering sample; M1 checks all sequences <= 6 at model level")
    t1 = time.time()
    replay_cases(ctx, cases)
    timing["replay"] = round(time.time() - t1, 1)
    timing["replayed_cases"] = len(cases)
    if th:
        observe_spellings(ctx, next(c for c in allc if c["kind"] == "slurm" and c["script"] == ["completed"]
                                    and c["opts"] == {"J": "none", "o": "none", "e": "none", "nr": False}))
    for c in [c for c in cases if len(c["script"]) >= 3 and not c["finding"]][:2] + [c for c in cases if c["finding"]][:2]:
        ctx.sample({"kind": c["kind"], "opts": c["opts"], "sub": c["sub"], "script": c["script"],
                    "allowed": c["allowed"], "asbuilt": c["asbuilt"] if c["finding"] else None, "finding": c["finding"]})
    ctx.assume("the scheduler is simulated: fake sbatch/squeue/sacct/scontrol/qsub/qstat/qacct answer from the TLC behaviour; "
               "the batch script is really executed (load_and_run) exactly when the response is 'completed'")
    ctx.assume("SGE worker run with poll_for_result_file=False, collect_jobs_delay=0 and its hard-coded sleeps shortened "
               "(asyncio.sleep proxy in the harness child); one job per submission (no job arrays > 1)")
    ctx.assume("a killed/interrupted job leaves no lock or partial result behind (not modelled)")
    t1 = time.time()
    for t in m1:
        t.account(ctx)
    timing["wait_for_m1_after_replay"] = round(time.time() - t1, 1)


def replay(ctx, rec):
    case = rec["case"]["tlc"]
    case["n"] = 0
    res = bc.run_cases(ctx, [case], chunk=1)
    obs = res[0]
    print("replay observation:", json.dumps({k: v for k, v in obs.items() if k != "log"}))
    print("fake scheduler log:", [(r["cmd"], r.get("r")) for r in obs["log"]])
    if obs["verdict"] == "timeout":
        raise core.MachineryError("replay timed out")
    ctx.ran()
    report(ctx, case, obs)
