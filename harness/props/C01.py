"""C01 Split expands to exactly the outer/inner product of the split inputs.

Spec: SplitAlgebra!Expand / WellShaped.  TLC enumerates every splitter tree over the
field set and every length vector (mode M2) and prints the expected job sequence; the
real code is run on every case at state level (pydra.engine.state.State) and on a
seeded sample (quick) / all 3-field cases (thorough) at API level (Task.split(...)()).
"""
from harness import core, split_common as sc

LEVEL = "model_checking"


def check_state(case):
    o = sc.state_run(case)
    return judge_state(case, o), o


def judge_state(case, o):
    if not case["ok"]:
        # operands of an inner product must have the same shape (docs: "requires the lists ... to have the same
        # length"); equal flat length with different shape (fok) is rejected by the engine as well
        return "ok" if o["err"] else "accepted-unequal-inner"
    if o["err"]:
        return "error-on-valid"
    if o["jobs"] != case["jobs"]:
        return "jobs-mismatch"
    exp_vals = [{f: sc.val(f, i) for f, i in j.items()} for j in case["jobs"]]
    if o["vals"] != exp_vals:
        return "vals-mismatch"
    return "ok"


def check_api(case):
    o = sc.api_run(case)
    return judge_api(case, o), o


def judge_api(case, o):
    if not case["ok"]:
        if not o["err"]:
            return "accepted-unequal-inner"
        if o["bodies"] or o["jobdirs"]:
            return "jobs-ran-before-rejection"
        return "ok"
    if o["err"]:
        return "error-on-valid"
    exp = [sc.out_of(j) for j in case["jobs"]]
    if [tuple(x) for x in o["out"]] != exp:
        return "outputs-mismatch"
    if sorted(o["bodies"]) != sorted(sc.body_line(t) for t in exp):
        return "bodies-mismatch"
    if len(o["jobdirs"]) != len(exp):
        return "jobdir-count-mismatch"
    return "ok"


def run(ctx):
    if ctx.thorough:
        cases = sc.generate(ctx, ["a", "b", "c", "d"], 0, 3, "expand", nshards=16)
    else:
        cases = sc.generate(ctx, ["a", "b", "c"], 0, 3, "expand")
        # the complete 4-field tree space with shorter lists rides along in quick
        cases += sc.generate(ctx, ["a", "b", "c", "d"], 1, 2, "expand", minfields=4, nshards=12)
    ctx.exhaustive = True
    ctx.rule = ("TLC enumerates every n-ary outer/inner splitter tree over every ordered subset of the fields "
                "x every length vector; distinct = distinct (tree, lengths) initial states of SplitAlgebra_Gen; "
                "non-trivial = at least one inner or outer node (>=2 fields)")
    res = core.pmap(check_state, cases, chunksize=64)
    for case, (v, o) in zip(cases, res):
        ctx.ran()
        if len(case["l"]) >= 2:
            ctx.nontriv((str(case["t"]), str(case["l"])))
        if v == "undecided":
            ctx.observe("inner operands of equal flat length but different shape: " + ("rejected" if o["err"] else "paired"),
                        {"t": sc.to_spl(case["t"]), "l": case["l"]})
        elif v != "ok":
            ctx.violation(f"state level: {v}", case={"tlc": case, "level": "state"},
                          expected=case["jobs"] if case["ok"] else "rejected", observed=o)
    # API level
    pool = [c for c in cases if len(c["l"]) <= 3 and all(n <= 3 for n in c["l"].values())]
    n_api = len(pool) if ctx.thorough and len(pool) < 6000 else (5000 if ctx.thorough else 320)
    api_cases = pool if n_api >= len(pool) else ctx.rng.sample(pool, n_api)
    res = core.pmap(check_api, api_cases, chunksize=4)
    for case, (v, o) in zip(api_cases, res):
        ctx.ran()
        if v == "undecided":
            continue
        if v != "ok":
            ctx.violation(f"API level: {v}", case={"tlc": case, "level": "api"},
                          expected=[sc.out_of(j) for j in case["jobs"]] if case["ok"] else "rejected, 0 jobs", observed=o)
    for c in [c for c in api_cases if c["ok"] and len(c["l"]) == 3][:3] + [c for c in api_cases if not c["ok"]][:1]:
        ctx.sample({"splitter": repr(sc.to_spl(c["t"])), "lengths": c["l"], "well_shaped": c["ok"],
                    "expected_jobs": c["jobs"][:6]})
    ctx.extra["api_level_cases"] = len(api_cases)
    ctx.extra["state_level_cases"] = len(cases)


def replay(ctx, rec):
    case = rec["case"]["tlc"]
    v, o = (check_state if rec["case"]["level"] == "state" else check_api)(case)
    ctx.ran()
    print("replay verdict:", v, o)
    if v not in ("ok", "undecided"):
        ctx.violation(f"replay: {v}", case=rec["case"], expected=rec["expected"], observed=o)
