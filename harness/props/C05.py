"""C05 Equivalent splitter spellings agree; ill-formed split/combine is rejected early.

(i) Spec: SplitAlgebra!Normalize and the theorem Expand(t) = Expand(Normalize(t)) (checked
by TLC on every enumerated tree incl. unary wrappers).  TLC emits every spelling together
with its normal form and the expected jobs; all spellings of one normal form must give the
expected jobs on the real code (state level all, API level sample, both compared directly).
(ii) Spec: SplitAlgebra!WellFormed.  TLC (SplitAlgebra_Req) enumerates valid requests and
every single-point perturbation; ill-formed => error and zero executed bodies / job dirs.
"""
import json
import os
import shutil
import tempfile

from harness import core, split_common as sc

LEVEL = "model_checking"


def check_state(case):
    o = sc.state_run(case)
    if not case["ok"]:
        v = "ok" if o["err"] else "accepted-unequal-inner"
    elif o["err"]:
        v = "error-on-valid-spelling"
    elif o["jobs"] != case["jobs"]:
        v = "jobs-differ-from-normal-form"
    else:
        v = "ok"
    return v, o


def check_api(case):
    o = sc.api_run(case)
    if not case["ok"]:
        return "undecided", o
    if o["err"]:
        return "error-on-valid-spelling", o
    exp = [sc.out_of(j) for j in case["jobs"]]
    if [tuple(x) for x in o["out"]] != exp:
        return "outputs-differ-from-normal-form", o
    return "ok", o


def req_run(case, in_workflow=False):
    """Execute a (possibly ill-formed) split/combine request through the public API."""
    spl = sc.to_spl(case["t"])
    lists = {f: [sc.val(f, i) for i in range(2)] for f in case["given"]}
    consts = {f: f"K_{f}" for f in sc.ALL_FIELDS if f not in lists}
    tmp = tempfile.mkdtemp(prefix="verif_req_")
    log = os.path.join(tmp, "body.log")
    open(log, "w").close()
    os.environ["VERIF_BODYLOG"] = log
    obs = {"err": None}
    try:
        try:
            task = sc.Ident(**consts)
            if case["split"]:
                task = task.split(spl, **lists)
            if case["c"]:
                task = task.combine(list(case["c"]))
            if in_workflow:
                from harness.split_wf import wrap_in_workflow
                task = wrap_in_workflow(task)
            task(cache_root=os.path.join(tmp, "cache"))
        except Exception as e:  # noqa
            obs["err"] = f"{type(e).__name__}: {str(e)[:100]}"
        with open(log) as f:
            obs["bodies"] = len(f.readlines())
        cache = os.path.join(tmp, "cache")
        obs["jobdirs"] = sorted(d for d in os.listdir(cache) if d.startswith("python-")) if os.path.isdir(cache) else []
        return obs
    finally:
        os.environ.pop("VERIF_BODYLOG", None)
        shutil.rmtree(tmp, ignore_errors=True)


def judge_req(case, o):
    if case["wf"]:
        if not case["ws"]:
            return "ok"  # well-formed request over an ill-shaped inner product: rejection is C01's business
        return "ok" if not o["err"] else "error-on-well-formed-request"
    if not o["err"]:
        return "ill-formed-request-accepted"
    if o["bodies"] or o["jobdirs"]:
        return "jobs-ran-before-rejection"
    return "ok"


def check_req(case):
    o = req_run(case)
    return judge_req(case, o), o


def check_req_wf(case):
    o = req_run(case, in_workflow=True)
    return judge_req(case, o), o


def run(ctx):
    # ---- (i) spellings ----
    if ctx.thorough:
        cases = sc.generate(ctx, ["a", "b", "c", "d"], 1, 2, "spelling", nshards=16)
        cases += sc.generate(ctx, ["a", "b", "c"], 0, 3, "spelling", nshards=4)
    else:
        cases = sc.generate(ctx, ["a", "b", "c"], 1, 2, "spelling", nshards=4)
        cases += sc.generate(ctx, ["a", "b", "c", "d"], 2, 2, "spelling", minfields=4, nshards=12)
    ctx.rule = ("(i) TLC enumerates every splitter tree and every tree with one unary list/tuple wrapper, grouped by "
                "normal form; non-trivial = a spelling that differs from its normal form; (ii) TLC enumerates valid "
                "requests and all single-point perturbations (dup, missing, extra, comb-notsplit, comb-unknown, comb-nosplit)")
    ctx.exhaustive = True
    res = core.pmap(check_state, cases, chunksize=64)
    classes = {}
    for case, (v, o) in zip(cases, res):
        ctx.ran()
        if case["t"] != case["norm"]:
            ctx.nontriv((json.dumps(case["t"]), json.dumps(case["l"], sort_keys=True)))
        if v == "undecided":
            continue
        if v != "ok":
            ctx.violation(f"spelling, state level: {v}", case={"tlc": case, "part": "spelling-state"},
                          expected=case["jobs"] if case["ok"] else "rejected", observed=o)
        elif case["ok"]:
            # direct comparison between spellings of the same normal form
            key = (json.dumps(case["norm"], sort_keys=True), json.dumps(case["l"], sort_keys=True))
            prev = classes.setdefault(key, (o["jobs"], case))
            if prev[0] != o["jobs"]:
                ctx.violation("two equivalent spellings run different jobs", case={"tlc": case, "part": "spelling-state", "other": prev[1]["t"]},
                              expected=prev[0], observed=o)
    ctx.extra["normal_forms"] = len(classes)
    pool = [c for c in cases if c["ok"] and c["t"] != c["norm"]]
    api_cases = ctx.rng.sample(pool, min(len(pool), 3000 if ctx.thorough else 200))
    res = core.pmap(check_api, api_cases, chunksize=4)
    for case, (v, o) in zip(api_cases, res):
        ctx.ran()
        if v not in ("ok", "undecided"):
            ctx.violation(f"spelling, API level: {v}", case={"tlc": case, "part": "spelling-api"},
                          expected=[sc.out_of(j) for j in case["jobs"]], observed=o)
    for c in api_cases[:2]:
        ctx.sample({"spelling": repr(sc.to_spl(c["t"])), "normal_form": repr(sc.to_spl(c["norm"])), "lengths": c["l"]})
    # ---- (ii) ill-formed requests ----
    cfg = ctx.scratch / "req.cfg"
    fields = '{"a","b","c"}'
    cfg.write_text(f"INIT Init\nNEXT Next\nCONSTANTS\n  Fields = {fields}\n  Extra = {{\"d\"}}\n"
                   "INVARIANT Emit\nINVARIANT Theorems\nCHECK_DEADLOCK FALSE\n")
    r = ctx.tlc("SplitAlgebra_Req", cfg=cfg, workers=1)
    reqs = r.printed()
    if len(reqs) != r.distinct:
        raise core.MachineryError("request generator output incomplete")
    if not ctx.thorough:
        bad = [c for c in reqs if not c["wf"]]
        good = [c for c in reqs if c["wf"]]
        reqs = ctx.rng.sample(bad, min(len(bad), 420)) + ctx.rng.sample(good, min(len(good), 80))
    res = core.pmap(check_req, reqs, chunksize=4)
    kinds = {}
    for case, (v, o) in zip(reqs, res):
        ctx.ran()
        kinds[case["kind"]] = kinds.get(case["kind"], 0) + 1
        if not case["wf"]:
            ctx.nontriv(("req", json.dumps(case, sort_keys=True)))
        if v != "ok":
            ctx.violation(f"request ({case['kind']}): {v}", case={"tlc": case, "part": "request"},
                          expected="accepted" if case["wf"] else "error, 0 bodies, 0 job directories", observed=o)
    ctx.extra["request_kinds"] = kinds
    for c in [c for c in reqs if c["kind"] in ("dup", "extra", "comb-notsplit")][:3]:
        ctx.sample({"request_kind": c["kind"], "splitter": repr(sc.to_spl(c["t"])), "values_for": c["given"], "combiner": c["c"], "well_formed": c["wf"]})


def replay(ctx, rec):
    case = rec["case"]["tlc"]
    part = rec["case"]["part"]
    fn = {"spelling-state": check_state, "spelling-api": check_api, "request": check_req}[part]
    v, o = fn(case)
    ctx.ran()
    print("replay verdict:", v, o)
    if v not in ("ok", "undecided"):
        ctx.violation(f"replay: {v}", case=rec["case"], expected=rec["expected"], observed=o)
