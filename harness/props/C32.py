"""C32 Task definitions survive dictionary round trips.

Spec: DefRoundTrip (projection that must be preserved, the dictionary form with defaults
left out, RoundTrip = FromDict o ToDict, the theorem RoundTripPreserves checked by TLC on
every enumerated definition; Verdict = allowed values + Rules!Broken; Args = documented
command line) enumerated by DefRoundTrip_Gen in two modes: the C31 definitions
(RulesEnum) as python and shell tasks, and shell/python definitions built from field
templates (flag / optional string with allowed values / int with default / integer list
with sep / mandatory positional) x help, argstr, sep variants x position schemes x rule
schemes.

Binding: each definition is materialised as generated source text, sent through the real
`unstructure` -> `structure`, and the re-created class is projected (name, type, default,
help, allowed values, requires, argstr, position, sep, xor; outputs compared directly) and
compared with the projection TLC computed; for every value assignment the re-created
class must give the verdict / command line TLC computed from the same definition term
(differences shared with the original class are C22/C31 matters and only recorded); a
sample of valid assignments is executed on both classes.

As-built reference `RoundTripAsBuilt`: requirement sets are written as mappings and read
back as the single requirement name "requirements" -> re-creation fails with
"unrecognised field names ['requirements']" for every definition that has `requires`
(known finding C32-requires-roundtrip when listed).
"""
import copy
import multiprocessing as mp
import os

from harness import core, rules_common as rc

LEVEL = "model_checking"
BSI = ["b", "s", "i"]


def jobs_for(ctx):
    J = []

    def add(name, mode, flavour, nshards, pick=None, **kw):
        shards = range(nshards) if pick is None else sorted(ctx.rng.sample(range(nshards), pick))
        for sh in shards:
            J.append(dict(name=name, mode=mode, flavour=flavour, shard=sh, nshards=nshards,
                          scratch=str(ctx.scratch), seed=ctx.seed,
                          jvm_env=None if ctx.thorough else {"_JAVA_OPTIONS": "-XX:TieredStopAtLevel=1"}, **kw))

    n2 = dict(N=2, kinds=BSI + ["m"], maxmand=1, reqsets=2, reqs=2, owners=2, maxxor=2, mingroup=1, maxgroup=2)
    n3 = dict(N=3, kinds=BSI, reqsets=1, reqs=2, owners=1, maxxor=1, mingroup=2, maxgroup=3)
    n3x = dict(N=3, kinds=BSI, reqsets=0, reqs=0, owners=1, maxxor=2, mingroup=2, maxgroup=3)
    if ctx.thorough:
        add("fields-shell", "fields", "shell", 12, maxfields=3)
        add("fields-python", "fields", "python", 4, maxfields=3)
        for fl in ("python", "shell"):
            add(f"rules2-{fl}", "rules", fl, 2, rules=n2)
            add(f"rules3-{fl}", "rules", fl, 3, rules=n3)
            add(f"rules3x-{fl}", "rules", fl, 3, rules=n3x)
    else:
        add("fields-shell", "fields", "shell", 1, maxfields=2)
        add("fields3-shell", "fields", "shell", 24, pick=1, maxfields=3)
        add("fields-python", "fields", "python", 1, maxfields=2)
        add("rules2-python", "rules", "python", 16, pick=1, rules=n2)
        add("rules2-shell", "rules", "shell", 16, pick=1, rules=n2)
    return J


def selftest(ctx):
    """A corrupted expected projection / expected command line must be noticed."""
    fd = {"name": "a", "type": "bool", "default": "False", "help": "", "allowed": [], "req": [],
          "argstr": "-a", "position": 1, "sep": " "}
    proj = {"fields": {"a": {k: v for k, v in fd.items() if k != "name"}}, "xor": []}
    case = {"flavour": "shell", "fields": [fd], "xor": [], "proj": proj, "asbuilt": proj, "known": False,
            "tab": [{"a": ["T"], "y": "", "args": ["-a"]}]}
    good = rc.roundtrip_one(ctx.scratch, case, "behaviour")
    if good.get("machinery") or good["problems"]:
        return  # pydra itself is off on the simplest definition; the real run reports it
    bad = copy.deepcopy(case)
    bad["tab"][0]["args"] = ["-z"]
    r = rc.roundtrip_one(ctx.scratch, bad, "behaviour")
    if not (r["problems"] or r["observations"]):
        raise core.MachineryError("selftest: corrupted expected command line not noticed")
    # a faulty round trip (patched in this process only: the dictionary form loses help and argstr)
    import pydra.utils.general as g
    real = g.unstructure

    def lossy(K, **kw):
        dct = real(K, **kw)
        for f in dct["inputs"].values():
            f.pop("help", None)
            f["argstr"] = "-q"
        return dct

    case["fields"][0]["help"] = proj["fields"]["a"]["help"] = "the a flag"
    g.unstructure = lossy
    try:
        r = rc.roundtrip_one(ctx.scratch, case, "behaviour")
    finally:
        g.unstructure = real
    levels = {p["level"] for p in r["problems"]}
    if not {"projection", "behaviour"} <= levels:
        raise core.MachineryError(f"selftest: a lossy round trip was not noticed: {r}")


def run(ctx):
    rc.private_hash_cache(ctx.scratch)
    selftest(ctx)
    jobs = jobs_for(ctx)
    procs = min(14, os.cpu_count() or 4, len(jobs))
    with mp.get_context("fork").Pool(procs) as pool:
        results = pool.map(rc.roundtrip_shard, jobs, chunksize=1)
    distinct = set()
    n_known = unlisted_as_predicted = unpredicted = 0
    listed = ctx.known.get(rc.KNOWN_REQUIRES, {}).get("status") == "known"
    for res in results:
        if res["machinery"]:
            raise core.MachineryError(res["machinery"])
        ctx.states += res["distinct"]
        ctx.transitions += res["generated"]
        ctx.tlc_runs.append({"module": "DefRoundTrip_Gen", "cfg": f"{res['name']} shard {res['shard']}",
                             "distinct": res["distinct"], "generated": res["generated"], "wall_s": res["wall"]})
        ctx.ran(res["defs"] + res["rows"] + res["runs"])
        distinct.update(res["nontrivial"])
        for p in res["problems"]:
            ctx.violation(p["what"], case=p["case"], expected=p["expected"], observed=p["observed"])
        for k in res["known"]:
            n_known += 1
            predicted = k["observed"] == k["asbuilt"]
            if predicted and not listed:
                unlisted_as_predicted += 1
                if unlisted_as_predicted > 3:      # unlisted finding: a few replay files are enough
                    continue
            if not predicted:
                unpredicted += 1
                if unpredicted > 10:
                    continue
            ctx.judge(False, "definition with `requires` does not survive unstructure/structure",
                      case=k["case"], expected=k["expected"], observed=k["observed"],
                      known_id=rc.KNOWN_REQUIRES, asbuilt=k["asbuilt"])
        for key, (n, ex) in res["observations"].items():
            d = ctx.observations.setdefault(key, {"count": 0, "example": ex})
            d["count"] += n
        for s in res["samples"]:
            ctx.sample(s)
        ctx.extra.setdefault("per_family", {}).setdefault(res["name"], {"definitions": 0, "assignments": 0, "executed": 0})
        f = ctx.extra["per_family"][res["name"]]
        f["definitions"] += res["defs"]
        f["assignments"] += res["rows"]
        f["executed"] += res["runs"]
    ctx.nontrivial_extra = len(distinct)
    ctx.exhaustive = True
    ctx.rule = ("TLC enumerates every definition of each DefRoundTrip_Gen configuration (distinct states = definitions); "
                "evaluations = round trips + (definition, assignment) behaviour comparisons + executed pairs; "
                "non-trivial = distinct definitions (every one has at least one non-default attribute)")
    ctx.extra["definitions_with_requires"] = n_known
    ctx.extra["requires_cases_matching_asbuilt_prediction"] = n_known - unpredicted
    if not ctx.thorough:
        ctx.extra["quick_scope"] = "fields mode with <=2 fields (+ one seed-chosen shard of the 3-field space); rules mode on seed-chosen shards"
    ctx.assume("judged projection: name, type, default, help, allowed values, requires, xor (+ argstr, position, sep for "
               "shell); an implicit position is compared with the original class, not with the spec")
    ctx.assume("the JSON leg (types/function replaced by placeholders) is recorded, not judged: the tutorial says the "
               "dictionary form needs further serialisation work before it can be written to JSON/YAML")


def replay(ctx, rec):
    rc.private_hash_cache(ctx.scratch)
    c = rec["case"]
    case, level = c["tlc"], c["level"]
    if "proj" not in case:
        print("replay: this record was stored in abbreviated form (known-finding overflow); nothing to re-run")
        return
    r = rc.roundtrip_one(ctx.scratch, case, level)
    ctx.ran()
    print("replay:", {k: r.get(k) for k in ("machinery", "problems", "known", "roundtrip")})
    if r.get("machinery"):
        raise core.MachineryError(r["machinery"])
    for p in r["problems"]:
        ctx.violation("replay: " + p["what"], case=c, expected=p["expected"], observed=p["observed"])
    if r["known"]:
        k = r["known"]
        ctx.judge(False, "replay: definition with `requires` does not survive unstructure/structure", case=c,
                  expected=k["expected"], observed=k["observed"], known_id=rc.KNOWN_REQUIRES, asbuilt=k["asbuilt"])
