"""C04 Splitting nested containers visits every inner element.

Spec: SplitAlgebra!Flat (elements at depth n, depth-first).  TLC (SplitAlgebra_Nested)
enumerates every nested list of uniform depth <= D with inner lengths 0..L (regular and
ragged), every container dimension 1..depth and the contexts alone / outer / inner with a
second plain field; the real Task.split(..., container_ndim={...})() must run exactly one
job per element of Flat(v, n), in that order.
"""
import json
import os
import shutil
import tempfile

from harness import core, split_common as sc

LEVEL = "model_checking"


def to_py(x):
    return x["a"] if x["k"] == "a" else [to_py(i) for i in x["v"]]


def relabel(x):
    """same skeleton, atoms n -> 'y<n>' (the partner field of the inner context)."""
    return [relabel(i) for i in x] if isinstance(x, list) else f"y{x}"


def gen(ctx, depths, maxinner, contexts, tag):
    cfg = ctx.scratch / f"nested_{tag}.cfg"
    cfg.write_text("INIT Init\nNEXT Next\nCONSTANTS\n  Depths = {%s}\n  MaxInner = %d\n  Contexts = {%s}\n"
                   "INVARIANT Emit\nINVARIANT Theorems\nCHECK_DEADLOCK FALSE\n"
                   % (",".join(map(str, depths)), maxinner, ",".join(f'"{c}"' for c in contexts)))
    r = ctx.tlc("SplitAlgebra_Nested", cfg=cfg, workers=1, timeout=1200)
    cases = r.printed()
    if len(cases) != r.distinct:
        raise core.MachineryError("nested generator output incomplete")
    return cases


def expected(case):
    flat = [to_py(e) for e in case["flat"]]
    ys = [relabel(e) for e in flat] if case["cx"] == "inner" else ["y0", "y1"]
    cx = case["cx"]
    if cx == "alone":
        return [(e, "K_b") for e in flat]
    if cx == "outer-left":
        return [(e, y) for e in flat for y in ys]
    if cx == "outer-right":
        return [(e, y) for y in ys for e in flat]
    return list(zip(flat, ys))


def run_case(case):
    v = to_py(case["v"])
    flat_n = len(case["flat"])
    cx = case["cx"]
    tmp = tempfile.mkdtemp(prefix="verif_nested_")
    obs = {"err": None}
    try:
        try:
            kw = {"a": v}
            nd = {"a": case["n"]}
            if cx == "alone":
                spl, base = "a", sc.Ident(b="K_b")
            else:
                kw["b"] = relabel(v) if cx == "inner" else ["y0", "y1"]
                if cx == "inner":
                    nd["b"] = case["n"]
                spl = {"outer-left": ["a", "b"], "outer-right": ["b", "a"], "inner": ("a", "b")}[cx]
                base = sc.Ident()
            task = base.split(spl, container_ndim=nd, **kw)
            outs = task(cache_root=os.path.join(tmp, "cache"))
            obs["out"] = [(o[0], o[1]) for o in outs.out]
        except Exception as e:  # noqa
            obs["err"] = f"{type(e).__name__}: {str(e)[:100]}"
        return obs
    finally:
        shutil.rmtree(tmp, ignore_errors=True)


def check(case):
    o = run_case(case)
    exp = expected(case)
    if o["err"]:
        return "error", o
    if o["out"] != exp:
        got = o["out"]
        if len(got) < len(exp):
            return "elements-dropped", o
        if len(got) > len(exp):
            return "elements-duplicated-or-extra", o
        return "wrong-elements-or-order", o
    return "ok", o


def run(ctx):
    ctxs = ["alone", "outer-left", "outer-right", "inner"]
    cases = gen(ctx, [1, 2], 3, ctxs, "d2")
    if ctx.thorough:
        cases += gen(ctx, [3], 2, ctxs, "d3")
        cases += gen(ctx, [3], 3, ["alone"], "d3w") if False else []
    else:
        d3 = gen(ctx, [3], 2, ["alone", "inner"], "d3")
        cases += d3
    ctx.exhaustive = True
    ctx.rule = ("TLC enumerates every nested list of uniform depth (1,2 with inner lengths 0..3; 3 with 0..2), atoms labelled "
                "depth-first, x container_ndim 1..depth x context; non-trivial = ragged value or ndim >= 2")
    res = core.pmap(check, cases, chunksize=4)
    for case, (v, o) in zip(cases, res):
        ctx.ran()
        if not case["regular"] or case["n"] >= 2:
            ctx.nontriv(json.dumps([case["v"], case["n"], case["cx"]]))
        if v != "ok":
            ctx.violation(f"{v} (regular={case['regular']}, ndim={case['n']}, context={case['cx']})",
                          case={"tlc": case}, expected=expected(case), observed=o)
    for c in [c for c in cases if not c["regular"] and c["n"] == 2][:2] + [c for c in cases if c["depth"] == 3 and c["n"] == 3][:1]:
        ctx.sample({"value": to_py(c["v"]), "container_ndim": c["n"], "context": c["cx"], "expected_elements": [to_py(e) for e in c["flat"]]})


def replay(ctx, rec):
    case = rec["case"]["tlc"]
    v, o = check(case)
    ctx.ran()
    print("replay verdict:", v, o)
    if v != "ok":
        ctx.violation(f"replay: {v}", case=rec["case"], expected=rec["expected"], observed=o)
