"""C35 Job lifecycle leaves the process and cache directory consistent.

M1: TLC checks CwdRestored, InfoRemoved, DirHasJobAndResult, TaskHooksOncePerExecution on
    JobProtocol with an exception injected at every raising-capable control point
    (RaiseBudget 1) for the *intended* design (TryStartsLate = FALSE: holds) and for the
    as-built ordering (TryStartsLate = TRUE: TLC must report the violation).
Fault enumeration on the real code: an exception is raised from every hook point on the
    execution path (python task ok / raising, workflow job), followed by a normal
    resubmission.  The hook trace (injection included) is validated by TLC against the
    intended design; when it is rejected or an invariant fails, it is validated against the
    as-built switch: accepted there = exactly the recorded known finding, anything else is a
    violation.  Task hooks (pre_run_task / post_run_task) are counted: once per execution,
    never for a cache hit.
"""
from harness import core
from harness import job_common as jc

LEVEL = "fault_enumeration"

POINTS_OK = ["pre_run", "locked", "checked", "info_written", "dir_cleared", "dir_made", "save_locked:1", "job_saved",
             "chdir", "pre_run_task", "audit_started", "body_start", "body_end", "outputs_collected", "post_run_task",
             "audit_finalized", "save_locked:2", "result_write_begin", "result_written", "result_saved",
             "info_unlinked", "cwd_restored", "releasing", "post_run"]
POINTS_ERR = ["error_recorded", "post_run_task", "audit_finalized", "result_saved", "cwd_restored"]
BEFORE_TRY = {"locked", "checked", "info_written", "dir_cleared", "dir_made", "save_locked:1", "job_saved", "chdir",
              "pre_run_task", "audit_started"}
IN_FINALLY = {"post_run_task", "audit_finalized", "save_locked:2", "result_write_begin", "result_written",
              "result_saved", "info_unlinked"}


def hook_counts(path, proc):
    c = {}
    try:
        for line in open(path):
            p, name = line.split()
            if p == proc:
                c[name] = c.get(name, 0) + 1
    except FileNotFoundError:
        pass
    return c


def run_hooks_case(case):
    """hooks installed: run (executes) then run again (cache hit) then rerun; count hook calls."""
    import os, shutil, tempfile
    base = tempfile.mkdtemp(prefix="verif_hooks_")
    try:
        scn = jc.Scenario(base)
        hl = os.path.join(base, "hooks.log")
        procs = [{"p": "p1", "hooks_log": hl, "mode": case["modes"][0]},
                 {"p": "p2", "hooks_log": hl, "mode": case["modes"][1]},
                 {"p": "p3", "hooks_log": hl, "rerun": True, "mode": case["modes"][2]}]
        outs = jc.run_sequential(scn, procs, case["task"])
        ev = jc.normalize(jc.read_log(scn.log))
        res = []
        for p in ("p1", "p2", "p3"):
            executed = any(e["a"] == "BodyStart" and e["p"] == p for e in ev)
            res.append({"p": p, "executed": executed, "hooks": hook_counts(hl, p)})
        return {"outs": outs, "per_proc": res}
    finally:
        shutil.rmtree(base, ignore_errors=True)


def run_async_lifecycle(worker):
    import json as _json, os, shutil, subprocess, tempfile
    base = tempfile.mkdtemp(prefix="verif_life_")
    try:
        p = subprocess.run([core.PY, "-m", "harness.life_child", base, worker], env=core.child_env(hooks=True),
                           capture_output=True, text=True, timeout=900)
        o = os.path.join(base, "out.json")
        if not os.path.exists(o):
            raise core.MachineryError("life_child failed: " + p.stderr[-600:])
        return _json.load(open(o))
    finally:
        shutil.rmtree(base, ignore_errors=True)


def judge_async(ctx, worker, recs):
    """the C35 invariants (CwdRestored, InfoRemoved, DirHasJobAndResult) on the end state of each call of the
    asynchronous path (Job.run_async; the hook trace of that path is not validated by JobProtocol_Trace, whose
    Chdir step belongs to the synchronous path)."""
    want = ["ok", "ok", "raised"]
    for r, w in zip(recs, want):
        case = {"async_lifecycle": {"worker": worker, "step": r["step"], "mode": r["mode"]}}
        if r["status"] != w:
            ctx.violation(f"workflow call {r['step']+1} ({r['mode']}) ended {r['status']}", case=case, expected=w, observed=r)
            continue
        if not r["cwd_restored"]:
            ctx.violation(f"CwdRestored: after workflow call {r['step']+1} ({r['mode']}, worker {worker}) the process is left in {r['cwd']}",
                          case=case, expected="cwd restored", observed=r)
        if r["info_files"]:
            ctx.violation(f"InfoRemoved: {r['info_files']} left after workflow call {r['step']+1} (worker {worker})", case=case, observed=r)
        bad = {d: v for d, v in r["dirs"].items() if not (v["job"] and v["res"])}
        if bad:
            ctx.violation(f"DirHasJobAndResult: {bad} after workflow call {r['step']+1} (worker {worker})", case=case, observed=r)


def run(ctx):
    r = ctx.tlc("MC_JobProtocol", cfg="MC_C35.cfg", workers=8, coverage=True, timeout=1500)
    ctx.require_coverage(r, ["InjectAt", "Release", "RaiseOut", "PreTask", "PostTask"])
    r2 = ctx.tlc("MC_JobProtocol", cfg="MC_C35_asbuilt.cfg", workers=4, must_pass=False, timeout=900)
    if not r2.invariant_violated:
        raise core.MachineryError("model insensitive: TryStartsLate does not violate the C35 invariants")
    specs = []
    tasks = ["Work", "Wf1"] if ctx.thorough else ["Work"]
    for task in tasks:
        for pt in POINTS_OK:
            specs.append({"kind": "seq", "task": task, "init": {"root": "absent"}, "point": pt, "mode": "ok",
                          "procs": [{"p": "p1", "raise_at": pt, "mode": "ok"}, {"p": "p2"}]})
        for pt in POINTS_ERR:
            specs.append({"kind": "seq", "task": task, "init": {"root": "absent"}, "point": pt, "mode": "raise",
                          "procs": [{"p": "p1", "raise_at": pt, "mode": "raise"}, {"p": "p2", "mode": "ok"}]})
    for pt in ["pre_run", "locked", "checked", "releasing"]:   # cache-hit path
        specs.append({"kind": "seq", "task": "Work", "init": {"root": "ok"}, "point": pt, "mode": "ok",
                      "procs": [{"p": "p1", "raise_at": pt}, {"p": "p2"}]})
    obs = core.pmap(jc.execute_robust, specs, procs=8, chunksize=1)
    traces = []
    for tid, (spec, o) in enumerate(zip(specs, obs), 1):
        ctx.ran()
        ctx.nontriv((spec["task"], spec["point"], spec["mode"], spec["init"]["root"]))
        traces.append({"tid": tid, "init": jc.spec_init(spec["init"]), "ev": o["ev"]})
    ideal = jc.validate_traces(ctx, traces, "ideal")
    def cwd_bad(t):
        first = obs[t["tid"] - 1]["outs"][0]
        return first.get("status") in ("ok", "raised") and not first.get("cwd_restored", True)
    again = [t for t in traces if ideal[t["tid"]]["verdict"][0] != "accepted" or cwd_bad(t)]
    asb = jc.validate_traces(ctx, again, "asbuilt") if again else {}
    for t in traces:
        spec, o = specs[t["tid"] - 1], obs[t["tid"] - 1]
        case = {"spec": spec}
        first = o["outs"][0]
        injected = any(e["a"] == "Inject" for e in t["ev"])
        v = ideal[t["tid"]]["verdict"]
        # direct end-state observations of the first call
        direct = []
        if first.get("status") in ("ok", "raised"):
            if not first.get("cwd_restored", True):
                direct.append("cwd not restored")
        if v[0] == "accepted" and not direct:
            continue
        if v[0] == "accepted":
            v = ["observed", "cwd not restored after the call"]
        va = asb[t["tid"]]["verdict"]
        cls = "before-try" if spec["point"] in BEFORE_TRY else ("in-finally" if spec["point"] in IN_FINALLY else "other")
        ok_known = injected and cls in ("before-try", "in-finally") and (va[0] == "accepted" or (va[0] == "invariant" and va[1] in ("CwdRestored", "InfoRemoved", "DirHasJobAndResult")))
        ctx.judge(False, f"exception injected at '{spec['point']}' ({cls}, task {spec['task']}): intended design says {v}; as-built model says {va}",
                  case=case, expected="accepted by JobProtocol (clean-up)", observed="as-built" if ok_known else {"ideal": v, "asbuilt": va, "first": first, "end": o["end"]},
                  known_id="C35-late-try" if ok_known else None, asbuilt="as-built" if ok_known else None)
    # ---- asynchronous path (workflow job under the cf worker) and the same workflow under debug ----
    for worker in ("cf", "debug"):
        recs = run_async_lifecycle(worker)
        ctx.ran(len(recs))
        ctx.nontriv(("async", worker))
        judge_async(ctx, worker, recs)
    # ---- task hooks once per execution, never for a hit ----
    hcases = [{"task": t, "modes": m} for t in ("Work", "Two") for m in (["ok", "ok", "ok"], ["raise", "ok", "ok"], ["raise", "raise", "ok"])]
    res = core.pmap(run_hooks_case, hcases, procs=6, chunksize=1)
    for hc, o in zip(hcases, res):
        ctx.ran()
        for pp in o["per_proc"]:
            exp = 1 if pp["executed"] else 0
            got = (pp["hooks"].get("pre_run_task", 0), pp["hooks"].get("post_run_task", 0))
            if got != (exp, exp):
                ctx.violation(f"task hooks called {got} times for a submission that {'executed' if exp else 'was a cache hit'}",
                              case={"hooks_case": hc}, expected=(exp, exp), observed=o)
    ctx.sample({"inject_at": specs[9]["point"], "events": [(e["a"], e["p"]) for e in traces[9]["ev"]]})
    ctx.sample({"hooks_case": hcases[1], "observed": res[1]["per_proc"]})
    ctx.rule = "one run per (task kind, injection point, body mode): exception raised from the hook point, then a normal resubmission; plus hook-count histories"


def replay(ctx, rec):
    case = rec["case"]
    if "async_lifecycle" in case:
        w = case["async_lifecycle"]["worker"]
        recs = run_async_lifecycle(w)
        print(recs)
        ctx.ran()
        judge_async(ctx, w, recs)
        return
    if "hooks_case" in case:
        print(run_hooks_case(case["hooks_case"]))
        ctx.ran()
        return
    spec = case["spec"]
    o = jc.execute(spec)
    ctx.ran()
    tr = [{"tid": 1, "init": jc.spec_init(spec["init"]), "ev": o["ev"]}]
    v = jc.validate_traces(ctx, tr, "ideal")[1]["verdict"]
    va = jc.validate_traces(ctx, tr, "asbuilt")[1]["verdict"]
    print("outs", o["outs"], "end", o["end"], "ideal", v, "asbuilt", va)
    if v[0] != "accepted":
        ctx.violation("replay: trace not accepted by the intended design", case=case, observed={"ideal": v, "asbuilt": va})
