"""Fresh interpreter for C29: load a cloudpickled job, project it, run it, report."""
import json
import sys

import cloudpickle as cp

if __name__ == "__main__":
    pkl, outp = sys.argv[1], sys.argv[2]
    sys.path.insert(0, sys.argv[3])
    from harness.props.C29 import project, plain
    with open(pkl, "rb") as f:
        job = cp.load(f)
    res = {"proj": project(job)}
    if len(sys.argv) > 4 and sys.argv[4] == "ship-only":
        json.dump(res, open(outp, "w"), default=str)
        sys.exit(0)
    try:
        job.run(rerun=False) if not job.is_async else None
        if job.is_async:
            from pydra.engine.submitter import Submitter
            # workflow jobs are expanded by their (shipped) submitter
            job.submitter.loop.run_until_complete(job.run_async(rerun=False))
        r = job.result()
        from harness.props.C29 import outputs_of
        res["out"] = plain(outputs_of(r)) if r is not None and r.outputs is not None else None
        res["errored"] = bool(r.errored)
    except BaseException as e:  # noqa
        res["err"] = f"{type(e).__name__}: {str(e)[:300]}"
    json.dump(res, open(outp, "w"), default=str)
