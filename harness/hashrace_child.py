"""Child interpreter for the C07 concurrent file-hash scenario (HashCacheEntry.tla).
role writer: hashes the file with a slowed-down entry write (harness-side test double: pathlib.Path.write_bytes
             creates the file, waits, then writes) so that the empty-entry window is wide;
role reader: waits until the entry file exists, then hashes the same file at once;
role late:   hashes after everybody has finished."""
import json
import os
import sys
import time
from pathlib import Path

if __name__ == "__main__":
    role, fpath, cache, out = sys.argv[1:5]
    os.environ["PYDRA_HASH_CACHE"] = cache
    from fileformats.generic import File
    from pydra.utils.hash import hash_function

    if role == "writer":
        orig = Path.write_bytes

        def slow_write_bytes(self, data):
            if str(self).startswith(cache):
                with open(self, "wb") as f:      # the entry exists, still empty
                    f.flush()
                    time.sleep(1.5)
                    f.write(data)
                return len(data)
            return orig(self, data)
        Path.write_bytes = slow_write_bytes
    elif role == "reader":
        deadline = time.time() + 30
        while time.time() < deadline:
            if any(not n.endswith(".lock") for n in os.listdir(cache)):
                break
            time.sleep(0.005)
    d = hash_function(File(fpath))
    json.dump({"role": role, "digest": d, "seed": os.environ.get("PYTHONHASHSEED")}, open(out, "w"))
