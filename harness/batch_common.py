"""Shared code for C28 (batch-scheduler workers): TLC behaviour generation, replay of a
behaviour on the real SlurmWorker / SgeWorker against the fake scheduler in
harness/fakes, projection of what was observed.

The expected values come from TLC (specs/BatchWorker.tla, BatchWorker_Gen.tla): for every
case (kind, user options, submit answer, response script) the "intended" terminal
behaviours are the allowed outcomes and the "asbuilt" behaviour is the named as-built
prediction.  This module only materialises a case, runs the real code and projects.
"""
import json
import os
import subprocess
import sys
import time
from pathlib import Path

from pydra.compose import python

FAKES = Path(__file__).resolve().parent / "fakes"
FAKE_CMDS = ["sbatch", "squeue", "sacct", "scontrol", "qsub", "qstat", "qacct"]
CASE_TIMEOUT = 90  # seconds per case inside the child (machine is shared and noisy)


@python.define
def BatchAdd(x: int) -> int:
    return x + 1


# ------------------------------------------------------------------ TLC side
def gen_cfg(ctx, name, kinds, plan, maxpolls, exhlen, samplemod, seed, modes=("intended", "asbuilt")):
    ks = ", ".join(f'"{k}"' for k in kinds)
    ms = ", ".join(f'"{m}"' for m in modes)
    p = ctx.scratch / f"{name}.cfg"
    p.write_text(f"""INIT Init
NEXT Next
CONSTANTS
  Kinds = {{{ks}}}
  Modes = {{{ms}}}
  MaxPolls = {maxpolls}
  ExhLen = {exhlen}
  SampleMod = {samplemod}
  Seed = {seed}
  OptPlan = "{plan}"
INVARIANT Emit
CHECK_DEADLOCK FALSE
""")
    return p


def case_key(b):
    o = b["opts"]
    return (b["kind"], o["J"], o["o"], o["e"], bool(o["nr"]), b["sub"], tuple(b["script"]))


def group(behaviours):
    """TLC behaviours -> cases {allowed outcomes (intended), as-built outcomes}."""
    cases = {}
    for b in behaviours:
        k = case_key(b)
        c = cases.setdefault(k, {"kind": b["kind"], "opts": b["opts"], "sub": b["sub"], "script": b["script"],
                                 "want": b["want"], "finding": "", "allowed": [], "asbuilt": []})
        out = {"ev": [[e["e"], e["r"]] for e in b["ev"]], "verdict": b["verdict"]}
        if b["mode"] == "intended":
            if out not in c["allowed"]:
                c["allowed"].append(out)
        else:
            out["why"] = b["why"]
            if out not in c["asbuilt"]:
                c["asbuilt"].append(out)
            if b["finding"]:
                c["finding"] = b["finding"]
    res = []
    for k in sorted(cases):
        c = cases[k]
        strip = [{"ev": a["ev"], "verdict": a["verdict"]} for a in c["asbuilt"]]
        c["deviates"] = bool(c["asbuilt"]) and sorted(map(json.dumps, strip)) != sorted(map(json.dumps, c["allowed"]))
        if not c["deviates"]:
            c["finding"] = ""
        res.append(c)
    return res


# ------------------------------------------------------------------ materialise
def opt_string(kind, opts, udir):
    """User option string of the case and the user's values."""
    vals = {"J": "vjob", "o": f"{udir}/user-%j.out", "e": f"{udir}/user-%j.err"}
    short = {"J": "-J" if kind == "slurm" else "-N", "o": "-o", "e": "-e"}
    long_ = {"J": "--job-name", "o": "--output", "e": "--error"}
    toks = []
    for k in ("J", "o", "e"):
        if opts[k] == "short":
            toks.append(f"{short[k]} {vals[k]}")
        elif opts[k] == "long":
            toks.append(f"{long_[k]}={vals[k]}")
    if opts["nr"]:
        toks.append("--no-requeue")
    return " ".join(toks), vals


def project_argv(kind, argv, vals):
    """argv given to sbatch/qsub -> per key the sources ("user"/"default") of its occurrences."""
    short = {"-J" if kind == "slurm" else "-N": "J", "-o": "o", "-e": "e"}
    long_ = {"--job-name": "J", "--output": "o", "--error": "e"} if kind == "slurm" else {}
    got = {"J": [], "o": [], "e": []}
    body = argv[:-1]
    k = 0
    while k < len(body):
        a = body[k]
        key = val = None
        if a in short or a in long_:
            key = short.get(a) or long_.get(a)
            val = body[k + 1] if k + 1 < len(body) else None
            k += 1
        elif a.startswith("--") and a.split("=", 1)[0] in long_ and "=" in a:
            key, val = long_[a.split("=", 1)[0]], a.split("=", 1)[1]
        elif len(a) > 2 and a[:2] in short and not a.startswith("--"):
            key, val = short[a[:2]], a[2:]
        if key:
            got[key].append("user" if val == vals[key] else "default")
        k += 1
    return got


def read_log(path):
    """log.tsv written by harness/fakes/_batchfake.sh -> list of invocation records."""
    res = []
    if not Path(path).exists():
        return res
    for line in Path(path).read_text().split("\n"):
        if not line:
            continue
        cmd, i, r, ok, nsub, args = line.split("\t", 5)
        res.append({"cmd": cmd, "i": int(i), "r": r, "jobid_ok": ok == "1", "nsub": int(nsub),
                    "argv": args.split("\x1f")[:-1]})
    return res


def project_log(log):
    """invocation log of the fakes -> abstract events of the spec."""
    ev, argvs = [], []
    for rec in log:
        c = rec["cmd"]
        if c in ("sbatch", "qsub"):
            argvs.append(rec["argv"])
            ev.append(["submit", "-"] if rec["nsub"] == 1 else ["requeue", "-"])
        elif c in ("squeue", "qstat"):
            ev.append(["poll", rec["r"]])
        elif c == "scontrol":
            ev.append(["requeue", "-"] if rec["argv"][:1] == ["requeue"] and rec["jobid_ok"] else ["scontrol?", " ".join(rec["argv"])])
    return ev, argvs


# ------------------------------------------------------------------ child: run the real worker
def _fast_sge():
    """Virtual time for the SGE worker's hard-coded sleeps (random 0-5 s, 10 s before re-asking qacct)."""
    import asyncio
    import pydra.workers.sge as sge

    class FastAsyncio:
        def __getattr__(self, name):
            return getattr(asyncio, name)

        @staticmethod
        async def sleep(delay, *a, **k):
            await asyncio.sleep(0 if delay <= 0 else 0.001)

    if not isinstance(sge.asyncio, FastAsyncio):
        sge.asyncio = FastAsyncio()


class CaseTimeout(BaseException):
    pass


def run_one(case, work):
    """Run one case in this process. Returns the raw observation."""
    import signal
    from pydra.engine.submitter import Submitter

    work = Path(work)
    ctl, udir = work / "ctl", work / "user"
    ctl.mkdir(parents=True)
    udir.mkdir()
    (ctl / "sub").write_text(case["sub"] + "\n")
    (ctl / "script").write_text("".join(r + "\n" for r in case["script"]))
    os.environ["VERIF_BATCH_CTL"] = str(ctl)
    ostr, vals = opt_string(case["kind"], case["opts"], udir)
    if case.get("optstr"):  # observation-only spellings outside the enumerated option strings
        ostr = case["optstr"].format(**vals)
    if case["kind"] == "slurm":
        kw = dict(sbatch_args=ostr, poll_delay=0)
    else:
        _fast_sge()
        kw = dict(qsub_args=ostr, poll_delay=0, collect_jobs_delay=0, poll_for_result_file=False,
                  polls_before_checking_evicted=1)
    obs = {"optstr": ostr}

    def on_alarm(signum, frame):
        raise CaseTimeout()

    signal.signal(signal.SIGALRM, on_alarm)
    signal.alarm(int(case.get("timeout", CASE_TIMEOUT)))
    t0 = time.time()
    # a worker that goes on polling after the scheduler's final (forcing) answer would never stop:
    # the fake answers such polls with "overrun"; after 4 of them the run is cut short
    import threading
    stop = threading.Event()

    def watchdog():
        while not stop.wait(0.5):
            try:
                if (ctl / "log.tsv").read_text().count("\toverrun\t1\t") >= 2 * 4:  # squeue + sacct lines
                    os.kill(os.getpid(), signal.SIGALRM)
                    return
            except OSError:
                pass

    threading.Thread(target=watchdog, daemon=True).start()
    import logging

    class _Grab(logging.Handler):       # failures the submitter logs instead of raising (raise_errors=False)
        def __init__(self):
            super().__init__(level=logging.ERROR)
            self.msgs = []

        def emit(self, record):
            self.msgs.append(record.getMessage()[:300])

    grab = _Grab()
    logging.getLogger("pydra").addHandler(grab)
    try:
        with Submitter(worker=case["kind"], cache_root=work / "cache", **kw) as sub:
            res = sub(BatchAdd(x=1))
        if grab.msgs:
            obs["worker_failure_logged"] = grab.msgs[:3]
        if res.errored:
            obs.update(verdict="error", etype="errored-result", msg="")
        else:
            obs.update(verdict="complete", out=res.outputs.out)
    except CaseTimeout:
        obs.update(verdict="timeout")
    except Exception as e:  # the worker / submitter reported a failure
        import traceback
        tb = traceback.extract_tb(e.__traceback__)
        obs.update(verdict="error", etype=type(e).__name__, msg=str(e)[:300],
                   where=[f"{Path(f.filename).name}:{f.lineno}:{f.name}" for f in tb[-3:]])
    finally:
        signal.alarm(0)
        stop.set()
    obs["wall"] = round(time.time() - t0, 2)
    obs["log"] = read_log(ctl / "log.tsv")
    obs["vals"] = vals
    return obs


def child_main(argv):
    """python -m harness.batch_common <cases.json> <workdir>: run the cases, one JSON line each."""
    cases = json.load(open(argv[0]))
    work = Path(argv[1])
    bindir = work / "bin"
    bindir.mkdir(parents=True, exist_ok=True)
    for c in FAKE_CMDS:
        if not (bindir / c).exists():
            os.symlink(FAKES / c, bindir / c)
    os.environ["PATH"] = f"{bindir}:{os.environ['PATH']}"
    os.environ["VERIF_BATCH_FAKES"] = str(FAKES)
    import pydra.engine.job as j
    print(json.dumps({"pydra": j.__file__}), flush=True)
    for c in cases:
        obs = run_one(c, work / f"case{c['n']}")
        print(json.dumps({"n": c["n"], "obs": obs}), flush=True)
        if obs["verdict"] == "timeout":
            os._exit(3)  # the event loop is in an unknown state: let the parent restart us


# ------------------------------------------------------------------ parent: farm cases out
def ensure_fakes():
    from harness import core
    for c in FAKE_CMDS + ["_batchfake.sh"]:
        f = FAKES / c
        if not f.exists():
            raise core.MachineryError(f"missing fake scheduler command {f}")
        if c != "_batchfake.sh" and not os.access(f, os.X_OK):
            os.chmod(f, 0o755)


def run_chunk(args):
    """Run a chunk of cases in child interpreters; returns {n: obs}."""
    from harness import core
    cases, work = args
    work = Path(work)
    work.mkdir(parents=True, exist_ok=True)
    results = {}
    todo = list(cases)
    attempt = 0
    while todo:
        attempt += 1
        cf = work / f"cases{attempt}.json"
        cf.write_text(json.dumps(todo))
        budget = 60 + sum(c.get("timeout", CASE_TIMEOUT) for c in todo)
        try:
            p = subprocess.run([core.PY, "-m", "harness.batch_common", str(cf), str(work / f"a{attempt}")],
                               env=core.child_env(), capture_output=True, text=True, timeout=budget, cwd=str(work))
            out, err = p.stdout, p.stderr
        except subprocess.TimeoutExpired as ex:
            out = ex.stdout.decode(errors="replace") if isinstance(ex.stdout, bytes) else (ex.stdout or "")
            err = "child interpreter exceeded its total budget"
        got = 0
        for line in out.splitlines():
            if line.startswith('{"pydra"'):
                if not json.loads(line)["pydra"].startswith(str(core.REPO)):
                    raise core.MachineryError("child imported pydra from " + line)
            elif line.startswith('{"n"'):
                d = json.loads(line)
                results[d["n"]] = d["obs"]
                got += 1
        todo = [c for c in todo if c["n"] not in results]
        if todo and got == 0:
            raise core.MachineryError(f"replay child produced nothing for case {todo[0]['n']}:\n{err[-1500:]}")
    return results


_BATCH = [0]


def run_cases(ctx, cases, procs=None, chunk=4):
    """Replay all cases (dicts with 'n'); returns {n: obs}."""
    from concurrent.futures import ThreadPoolExecutor
    ensure_fakes()
    procs = procs or min(16, os.cpu_count() or 4)
    _BATCH[0] += 1
    chunks = [cases[k:k + chunk] for k in range(0, len(cases), chunk)]
    jobs = [(ch, ctx.scratch / f"batch{_BATCH[0]}_chunk{idx}") for idx, ch in enumerate(chunks)]
    res = {}
    with ThreadPoolExecutor(max_workers=procs) as ex:
        for r in ex.map(run_chunk, jobs):
            res.update(r)
    return res


# ------------------------------------------------------------------ judge
def evaluate(case, obs):
    """Compare the observation with the spec's expectation.  Returns (problems, projected)
    where problems is a list of dicts {what, expected, observed[, known_id, asbuilt]}."""
    ev, argvs = project_log(obs["log"])
    proj = {"ev": ev, "verdict": obs["verdict"]}
    problems = []
    if proj not in case["allowed"]:
        pr = {"what": f"{case['kind']} worker does not follow the scheduler: observed outcome is not a behaviour of the spec",
              "expected": case["allowed"], "observed": dict(proj, why=obs.get("etype", ""))}
        if case["finding"] and len(case["asbuilt"]) == 1:
            pr["known_id"] = case["finding"]
            pr["asbuilt"] = case["asbuilt"][0]
        problems.append(pr)
    if obs["verdict"] == "complete" and obs.get("worker_failure_logged"):
        problems.append({"what": "the worker reported a failure for a job the scheduler completed (logged and swallowed by the "
                                 "submitter because the result exists)", "expected": "complete without a worker failure",
                         "observed": obs["worker_failure_logged"]})
    if obs["verdict"] == "complete" and obs.get("out") != 2:
        problems.append({"what": "reported complete with a wrong result", "expected": 2, "observed": obs.get("out")})
    for a in argvs:
        got = project_argv(case["kind"], a, obs["vals"])
        if got != case["want"]:
            problems.append({"what": f"user job-name/output/error options not honoured exactly once in the {case['kind']} submission",
                             "expected": case["want"], "observed": {"got": got, "argv": a}})
        if not a or not a[-1].endswith((".sh", ".job")):
            problems.append({"what": "batch script is not the last argument", "expected": "script last", "observed": a})
    return problems, proj


if __name__ == "__main__":
    from harness import batch_common as _bc  # so that BatchAdd is pickled by reference

    _bc.child_main(sys.argv[1:])
