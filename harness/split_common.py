"""Shared replay code for the SplitAlgebra properties (C01, C02, C04, C05).

TLC (specs/SplitAlgebra_Gen.tla) generates the cases and the expected expansions /
groups; this module only materialises a case as a pydra splitter, runs the real code
(state level: pydra.engine.state.State; API level: Task.split(...).combine(...)() through
a Submitter with the debug worker) and projects what it observed.
"""
import os
import shutil
import tempfile
import typing as ty

from pydra.compose import python

from harness import core

ALL_FIELDS = ["a", "b", "c", "d"]


@python.define
def Ident(a=None, b=None, c=None, d=None, k=7) -> ty.Any:
    log = os.environ.get("VERIF_BODYLOG")
    if log:
        with open(log, "a") as f:
            f.write(f"{a!r}|{b!r}|{c!r}|{d!r}|{k!r}\n")
    return (a, b, c, d, k)


def to_spl(t):
    """spec term -> pydra splitter spelling (list = outer, tuple = inner)."""
    if t["op"] == "f":
        return t["name"]
    kids = [to_spl(k) for k in t["kids"]]
    return kids if t["op"] == "*" else tuple(kids)


def gen_cfg(ctx, name, fields, minlen, maxlen, mode, minfields=1, shard=0, nshards=1, invariants=("Emit", "Theorems")):
    fs = ", ".join(f'"{f}"' for f in fields)
    txt = f"""INIT Init
NEXT Next
CONSTANTS
  Fields = {{{fs}}}
  MinLen = {minlen}
  MaxLen = {maxlen}
  Mode = "{mode}"
  MinFields = {minfields}
  Shard = {shard}
  NShards = {nshards}
""" + "".join(f"INVARIANT {i}\n" for i in invariants) + "CHECK_DEADLOCK FALSE\n"
    p = ctx.scratch / f"{name}.cfg"
    p.write_text(txt)
    return p


def generate(ctx, fields, minlen, maxlen, mode, minfields=1, nshards=1):
    """Run the TLC generator (possibly sharded over processes) and return the cases."""
    from concurrent.futures import ThreadPoolExecutor

    def one(sh):
        cfg = gen_cfg(ctx, f"gen_{mode}_{len(fields)}_{sh}", fields, minlen, maxlen, mode, minfields, sh, nshards)
        return ctx.tlc("SplitAlgebra_Gen", cfg=cfg, workers=1, timeout=3000)

    if nshards == 1:
        rs = [one(0)]
    else:
        with ThreadPoolExecutor(max_workers=min(nshards, 12)) as ex:
            rs = list(ex.map(one, range(nshards)))
    cases = []
    for r in rs:
        cs = r.printed()
        if len(cs) != r.distinct:
            raise core.MachineryError(f"generator printed {len(cs)} cases for {r.distinct} states")
        cases.extend(cs)
    return cases


def val(f, i):
    return f"{f}{i}"


def out_of(job, fields_all=ALL_FIELDS):
    """expected output tuple of Ident for a spec job (field -> index); unsplit fields keep K_f."""
    return tuple(val(f, job[f]) if f in job else f"K_{f}" for f in fields_all) + (7,)


# ---------------- state level ----------------
def state_run(case):
    from pydra.engine.state import State

    spl = to_spl(case["t"])
    comb = list(case["c"]) or None
    inputs = {f"N.{f}": [val(f, i) for i in range(n)] for f, n in case["l"].items()}
    try:
        st = State(name="N", splitter=spl, combiner=comb)
        st.prepare_states(inputs)
        jobs = [{k.split(".", 1)[1]: v for k, v in d.items()} for d in st.states_ind]
        vals = [{k.split(".", 1)[1]: v for k, v in d.items()} for d in st.states_val]
        groups = None
        if comb:
            groups = [list(st.final_combined_ind_mapping[g]) for g in sorted(st.final_combined_ind_mapping)]
        return {"err": None, "jobs": jobs, "vals": vals, "groups": groups,
                "keys_final": [k.split(".", 1)[1] for k in st.keys_final]}
    except Exception as e:  # noqa
        return {"err": f"{type(e).__name__}: {str(e)[:100]}"}


# ---------------- API level ----------------
def api_run(case, worker="debug", in_workflow=False):
    """Run Ident split/combined as the case says through the public API; returns observation."""
    spl = to_spl(case["t"])
    comb = list(case["c"])
    lists = {f: [val(f, i) for i in range(n)] for f, n in case["l"].items()}
    consts = {f: f"K_{f}" for f in ALL_FIELDS if f not in lists}
    tmp = tempfile.mkdtemp(prefix="verif_split_")
    log = os.path.join(tmp, "body.log")
    open(log, "w").close()
    os.environ["VERIF_BODYLOG"] = log
    obs = {}
    try:
        try:
            task = Ident(**consts).split(spl, **lists)
            if comb:
                task = task.combine(comb)
            outs = task(cache_root=os.path.join(tmp, "cache"), worker=worker)
            obs["err"] = None
            obs["out"] = _plain(outs.out)
        except Exception as e:  # noqa
            obs["err"] = f"{type(e).__name__}: {str(e)[:100]}"
        with open(log) as f:
            obs["bodies"] = [l.rstrip("\n") for l in f]
        cache = os.path.join(tmp, "cache")
        obs["jobdirs"] = sorted(d for d in os.listdir(cache) if d.startswith("python-")) if os.path.isdir(cache) else []
        return obs
    finally:
        os.environ.pop("VERIF_BODYLOG", None)
        shutil.rmtree(tmp, ignore_errors=True)


def _plain(x):
    if isinstance(x, (list,)):
        return [_plain(i) for i in x]
    if isinstance(x, tuple):
        return tuple(_plain(i) for i in x)
    return x


def body_line(t):
    a, b, c, d, k = t
    return f"{a!r}|{b!r}|{c!r}|{d!r}|{k!r}"
