"""./check --setup : syntax-check every spec module with SANY; ./check --selftest adds binding self-tests."""
import os
import subprocess
import sys
from pathlib import Path

from harness import core


def main(selftest=False):
    bad = 0
    for tla in sorted(core.SPECS.glob("*.tla")):
        p = subprocess.run(["java", "-cp", core.TLA_JAR, "tla2sany.SANY", tla.name], cwd=core.SPECS,
                           capture_output=True, text=True)
        ok = p.returncode == 0 and "Semantic errors" not in p.stdout and "Parse Error" not in p.stdout \
            and "*** Errors" not in p.stdout
        print(("ok   " if ok else "FAIL ") + tla.name)
        if not ok:
            bad += 1
            print(p.stdout[-1500:])
    for f in (core.ROOT / "harness" / "fakes").glob("*"):
        if f.is_file():
            os.chmod(f, 0o755)
    try:
        core.assert_repo_import()
    except Exception as e:  # noqa
        print("FAIL import:", e)
        bad += 1
    if selftest and not bad:
        from harness import selftest as st
        bad += st.main()
    return 1 if bad else 0
