"""Token-gated job body used by the Submitter schedules (imported inside the tasks)."""
import os
import time


def _log(line):
    ctl = os.environ["VERIF_CTL"]
    fd = os.open(os.path.join(ctl, "body.log"), os.O_WRONLY | os.O_APPEND | os.O_CREAT, 0o644)
    try:
        os.write(fd, (line + "\n").encode())
    finally:
        os.close(fd)


def gate(name, i):
    ctl = os.environ.get("VERIF_CTL")
    if not ctl:
        return i
    lab = f"{name}{i}"
    _log(f"S {lab}")
    deadline = time.time() + float(os.environ.get("VERIF_BODY_TIMEOUT", "120"))
    go, fail, allgo = (os.path.join(ctl, lab + ".go"), os.path.join(ctl, lab + ".fail"), os.path.join(ctl, "ALL.go"))
    while True:
        if os.path.exists(fail):
            _log(f"E {lab} err")
            raise ValueError(f"gate {lab} fails")
        if os.path.exists(go) or os.path.exists(allgo):
            break
        if time.time() > deadline:
            _log(f"E {lab} err")
            raise TimeoutError(f"gate {lab} never released")
        time.sleep(0.002)
    _log(f"E {lab} ok")
    return i
