"""Shared replay code for the template properties C25 (CmdTemplate) and C26 (PathTemplate).

TLC (specs/CmdTemplate_Gen.tla, specs/PathTemplate_Gen.tla) generates the cases together
with the expected observations; this module only materialises a case with the real pydra
API (shell.define / Job / Submitter), runs the real code and projects what it observed
into the vocabulary of the spec (field-table records, symbolic argv words, character-code
sequences).  Nothing here computes an expected value.
"""
import json
import os
import shutil
import stat
import tempfile
import types
import typing as ty
from concurrent.futures import ThreadPoolExecutor
from pathlib import Path

import attrs

# import everything the replay needs before worker processes are forked
from fileformats.generic import File  # noqa: F401
from pydra.compose import shell
from pydra.compose.shell.templating import template_update
from pydra.engine.job import Job  # noqa: F401
from pydra.engine.submitter import Submitter  # noqa: F401
from pydra.utils.general import attrs_values, get_fields
from pydra.utils.typing import MultiInputObj, MultiOutputFile  # noqa: F401
import pydra.workers.debug  # noqa: F401
import pydra.environments.native  # noqa: F401

from harness import core

# --------------------------------------------------------------------------------------
# TLC plumbing
# --------------------------------------------------------------------------------------


def write_cfg(ctx, name, consts, invariants=("Emit", "Theorems")):
    lines = ["INIT Init", "NEXT Next", "CONSTANTS"]
    for k, v in consts.items():
        lines.append(f"  {k} = " + (f'"{v}"' if isinstance(v, str) else str(v)))
    lines += [f"INVARIANT {i}" for i in invariants]
    lines.append("CHECK_DEADLOCK FALSE")
    p = Path(ctx.scratch) / f"{name}.cfg"
    p.write_text("\n".join(lines) + "\n")
    return p


def tlc_cases(module, cfg, simulate=None, depth=None, seed=None, timeout=3000, env=None):
    """Run one TLC generator process; returns (cases, stats).  Usable inside forked workers
    (does not touch a Ctx); the caller adds `stats` to the Ctx with `account`."""
    r = core.run_tlc(f"{module}.tla", cfg=cfg, workers=1, simulate=simulate, depth=depth, seed=seed,
                     timeout=timeout, deadlock=False if simulate else None, env=env)
    if not r.ok:
        raise core.MachineryError(f"TLC failed on {module} {cfg}:\n" + "\n".join(r.out.splitlines()[-40:]))
    cases = r.printed()
    if simulate:
        seen, uniq = set(), []
        for c in cases:
            k = json.dumps(c, sort_keys=True)
            if k not in seen:
                seen.add(k)
                uniq.append(c)
        cases = uniq
        distinct = len(cases)
    else:
        distinct = r.distinct
        if len(cases) != r.distinct:
            raise core.MachineryError(f"generator printed {len(cases)} cases for {r.distinct} states ({cfg})")
    return cases, {"module": module, "cfg": str(cfg), "distinct": distinct, "generated": r.generated,
                   "wall_s": round(r.wall, 1)}


def account(ctx, stats):
    ctx.states += stats["distinct"]
    ctx.transitions += stats["generated"]
    ctx.tlc_runs.append(stats)


# --------------------------------------------------------------------------------------
# the world the cases live in: input files, an argv-dumping executable
# --------------------------------------------------------------------------------------

VDUMP = r"""#!/bin/sh
# argv dumper used as the "executable" of generated shell tasks: records its working
# directory and its arguments (NUL separated) and creates every not yet existing path
# argument that lies in its working directory or in $VDUMP_OUT.
here=$(pwd -P)
{ printf '%s\0' "$here"; for a in "$@"; do printf '%s\0' "$a"; done; } > "$VDUMP_LOG"
for a in "$@"; do
  case "$a" in
    "$here"/*|"$VDUMP_OUT"/*)
      [ -e "$a" ] && continue
      b=${a##*/}
      case ":$VDUMP_DIRS:" in
        *":$b:"*) mkdir -p "$a" ;;
        *) case "$b" in
             *.png) printf '\211PNG\r\n\032\n' > "$a" ;;
             *.gz) printf '\037\213\010' > "$a" ;;
             *) printf 'x' > "$a" ;;
           esac ;;
      esac ;;
  esac
done
# extra relative paths the harness asks for (explicit relative output paths)
old_ifs=$IFS; IFS=:
for r in $VDUMP_TOUCH; do [ -n "$r" ] && [ ! -e "$r" ] && printf 'x' > "$r"; done
IFS=$old_ifs
exit 0
"""

MAGIC = {".png": b"\x89PNG\r\n\x1a\n", ".gz": b"\x1f\x8b\x08"}


class World:
    """Directories shared by all cases of one check run (created before workers fork)."""

    def __init__(self, root):
        self.root = Path(os.path.realpath(root)) / "world"
        self.indir = self.root / "in"
        self.outdir = self.root / "given"
        self.bindir = self.root / "bin"
        for d in (self.indir, self.outdir, self.bindir):
            d.mkdir(parents=True, exist_ok=True)
        for n in ("f1.txt", "f2.txt", "f1.csv", "f2.csv", "a", "a.txt", "a.nii.gz", "b.img"):
            (self.indir / n).write_text("a,b\n1,2\n")
        for n in ("f1.png", "f2.png", "f1.gz", "f2.gz"):
            (self.indir / n).write_bytes(MAGIC[Path(n).suffix] + b"\0" * 8)
        for n in ("d1", "d2"):
            (self.indir / n).mkdir(exist_ok=True)
        exe = self.bindir / "vdump"
        exe.write_text(VDUMP)
        exe.chmod(exe.stat().st_mode | stat.S_IXUSR | stat.S_IXGRP | stat.S_IXOTH)
        # pydra's persistent file-hash cache (documented variable): private to this run
        (self.root / "hashcache").mkdir(exist_ok=True)
        os.environ["PYDRA_HASH_CACHE"] = str(self.root / "hashcache")
        if str(self.bindir) not in os.environ.get("PATH", "").split(os.pathsep):
            os.environ["PATH"] = str(self.bindir) + os.pathsep + os.environ.get("PATH", "")

    def with_outdir(self, outdir):
        """copy of the world whose caller-given output paths ('!') live in `outdir`."""
        import copy

        w = copy.copy(self)
        w.outdir = Path(outdir)
        w.outdir.mkdir(parents=True, exist_ok=True)
        return w

    def path(self, sym):
        """symbolic path of the spec -> real path ('@' input dir, '!' caller-given output)."""
        if sym.startswith("@"):
            return str(self.indir / sym[1:])
        if sym.startswith("!"):
            return str(self.outdir / sym[1:])
        raise core.MachineryError(f"unknown symbolic path {sym!r}")

    def symbolise(self, word, jobdir):
        """real argv word -> symbolic word of the spec ('%' = inside the job directory)."""
        for prefix, mark in ((str(self.indir), "@"), (str(self.outdir), "!"), (str(jobdir), "%")):
            if word.startswith(prefix + "/"):
                return mark + word[len(prefix) + 1:]
        return word


# --------------------------------------------------------------------------------------
# C25: projection of a class built by shell.define(template) into the spec's field table
# --------------------------------------------------------------------------------------


def canon_type(tp):
    """python type -> (canonical type record of CmdTemplate!Canon, optional?, multi?)."""
    optional = multi = False
    if ty.get_origin(tp) in (ty.Union, types.UnionType):
        args = [a for a in ty.get_args(tp) if a is not type(None)]
        optional = len(args) != len(ty.get_args(tp))
        if len(args) != 1:
            return {"k": "other", "name": str(tp), "items": []}, optional, multi
        tp = args[0]
    if ty.get_origin(tp) is MultiInputObj:
        multi = True
        (tp,) = ty.get_args(tp)
    if tp in (int, float, str, bool):
        rec = {"k": "builtin", "name": tp.__name__, "items": []}
    elif ty.get_origin(tp) is tuple:
        args = ty.get_args(tp)
        names = [getattr(a, "__name__", str(a)) for a in args if a is not Ellipsis]
        if len(args) == 2 and args[1] is Ellipsis:
            rec = {"k": "vtuple", "name": "", "items": names}
        else:
            rec = {"k": "tuple", "name": "", "items": names}
    elif isinstance(tp, type) and hasattr(tp, "mime_like"):
        rec = {"k": "format", "name": tp.mime_like, "items": []}
    else:
        rec = {"k": "other", "name": str(tp), "items": []}
    return rec, optional, multi


def value_rec(x):
    """python value -> value record of the spec."""
    if isinstance(x, attrs.Factory):
        x = x.factory()
    if x is None:
        return {"k": "none", "s": "", "items": []}
    if isinstance(x, bool):
        return {"k": "bool", "s": str(x), "items": []}
    if isinstance(x, int):
        return {"k": "int", "s": str(x), "items": []}
    if isinstance(x, float):
        return {"k": "float", "s": repr(x), "items": []}
    if isinstance(x, str):
        return {"k": "str", "s": x, "items": []}
    if isinstance(x, tuple):
        return {"k": "tuple", "s": "", "items": [value_rec(i) for i in x]}
    if isinstance(x, list):
        return {"k": "list", "s": "", "items": [value_rec(i) for i in x]}
    return {"k": "other", "s": repr(x), "items": []}


def _pos_key(p):
    # documented ordering: non-negative ascending, then unpositioned, then negative ascending
    if p is None:
        return (1, 0)
    return (0, p) if p >= 0 else (2, p)


def field_table(klass):
    """Field table of a shell task class in the vocabulary of CmdTemplate!Field."""
    flds = [f for f in get_fields(klass) if f.name not in ("executable", "append_args")]
    exe = get_fields(klass).executable
    ranked = sorted(flds, key=lambda f: _pos_key(f.position))
    table = []
    for rank, f in enumerate(ranked, start=1):
        trec, optional, multi = canon_type(f.type)
        table.append({
            "name": f.name,
            "kind": "outarg" if isinstance(f, shell.outarg) else "arg",
            "type": trec,
            "optional": optional,
            "multi": multi,
            "default": {"k": "nodefault", "s": "", "items": []} if f.mandatory else value_rec(f.default),
            "argstr": f.argstr,
            "order": rank,
            "tmpl": getattr(f, "path_template", None) or "",
        })
    after_exe = all(isinstance(f.position, int) and _pos_key(f.position) > _pos_key(exe.position) for f in flds)
    exe_words = exe.default if isinstance(exe.default, (list, tuple)) else [exe.default]
    return table, list(exe_words), after_exe


def materialise(v, world):
    k = v["k"]
    if k == "int":
        return int(v["s"])
    if k == "float":
        return float(v["s"])
    if k == "str":
        return v["s"]
    if k == "bool":
        return v["s"] == "True"
    if k == "path":
        return world.path(v["s"])
    if k == "true":
        return True
    if k == "none":
        return None
    if k == "tuple":
        return tuple(materialise(i, world) for i in v["items"])
    if k == "list":
        return [materialise(i, world) for i in v["items"]]
    raise core.MachineryError(f"cannot materialise value {v}")


def case_kwargs(case, world):
    return {x["name"]: materialise(x["v"], world) for x in case["vals"] if x["v"]["k"] != "unset"}


_class_cache = {}


def define_cached(tpl):
    if tpl not in _class_cache:
        if len(_class_cache) > 64:
            _class_cache.clear()
        try:
            _class_cache[tpl] = (shell.define(tpl), None)
        except Exception as e:  # noqa
            _class_cache[tpl] = (None, f"{type(e).__name__}: {str(e)[:160]}")
    return _class_cache[tpl]


JOBSYM = Path("/JOBDIR")


def c25_observe(case, world):
    """Build the class from the template text, project its field table and the argv it
    would run for the case's values (same two calls `Task.cmdline` makes)."""
    obs = {"define_err": None, "fields": None, "exec": None, "after_exe": None, "argv": None}
    klass, err = define_cached(case["tpl"])
    if err:
        obs["define_err"] = err
        return obs
    obs["fields"], obs["exec"], obs["after_exe"] = field_table(klass)
    try:
        task = klass(**case_kwargs(case, world))
        values = attrs_values(task)
        values.update(template_update(task, cache_dir=JOBSYM))
        argv = task._command_args(values)
        obs["argv"] = [world.symbolise(str(w), JOBSYM) for w in argv]
    except Exception as e:  # noqa
        obs["argv"] = ["!" + type(e).__name__]
        obs["argv_err"] = str(e)[:200]
    return obs


def c25_run(case, world):
    """Run the task for real (Submitter, debug worker, native environment) with the
    argv-dumping executable and project the argv the process received."""
    tmp = Path(os.path.realpath(tempfile.mkdtemp(prefix="verif_c25run_")))
    world = world.with_outdir(tmp / "given")
    log = tmp / "argv.log"
    obs = {"argv": None, "run_err": None, "cwd_is_jobdir": None}
    dirs = set()
    for f, x in zip(case["fields"], case["vals"]):
        if f["kind"] == "outarg" and f["type"]["name"] == "generic/directory":
            dirs.add(f["tmpl"])
            if x["v"]["k"] == "path":
                dirs.add(os.path.basename(x["v"]["s"][1:]))
    os.environ.update({"VDUMP_LOG": str(log), "VDUMP_OUT": str(world.outdir), "VDUMP_DIRS": ":".join(sorted(dirs))})
    try:
        klass, err = define_cached(case["tpl"])
        if err:
            obs["run_err"] = "define: " + err
            return obs
        try:
            task = klass(**case_kwargs(case, world))
            task(cache_root=tmp / "cache", worker="debug")
        except Exception as e:  # noqa
            obs["run_err"] = f"{type(e).__name__}: {str(e)[:160]}"
        if log.exists():
            words = log.read_bytes().decode().split("\0")[:-1]
            cwd, args = words[0], words[1:]
            obs["argv"] = ["vdump"] + [world.symbolise(w, cwd) for w in args]
            p = Path(cwd)
            obs["cwd_is_jobdir"] = p.parent == Path(os.path.realpath(tmp / "cache")) and p.name.startswith("shell-")
        elif obs["run_err"]:
            obs["argv"] = ["!" + obs["run_err"].split(":")[0]]
        return obs
    finally:
        for k in ("VDUMP_LOG", "VDUMP_OUT", "VDUMP_DIRS"):
            os.environ.pop(k, None)
        shutil.rmtree(tmp, ignore_errors=True)


# --------------------------------------------------------------------------------------
# C26: output path templates
# --------------------------------------------------------------------------------------


def chars(xs):
    return "".join(map(chr, xs))


def codes(s):
    return [ord(ch) for ch in s]


def c26_class(case):
    """shell task class for a C26 case: inputs f (file), g (kind of the case), output
    argument o with the case's path template / keep_extension / type."""
    c = case["c"]
    key = (chars_template(case), c["keep"], c["otype"], c["g"]["kind"])
    if key not in _class_cache:
        if len(_class_cache) > 64:
            _class_cache.clear()
        gtype = {"file": File, "str": str, "int": int, "float": float, "list": list[int]}[c["g"]["kind"]]
        otype = {"file": File, "optfile": File | None, "multi": MultiOutputFile}[c["otype"]]
        _class_cache[key] = shell.define(
            "vdump",
            inputs={"f": shell.arg(type=File, argstr="", position=1),
                    "g": shell.arg(type=gtype, argstr="-g", position=2)},
            outputs={"o": shell.outarg(type=otype, argstr="-o", position=-1,
                                       path_template=chars_template(case), keep_extension=c["keep"])},
        )
    return _class_cache[key]


def chars_template(case):
    return case["template"] if isinstance(case["template"], str) else chars(case["template"])


def c26_kwargs(case, world):
    c = case["c"]
    g = c["g"]
    kw = {"f": str(world.indir / chars(c["fb"]))}
    if g["kind"] == "file":
        kw["g"] = str(world.indir / chars(g["s"]))
    elif g["kind"] == "str":
        kw["g"] = chars(g["s"])
    elif g["kind"] == "int":
        kw["g"] = int(chars(g["s"]))
    elif g["kind"] == "float":
        kw["g"] = float(chars(g["s"]))
    else:
        kw["g"] = [int(chars(t)) for t in g["items"]]
    if c["mode"] == "true":
        kw["o"] = True
    elif c["mode"] == "false":
        kw["o"] = False
    elif c["mode"] == "abs":
        kw["o"] = world.path(chars(c["given"]).replace("!/", "!", 1))
    elif c["mode"] == "rel":
        kw["o"] = chars(c["given"])
    return kw


def _point(v, world, jobdir):
    """observed value of the output argument -> observation point of PathTemplate."""
    def proj(x):
        s = os.fspath(x) if isinstance(x, os.PathLike) else str(x)
        jd = str(jobdir)
        if s == jd:
            return "%"
        if s.startswith(jd + "/"):
            return "%/" + s[len(jd) + 1:]
        od = str(world.outdir)
        if s.startswith(od + "/"):
            return "!/" + s[len(od) + 1:]
        return s

    pt = {"k": "skip", "p": [], "items": [], "e": ""}
    if v is None or v is False or v is attrs.NOTHING:
        pt["k"] = "none"
    elif isinstance(v, (list, tuple)):
        pt["k"] = "list"
        pt["items"] = [codes(proj(x)) for x in v]
    elif isinstance(v, (str, os.PathLike)):
        pt["k"] = "path"
        pt["p"] = codes(proj(v))
    else:
        pt["k"] = "error"
        pt["e"] = "unexpected value " + repr(v)[:80]
    return pt


def _err_point(e):
    return {"k": "error", "p": [], "items": [], "e": f"{type(e).__name__}: {str(e)[:120]}"}


SKIP = {"k": "skip", "p": [], "items": [], "e": ""}


def c26_observe(case, world, do_run=True):
    """Observe how the output argument resolves: Job.inputs twice (independent task
    objects and cache roots), then -- if the spec says the command can be run -- a real
    run of the file-creating argv dumper: the argument the process received and the
    collected output."""
    tmp = Path(os.path.realpath(tempfile.mkdtemp(prefix="verif_c26_")))
    world = world.with_outdir(tmp / "given")
    obs = {"i1": SKIP, "i2": SKIP, "av": SKIP, "ou": SKIP}
    try:
        try:
            klass = c26_class(case)
        except Exception as e:  # noqa
            obs["i1"] = obs["i2"] = _err_point(e)
            return obs
        for key, root in (("i1", tmp / "r1"), ("i2", tmp / "r2")):
            try:
                task = klass(**c26_kwargs(case, world))
                with Submitter(cache_root=root, worker="debug") as sub:
                    job = Job(task, submitter=sub, name="j")
                    job.cache_dir.mkdir(parents=True, exist_ok=True)
                    obs[key] = _point(job.inputs["o"], world, os.path.realpath(job.cache_dir))
            except Exception as e:  # noqa
                obs[key] = _err_point(e)
        if do_run and case["run"]:
            log = tmp / "argv.log"
            os.environ.update({"VDUMP_LOG": str(log), "VDUMP_OUT": str(world.outdir), "VDUMP_DIRS": "",
                               "VDUMP_TOUCH": chars(case["c"]["given"]) if case["c"]["mode"] == "rel" else ""})
            try:
                outs, err = None, None
                try:
                    outs = klass(**c26_kwargs(case, world))(cache_root=tmp / "r3", worker="debug")
                except Exception as e:  # noqa
                    err = e
                if log.exists():
                    words = log.read_bytes().decode().split("\0")[:-1]
                    cwd, args = words[0], words[1:]
                    if "-o" in args:  # the output argument is last; a multi-output repeats the flag per element
                        vals = [w for w in args[args.index("-o") + 1:] if w != "-o"]
                        obs["av"] = _point(vals if case["c"]["otype"] == "multi" else vals[0] if len(vals) == 1 else vals,
                                           world, cwd)
                    else:
                        obs["av"] = _point(None, world, cwd)
                    if err is None:
                        o = outs.o
                        if isinstance(o, (list, tuple)):
                            o = [os.fspath(x) for x in o]
                        obs["ou"] = _point(o, world, cwd)
                    else:
                        obs["ou"] = _err_point(err)
                else:
                    obs["av"] = obs["ou"] = _err_point(err or RuntimeError("command not run"))
            finally:
                for k in ("VDUMP_LOG", "VDUMP_OUT", "VDUMP_DIRS", "VDUMP_TOUCH"):
                    os.environ.pop(k, None)
        return obs
    finally:
        shutil.rmtree(tmp, ignore_errors=True)
