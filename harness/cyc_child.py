"""Child interpreter: build one (possibly cyclic) workflow from source text and submit it (C18)."""
import importlib.util
import json
import os
import sys
from pathlib import Path

if __name__ == "__main__":
    base = sys.argv[1]
    case = json.load(open(os.path.join(base, "case.json")))
    from harness.props.C18 import wf_src

    nodes, edges = case["nodes"], [tuple(e) for e in case["edges"]]
    src = wf_src(nodes, edges, case["typed"])
    p = Path(base) / f"cw_{abs(hash(src)) % 10**8}.py"
    p.write_text(src)
    spec = importlib.util.spec_from_file_location(p.stem, p)
    mod = importlib.util.module_from_spec(spec)
    sys.modules[p.stem] = mod
    sys.path.insert(0, base)
    try:
        spec.loader.exec_module(mod)
        kw = {"n_procs": 2} if case["worker"] == "cf" else {}
        o = mod.CW(x=1)(cache_root=os.path.join(base, "cache"), worker=case["worker"], **kw)
        res = {"status": "returned", "outputs": {n: getattr(o, "o_" + n) for n in nodes}}
    except BaseException as e:  # noqa
        res = {"status": "raised", "error": f"{type(e).__name__}: {str(e)[:200]}"}
    json.dump(res, open(os.path.join(base, "out.json"), "w"), default=str)
