"""Shared driver code for the TypeCoerce properties (C20, C21).

The specification (specs/TypeCoerce*.tla) owns the type grammar, the value grammar,
`Conforms`, `Inhabitants`, `StrSeqConfusion`, the C21 "set aside" predicates and the
as-built references.  This module only

  * materialises spec terms as Python types / values (`to_type`, `to_value`) and as Python
    source text (`type_src`, `value_src`) for generated task modules,
  * drives the real code (TypeParser, generated task fields at construction and at
    attribute assignment, task runs, two-node workflows),
  * projects what it saw back into the spec's tagged-record form (`ser`), and
  * hands observations to TLC (`validate`, module TypeCoerce_Check) and returns the
    verdict lines TLC printed.

Nothing here decides conformance.
"""
from __future__ import annotations

import importlib.util
import json
import os
import shutil
import sys
import tempfile
import typing as ty
from concurrent.futures import ThreadPoolExecutor
from pathlib import Path

from harness import core

ATOMS_ALL = ["int", "float", "bool", "str", "bytes", "path", "file", "dir", "none"]
CORE = ["int", "float", "str", "file"]
CORE2 = ["int", "str"]

NONE_V = {"k": "none", "c": [], "items": []}

# --------------------------------------------------------------------------------------
# the harness directory: a regular file "f" and a directory "d"; relative names resolve
# against it (the process chdir()s into it), so spec strings stay position independent
# --------------------------------------------------------------------------------------
_WORK = None


def workdir(ctx=None):
    """Create (once) the directory holding the file `f` and the directory `d`; chdir into it."""
    global _WORK
    if _WORK is None:
        base = ctx.scratch if ctx is not None else Path(tempfile.mkdtemp(prefix="verif_types_"))
        w = Path(base) / "fs"
        w.mkdir(parents=True, exist_ok=True)
        (w / "f").write_text("content of f\n")
        (w / "d").mkdir(exist_ok=True)
        (w / "d" / "inner.txt").write_text("x\n")
        _WORK = str(w.resolve())
        os.chdir(_WORK)
    return _WORK


def _rel(s: str) -> str:
    """Names inside the harness directory are reported relative to it (position independent)."""
    if _WORK and _WORK in s:
        return s.replace(_WORK + os.sep, "")
    return s


def _chars(s):
    return "".join(chr(c) for c in s)


# --------------------------------------------------------------------------------------
# spec term -> Python
# --------------------------------------------------------------------------------------
def fresh_typing():
    """typing caches subscriptions by EQUAL arguments and Union[a, b] == Union[b, a]: without
    this, `MultiInputObj[Union[str, File]]` built after `MultiInputObj[Union[File, str]]` is the
    earlier object (members in the other order).  Member order matters to the code under test,
    so the caches are dropped before a type with a union below a cached constructor is built."""
    for f in getattr(ty, "_cleanups", ()):
        f()


def _nested_union(t, below=False):
    if t["k"] == "union" and below:
        return True
    return any(_nested_union(a, below or t["k"] in ("union", "multi")) for a in t["args"])


def to_type(t):
    if _nested_union(t):
        fresh_typing()
        tp = _to_type(t)
        if py_type_src(tp) != flat_src(t):
            raise core.MachineryError(f"materialised type {tp!r} is not the spec type {type_src(t)}")
        return tp
    return _to_type(t)


def _to_type(t):
    from fileformats.generic import Directory, File
    from pydra.utils.typing import MultiInputObj

    k, args = t["k"], t["args"]
    if k == "int":
        return int
    if k == "float":
        return float
    if k == "bool":
        return bool
    if k == "str":
        return str
    if k == "bytes":
        return bytes
    if k == "path":
        return Path
    if k == "file":
        return File
    if k == "dir":
        return Directory
    if k == "none":
        return type(None)
    a = [_to_type(x) for x in args]
    if k == "union":
        return ty.Union[tuple(a)]
    if k == "list":
        return list[a[0]]
    if k == "tuplev":
        return tuple[a[0], ...]
    if k == "set":
        return set[a[0]]
    if k == "multi":
        return MultiInputObj[a[0]]
    if k == "dict":
        return dict[str, a[0]]
    if k == "tuple":
        return tuple[tuple(a)]
    raise core.MachineryError(f"unknown type kind {k}")


def type_src(t):
    k, args = t["k"], t["args"]
    simple = {"int": "int", "float": "float", "bool": "bool", "str": "str", "bytes": "bytes",
              "path": "Path", "file": "File", "dir": "Directory", "none": "type(None)"}
    if k in simple:
        return simple[k]
    a = [type_src(x) for x in args]
    if k == "union":
        return "ty.Union[" + ", ".join(a) + "]"
    if k == "list":
        return f"list[{a[0]}]"
    if k == "tuplev":
        return f"tuple[{a[0]}, ...]"
    if k == "set":
        return f"set[{a[0]}]"
    if k == "multi":
        return f"MultiInputObj[{a[0]}]"
    if k == "dict":
        return f"dict[str, {a[0]}]"
    if k == "tuple":
        return "tuple[" + ", ".join(a) + "]"
    raise core.MachineryError(f"unknown type kind {k}")


def flat_src(t):
    """type_src with nested unions flattened (what Python makes of Union[Union[a, b], c])."""
    def flat(t):
        args = [flat(a) for a in t["args"]]
        if t["k"] == "union":
            out = []
            for a in args:
                for m in (a["args"] if a["k"] == "union" else [a]):
                    if m not in out:
                        out.append(m)
            args = out
        return {"k": t["k"], "args": args}
    return type_src(flat(t))


def py_type_src(tp):
    """The same rendering computed from a Python type object: guards the materialisation
    (member order of unions in particular)."""
    from fileformats.generic import Directory, File
    from pydra.utils.typing import MultiInputObj

    simple = {int: "int", float: "float", bool: "bool", str: "str", bytes: "bytes", Path: "Path",
              File: "File", Directory: "Directory", type(None): "type(None)"}
    if tp in simple:
        return simple[tp]
    o, a = ty.get_origin(tp), ty.get_args(tp)
    if o is ty.Union:
        return "ty.Union[" + ", ".join(py_type_src(x) for x in a) + "]"
    if o is MultiInputObj:
        return f"MultiInputObj[{py_type_src(a[0])}]"
    if o is list:
        return f"list[{py_type_src(a[0])}]"
    if o is set:
        return f"set[{py_type_src(a[0])}]"
    if o is dict:
        return f"dict[{py_type_src(a[0])}, {py_type_src(a[1])}]"
    if o is tuple:
        if len(a) == 2 and a[1] is Ellipsis:
            return f"tuple[{py_type_src(a[0])}, ...]"
        return "tuple[" + ", ".join(py_type_src(x) for x in a) + "]"
    return f"?{tp!r}"


def to_value(v):
    from fileformats.generic import Directory, File

    k, c, items = v["k"], v["c"], v["items"]
    if k == "int":
        return int(c[0])
    if k == "bool":
        return bool(c[0])
    if k == "float":
        return c[0] / 10.0
    if k == "str":
        return _chars(c)
    if k == "bytes":
        return bytes(c)
    if k == "path":
        return Path(_chars(c))
    if k == "file":
        return File(_chars(c))
    if k == "dir":
        return Directory(_chars(c))
    if k == "none":
        return None
    xs = [to_value(x) for x in items]
    if k == "list":
        return xs
    if k == "tuple":
        return tuple(xs)
    if k == "set":
        return set(xs)
    if k == "dict":
        return {kk: vv for kk, vv in xs}
    if k == "pair":
        return (xs[0], xs[1])
    raise core.MachineryError(f"unknown value kind {k}")


def value_src(v, base=None):
    """Python source text of a value term (names: Path, File, Directory).  With `base`, file
    system objects are named by absolute path (task bodies run in their own directory)."""
    k, c, items = v["k"], v["c"], v["items"]
    if k in ("int", "bool", "float", "str", "bytes", "none"):
        return repr(to_value(v))
    if k == "path":
        return f"Path({_chars(c)!r})"
    if k in ("file", "dir"):
        name = os.path.join(base, _chars(c)) if base else _chars(c)
        return f"{'File' if k == 'file' else 'Directory'}({name!r})"
    xs = [value_src(x, base) for x in items]
    if k == "list":
        return "[" + ", ".join(xs) + "]"
    if k == "tuple":
        return "(" + ", ".join(xs) + ("," if len(xs) == 1 else "") + ")"
    if k == "set":
        return "{" + ", ".join(xs) + "}" if xs else "set()"
    if k == "dict":
        return "{" + ", ".join(xs) + "}"
    if k == "pair":
        return f"{xs[0]}: {xs[1]}"
    raise core.MachineryError(f"unknown value kind {k}")


# --------------------------------------------------------------------------------------
# Python -> spec term (projection of an observed value); exact classes only, anything
# else is "other" (conforms to nothing in the spec)
# --------------------------------------------------------------------------------------
def ser(x):
    from fileformats.generic import Directory, File

    def rec(k, c=(), items=()):
        return {"k": k, "c": list(c), "items": list(items)}

    tp = type(x)
    if tp is bool:
        return rec("bool", [1 if x else 0])
    if tp is int:
        if 0 <= x < 2 ** 31:
            return rec("int", [x])
        return rec("other")
    if tp is float:
        t = x * 10
        if t == int(t) and 0 <= t < 2 ** 31:
            return rec("float", [int(t)])
        return rec("other")
    if tp is str:
        return rec("str", [ord(ch) for ch in _rel(x)])
    if tp is bytes:
        return rec("bytes", list(x))
    if x is None:
        return rec("none")
    if isinstance(x, Path):
        return rec("path", [ord(ch) for ch in _rel(str(x))])
    if tp is File:
        return rec("file", [ord(ch) for ch in _rel(str(x.fspath))])
    if tp is Directory:
        return rec("dir", [ord(ch) for ch in _rel(str(x.fspath))])
    if isinstance(x, list):      # list and its subclasses (MultiInputObj, StateArray)
        return rec("list", items=[ser(i) for i in x])
    if tp is tuple:
        return rec("tuple", items=[ser(i) for i in x])
    if tp is set:
        return rec("set", items=[ser(i) for i in _set_items(x)])
    if tp is dict:
        return rec("dict", items=[rec("pair", items=[ser(k), ser(v)]) for k, v in x.items()])
    return rec("other", [ord(ch) for ch in tp.__name__[:24]])


def mixed_set(v):
    """The value term holds a set whose elements are of different kinds.  pydra cannot hash such a
    set (sorted() in bytes_repr_set, a cache-identity matter: properties C07/C08), so a task
    holding one fails when run for a reason that is not the field's type."""
    return (v["k"] == "set" and len({x["k"] for x in v["items"]}) > 1) or any(mixed_set(x) for x in v["items"])


VIOLATION_FILE_CAP = 200


def capped(ctx):
    """True once the run has written VIOLATION_FILE_CAP replay files: further violations of a badly
    broken tree are counted (the verdict stays VIOLATED), not written one file each."""
    if len(ctx.violations) >= VIOLATION_FILE_CAP:
        ctx.extra["violations_beyond_file_cap"] = ctx.extra.get("violations_beyond_file_cap", 0) + 1
        return True
    return False


def show(v):
    """Readable rendering of a value term for samples / messages."""
    try:
        return value_src(v)
    except Exception:
        return json.dumps(v)


# --------------------------------------------------------------------------------------
# TLC: case generation
# --------------------------------------------------------------------------------------
def _jvm_env(ctx, extra=None):
    """Short TLC runs (quick tier) spend most of their CPU in the C2 compiler: stop at C1."""
    env = dict(extra or {})
    if not ctx.thorough:
        env["JAVA_TOOL_OPTIONS"] = "-XX:TieredStopAtLevel=1"
    return env


def _set(xs):
    return "{" + ", ".join(f'"{x}"' for x in xs) + "}"


def gen_cfg(ctx, name, mode, pick, shard=0, nshards=1, atoms=ATOMS_ALL, c=CORE, c2=CORE2,
            invariants=("Emit", "Theorems")):
    txt = f"""INIT Init
NEXT Next
CONSTANTS
  Mode = "{mode}"
  Pick = "{pick}"
  A = {_set(atoms)}
  C = {_set(c)}
  C2 = {_set(c2)}
  Shard = {shard}
  NShards = {nshards}
""" + "".join(f"INVARIANT {i}\n" for i in invariants) + "CHECK_DEADLOCK FALSE\n"
    p = ctx.scratch / f"{name}.cfg"
    p.write_text(txt)
    return p


def _run_shards(fn, shards, par=12):
    if len(shards) == 1:
        return [fn(shards[0])]
    with ThreadPoolExecutor(max_workers=min(len(shards), par)) as ex:
        return list(ex.map(fn, shards))


def generate(ctx, mode, pick, shards=(0,), nshards=1, **kw):
    """Run TypeCoerce_Gen for the given shards (parallel TLC processes); return printed cases."""
    def one(sh):
        cfg = gen_cfg(ctx, f"gen_{mode}_{pick}_{sh}_{nshards}", mode, pick, sh, nshards, **kw)
        return ctx.tlc("TypeCoerce_Gen", cfg=cfg, workers=1, timeout=3000, env=_jvm_env(ctx))

    cases = []
    for r in _run_shards(one, list(shards)):
        cs = r.printed()
        if len(cs) != r.distinct:
            raise core.MachineryError(f"generator printed {len(cs)} cases for {r.distinct} states")
        cases.extend(cs)
    return cases


def generate_plan(ctx, mode, plan, **kw):
    """Like `generate` for a list of (pick, shard, nshards) jobs, all TLC processes in parallel."""
    def one(job):
        pick, sh, n = job
        cfg = gen_cfg(ctx, f"gen_{mode}_{pick}_{sh}_{n}", mode, pick, sh, n, **kw)
        return ctx.tlc("TypeCoerce_Gen", cfg=cfg, workers=1, timeout=3000, env=_jvm_env(ctx))

    cases = []
    for r in _run_shards(one, list(plan), par=16):
        cs = r.printed()
        if len(cs) != r.distinct:
            raise core.MachineryError(f"generator printed {len(cs)} cases for {r.distinct} states")
        cases.extend(cs)
    return cases


def generate_triples(ctx, pairs, nshards=1, atoms=ATOMS_ALL, c=CORE, c2=CORE2):
    """TypeCoerce_Triples over the statically accepted (s, t) index pairs."""
    pf = ctx.scratch / "pairs.ndjson"
    with open(pf, "w") as f:
        for s, t in pairs:
            f.write(json.dumps({"s": s, "t": t}) + "\n")

    def one(sh):
        cfg = ctx.scratch / f"triples_{sh}_{nshards}.cfg"
        cfg.write_text(f"""INIT Init
NEXT Next
CONSTANTS
  A = {_set(atoms)}
  C = {_set(c)}
  C2 = {_set(c2)}
  Shard = {sh}
  NShards = {nshards}
INVARIANT Emit
INVARIANT Theorems
CHECK_DEADLOCK FALSE
""")
        return ctx.tlc("TypeCoerce_Triples", cfg=cfg, workers=1, timeout=3000, env=_jvm_env(ctx, {"PAIRS_FILE": str(pf)}))

    out = []
    for r in _run_shards(one, list(range(nshards))):
        cs = r.printed()
        if len(cs) != r.distinct:
            raise core.MachineryError(f"triple generator printed {len(cs)} cases for {r.distinct} states")
        out.extend(cs)
    return out


# --------------------------------------------------------------------------------------
# TLC: validation of observations (M4)
# --------------------------------------------------------------------------------------
def validate(ctx, observations, nshards=1, tag="obs"):
    """Send observations through TypeCoerce_Check; returns {id: verdict}."""
    if not observations:
        return {}
    nshards = max(1, min(nshards, len(observations)))
    files = []
    for sh in range(nshards):
        p = ctx.scratch / f"{tag}_{sh}.ndjson"
        with open(p, "w") as f:
            for o in observations[sh::nshards]:
                f.write(json.dumps(o, separators=(",", ":")) + "\n")
        files.append(p)
    cfg = ctx.scratch / "check.cfg"
    cfg.write_text("INIT Init\nNEXT Next\nINVARIANT Emit\nCHECK_DEADLOCK FALSE\n")

    def one(p):
        return ctx.tlc("TypeCoerce_Check", cfg=cfg, workers=1, timeout=3000, env=_jvm_env(ctx, {"TRACE_FILE": str(p)}))

    verdicts = {}
    for r in _run_shards(one, files):
        for v in r.printed():
            verdicts[v["id"]] = v
    missing = [o["id"] for o in observations if o["id"] not in verdicts]
    if missing:
        raise core.MachineryError(f"TLC returned no verdict for {len(missing)} observation(s), e.g. id {missing[0]}")
    return verdicts


# --------------------------------------------------------------------------------------
# generated task modules (distinct source text, written to a file and imported)
# --------------------------------------------------------------------------------------
HEADER = """import typing as ty
from pathlib import Path
from fileformats.generic import File, Directory
from pydra.compose import python, workflow
from pydra.utils.typing import MultiInputObj


def _fresh():
    # typing caches subscriptions by equal arguments and Union[a, b] == Union[b, a]
    for f in getattr(ty, "_cleanups", ()):
        f()

"""

_MODS = {}


def load_module(ctx, name, source):
    d = ctx.scratch / "genmods"
    d.mkdir(exist_ok=True)
    p = d / f"{name}.py"
    p.write_text(source)
    spec = importlib.util.spec_from_file_location(name, p)
    mod = importlib.util.module_from_spec(spec)
    sys.modules[name] = mod
    spec.loader.exec_module(mod)
    _MODS[name] = mod
    return mod


def field_module(ctx, types, name="verif_types_fields"):
    """One python task per type: `F<i>(x: <type>) -> ty.Any` returning x."""
    src = [HEADER]
    for i, t in enumerate(types):
        src.append(f"_fresh()\n\n@python.define\ndef F{i}(x: {type_src(t)}) -> ty.Any:\n    return x\n\n")
    mod = load_module(ctx, name, "".join(src))
    import attrs

    for i, t in enumerate(types):
        got = py_type_src(attrs.fields_dict(getattr(mod, f"F{i}"))["x"].type)
        if got != flat_src(t):
            raise core.MachineryError(f"generated field F{i} has type {got}, the spec type is {flat_src(t)}")
    return mod


# --------------------------------------------------------------------------------------
# driving the real code
# --------------------------------------------------------------------------------------
def _attempt(fn):
    """-> (accepted, result, error kind)."""
    try:
        return True, fn(), ""
    except TypeError:
        return False, None, "TypeError"
    except Exception as e:  # rejected, but not with the documented TypeError
        return False, None, type(e).__name__


def coerce_sites(t_term, v_term, klass=None):
    """Offer the value to the bare TypeParser and (if klass) to the generated task field at
    construction and at attribute assignment; each accepted result is offered again through
    the same route.  Returns one raw observation per site."""
    from pydra.utils.typing import TypeParser

    tp = to_type(t_term)
    sites = []

    def parser():
        return TypeParser(tp)

    def via_parser(x):
        return parser()(x)

    def via_init(x):
        return klass(x=x).x

    def via_setattr(x):
        task = klass()
        task.x = x
        return task.x

    routes = [("parser", via_parser)]
    if klass is not None:
        routes += [("field_init", via_init), ("field_setattr", via_setattr)]
    for site, route in routes:
        acc, r, err = _attempt(lambda: route(to_value(v_term)))
        o = {"site": site, "acc": acc, "err": err, "r": NONE_V, "r2acc": False, "r2": NONE_V, "err2": "", "mw": []}
        if acc:
            o["r"] = ser(r)
            acc2, r2, err2 = _attempt(lambda: route(r))
            o["r2acc"], o["err2"] = acc2, err2
            if acc2:
                o["r2"] = ser(r2)
            # member-wise observations are only needed to compute the as-built prediction of a
            # second coercion that did not give the stored value back
            if not acc2 or o["r2"] != o["r"]:
                o["mw"] = memberwise(t_term, r, site)
        sites.append(o)
    return sites


def _set_items(x):
    """Elements of a set in the order `ser` lists them."""
    return sorted(x, key=lambda i: json.dumps(ser(i), sort_keys=True))


def memberwise(t_term, r_obj, site):
    """Member-wise observations along the structure of the type for a stored value r (the real
    object, which conforms): at every union position, what each member alone does with the
    component.  Paths: container item i / union member i appended (1-based), as
    TypeCoerce!ReAsBuilt; items are taken in the order `ser` lists them."""
    from pydra.utils.typing import TypeParser

    sac = site != "parser"
    out = []

    def walk(t, c, path):
        k = t["k"]
        if k == "union":
            for i, m in enumerate(t["args"], 1):
                e = {"p": path + [i], "acc": False, "abort": False, "r": NONE_V}
                try:
                    res = TypeParser(to_type(m), superclass_auto_cast=sac)(c)
                    e["acc"], e["r"] = True, ser(res)
                except TypeError:
                    pass
                except Exception:
                    e["abort"] = True
                out.append(e)
        elif k in ("list", "multi", "tuplev", "set") and isinstance(c, (list, tuple, set)):
            items = _set_items(c) if isinstance(c, set) else list(c)
            for i, x in enumerate(items, 1):
                walk(t["args"][0], x, path + [i])
        elif k == "tuple" and isinstance(c, tuple):
            for i, x in enumerate(c, 1):
                if i <= len(t["args"]):
                    walk(t["args"][i - 1], x, path + [i])
        elif k == "dict" and isinstance(c, dict):
            for i, x in enumerate(c.values(), 1):
                walk(t["args"][0], x, path + [i])

    walk(t_term, r_obj, [])
    return out


def run_field_task(klass, v_term):
    """Construct the generated task with the value and run it (debug worker): -> ran, seen."""
    tmp = tempfile.mkdtemp(prefix="verif_types_run_")
    try:
        task = klass(x=to_value(v_term))
        stored = ser(task.x)
        try:
            outs = task(cache_root=os.path.join(tmp, "cache"), worker="debug")
            return {"stored": stored, "ran": True, "seen": ser(outs.out), "err": ""}
        except Exception as e:  # noqa
            return {"stored": stored, "ran": False, "seen": NONE_V, "err": f"{type(e).__name__}: {str(e)[:200]}"}
    finally:
        shutil.rmtree(tmp, ignore_errors=True)


def static_ok(s_term, t_term):
    """The build-time decision for connecting an output of type S to an input of type T,
    without the permissive super-to-sub-class casting."""
    from pydra.utils.typing import TypeParser

    try:
        TypeParser(to_type(t_term)).check_type(to_type(s_term))
        return True, ""
    except TypeError:
        return False, "TypeError"
    except Exception as e:  # noqa
        return False, type(e).__name__


def runtime_ok(t_term, v_term):
    from pydra.utils.typing import TypeParser

    acc, r, err = _attempt(lambda: TypeParser(to_type(t_term))(to_value(v_term)))
    return acc, (ser(r) if acc else NONE_V), err


def workflow_module(ctx, triples, name, base=None):
    """Two-node workflows `Up() -> S` (returns the literal v) feeding `Down(x: T)`."""
    src = [HEADER]
    for i, (s, t, v) in enumerate(triples):
        src.append(
            f"_fresh()\n\n@python.define\ndef Up{i}() -> {type_src(s)}:\n    return {value_src(v, base)}\n\n"
            f"_fresh()\n\n@python.define\ndef Down{i}(x: {type_src(t)}) -> ty.Any:\n    return x\n\n"
            f"@workflow.define\ndef Wf{i}() -> ty.Any:\n"
            f"    up = workflow.add(Up{i}(), name='up')\n"
            f"    down = workflow.add(Down{i}(x=up.out), name='down')\n"
            f"    return down.out\n\n")
    return load_module(ctx, name, "".join(src))


def run_workflow(mod, i):
    """-> built (connection accepted at construction), ran, seen/err."""
    from pydra.engine.workflow import Workflow

    tmp = tempfile.mkdtemp(prefix="verif_types_wf_")
    try:
        wf = getattr(mod, f"Wf{i}")()
        try:
            Workflow.clear_cache()
        except Exception:
            pass
        try:
            Workflow.construct(wf)
        except Exception as e:  # noqa
            return {"built": False, "ran": False, "seen": NONE_V, "err": f"{type(e).__name__}: {str(e)[:160]}"}
        try:
            outs = wf(cache_root=os.path.join(tmp, "cache"), worker="debug")
            return {"built": True, "ran": True, "seen": ser(outs.out), "err": ""}
        except Exception as e:  # noqa
            return {"built": True, "ran": False, "seen": NONE_V, "err": f"{type(e).__name__}: {str(e)[:160]}"}
    finally:
        shutil.rmtree(tmp, ignore_errors=True)
