"""Shared binding code for the Identity properties (C06, C07, C08).

Division of labour (DESIGN 4.5 / 6): the *keys* (what a value / task is) are built by
TLA+ in specs/Identity.tla from a serialised term; this module only
  * materialises a term as a real Python value (`build`), in a chosen insertion order,
    with or without object sharing,
  * serialises a real value back into a term in the order Python iterates it (`term_of`),
  * records what the real pydra computes (digests, checksums, cache directories, cache
    hits) as ndjson events, in this process or in separate interpreter sessions with
    their own PYTHONHASHSEED (`run_session`),
  * hands the events to TLC (specs/Identity_Trace.tla) and turns TLC's reports into
    verdicts (`validate`, `judge_reports`).
No expected value is computed in Python.
"""
from __future__ import annotations

import json
import os
import pathlib
import sys
import typing as ty
from pathlib import Path

import attrs

from harness import core

# --------------------------------------------------------------------------------------
# the pool of named non-builtin atoms (types, functions, classes); TLC refers to them by name
# --------------------------------------------------------------------------------------


def f_add1(x):
    return x + 1


def f_add2(x):
    return x + 2


def f_mul2(x):
    return x * 2


def f_neg(x):
    return -x


def f_kwd(x, y=3):
    return x + y


def f_two(x, y):
    return x, y


def fac_add(k):
    """closure factory: two closures of one factory share the source text"""

    def add_k(x):
        return x + k

    return add_k


@attrs.define
class P1:
    a: ty.Any = None
    b: ty.Any = None


@attrs.define
class P2:
    a: ty.Any = None
    b: ty.Any = None


class Q1:
    def __init__(self, a=None, b=None):
        self.a = a
        self.b = b


class Q2:
    def __init__(self, a=None, b=None):
        self.a = a
        self.b = b


class S1:
    __slots__ = ("a", "b")

    def __init__(self, a=None, b=None):
        self.a = a
        self.b = b


class S2:
    __slots__ = ("a", "b")

    def __init__(self, a=None, b=None):
        self.a = a
        self.b = b


FUNCS = {f.__name__: f for f in (f_add1, f_add2, f_mul2, f_neg, f_kwd, f_two)}
CLASSES = {c.__name__: c for c in (P1, P2, Q1, Q2, S1, S2)}


def _types():
    from fileformats.generic import File

    plain = {"int": int, "float": float, "str": str, "bool": bool, "bytes": bytes, "list": list, "dict": dict,
             "tuple": tuple, "Path": pathlib.Path, "P1": P1, "Q1": Q1, "File": File}
    pool = {n: (tp, n, "none") for n, tp in plain.items()}
    pool.update({
        "list[int]": (list[int], "list", "builtin"), "list[str]": (list[str], "list", "builtin"),
        "dict[str,int]": (dict[str, int], "dict", "builtin"), "dict[str,str]": (dict[str, str], "dict", "builtin"),
        "tuple[int,str]": (tuple[int, str], "tuple", "builtin"), "tuple[int,...]": (tuple[int, ...], "tuple", "builtin"),
        "List[float]": (ty.List[float], "list", "typing"), "Tuple[str,int]": (ty.Tuple[str, int], "tuple", "typing"),
        "Dict[int,str]": (ty.Dict[int, str], "dict", "typing"),
        "int|str": (int | str, "union", "union"), "int|None": (int | None, "union", "union"),
        "Union[float,str]": (ty.Union[float, str], "union", "typing"),
    })
    return pool


_TYPES = None


def types_pool():
    global _TYPES
    if _TYPES is None:
        _TYPES = _types()
    return _TYPES


# --------------------------------------------------------------------------------------
# term -> value
# --------------------------------------------------------------------------------------
def _perm(seq, order):
    """insertion order number `order` of a sequence (0 = as given, 1 = reversed, 2.. = rotations)"""
    seq = list(seq)
    if order == 0 or len(seq) < 2:
        return seq
    if order == 1:
        return seq[::-1]
    r = (order - 1) % len(seq)
    return seq[r:] + seq[:r]


CFUNC_CLS = {"math.sin": "builtin", "math.cos": "builtin", "len": "builtin", "abs": "builtin", "np.add": "ufunc",
             "np.multiply": "ufunc", "str.upper": "method_descriptor", "str.lower": "method_descriptor",
             "itemgetter(0)": "itemgetter", "itemgetter(1)": "itemgetter",
             "Decimal('1.5')": "Decimal", "Decimal('2.5')": "Decimal", "array('i', [1])": "array", "array('i', [2])": "array",
             "bytearray(b'a')": "bytearray", "bytearray(b'b')": "bytearray", "deque([1])": "deque", "deque([2])": "deque"}
_CFUNCS = {}


def cfuncs():
    """callables without Python-level state (Identity_Gen!CFuncs)"""
    if not _CFUNCS:
        import math
        import operator
        import numpy as np
        _CFUNCS.update({"math.sin": math.sin, "math.cos": math.cos, "len": len, "abs": abs, "np.add": np.add,
                        "np.multiply": np.multiply, "str.upper": str.upper, "str.lower": str.lower,
                        "itemgetter(0)": operator.itemgetter(0), "itemgetter(1)": operator.itemgetter(1)})
        from array import array
        from collections import deque
        from decimal import Decimal
        for src in CFUNC_CLS:
            if src not in _CFUNCS:
                _CFUNCS[src] = eval(src)  # noqa: S307 (fixed table of literals)
    return _CFUNCS


def build(t, order=0, memo=None, files=None):
    """Materialise a term.  memo (dict) switches object sharing on: equal sub-terms become the
    *same* object.  files: directory in which "file" terms are created."""
    if memo is not None:
        key = json.dumps(t, sort_keys=True)
        if key in memo:
            return memo[key]
    v = _build(t, order, memo, files)
    if memo is not None:
        memo[key] = v
    return v


def _build(t, order, memo, files):
    import numpy as np

    k = t["k"]
    if k == "none":
        return None
    if k == "ellipsis":
        return Ellipsis
    if k == "bool":
        return t["v"] == "True"
    if k == "int":
        return int(t["v"])
    if k == "float":
        return float(t["v"])
    if k == "complex":
        return complex(t["v"])
    if k == "str":
        return t["v"]
    if k == "bytes":
        return bytes.fromhex(t["v"])
    if k in ("list", "tuple"):
        xs = [build(x, order, memo, files) for x in t["v"]]
        return xs if k == "list" else tuple(xs)
    if k in ("set", "frozenset"):
        xs = [build(x, order, memo, files) for x in _perm(t["v"], order)]
        if k == "set":
            s = set()
            for x in xs:
                s.add(x)
            return s
        return frozenset(xs)
    if k == "dict":
        d = {}
        for kt, vt in _perm(t["v"], order):
            d[build(kt, order, memo, files)] = build(vt, order, memo, files)
        return d
    if k == "ndarray":
        dt = np.dtype(t["dtype"])
        conv = (lambda s: s == "True") if dt == np.bool_ else (float if dt.kind == "f" else int)
        arr = np.array([conv(s) for s in t["v"]], dtype=dt).reshape(tuple(t["shape"]))
        if order and arr.ndim >= 2:
            # "other insertion orders" for arrays = another memory layout of the same logical content
            arr = np.asfortranarray(arr) if order % 2 else np.ascontiguousarray(arr.T).T
        return arr
    if k == "path":
        return getattr(pathlib, t["cls"])(t["v"])
    if k == "type":
        return types_pool()[t["v"]][0]
    if k == "func":
        if t["cells"]:
            (name, cell), = t["cells"]
            assert t["v"] == "fac_add" and name == "k"
            return fac_add(build(cell, order, memo, files))
        return FUNCS[t["v"]]
    if k == "cfunc":
        return cfuncs()[t["v"]]
    if k == "partial":
        import functools
        return functools.partial(build(t["fn"], order, memo, files), *[build(x, order, memo, files) for x in t["v"]])
    if k == "obj":
        return CLASSES[t["cls"]](**{n: build(x, order, memo, files) for n, x in t["v"]})
    if k == "file":
        from fileformats.generic import File

        p = Path(files) / t["name"]
        data = bytes.fromhex(t["content"])
        if not p.exists() or p.read_bytes() != data:
            p.write_bytes(data)
        return File(p)
    raise core.MachineryError(f"cannot build term kind {k}")


# --------------------------------------------------------------------------------------
# value -> term (in the order Python iterates the real object)
# --------------------------------------------------------------------------------------
def term_of(v):
    import numpy as np

    if v is None:
        return {"k": "none", "v": "None"}
    if v is Ellipsis:
        return {"k": "ellipsis", "v": "Ellipsis"}
    if isinstance(v, bool):
        return {"k": "bool", "v": str(v)}
    if isinstance(v, int):
        return {"k": "int", "v": str(v)}
    if isinstance(v, float):
        return {"k": "float", "v": repr(v)}
    if isinstance(v, complex):
        return {"k": "complex", "v": repr(v)}
    if isinstance(v, str):
        return {"k": "str", "v": v}
    if isinstance(v, bytes):
        return {"k": "bytes", "v": v.hex()}
    if isinstance(v, np.ndarray):
        if v.dtype.names:     # structured element type: spelled "i4,f4"; every field holds the (broadcast) literal
            return {"k": "ndarray", "cls": f"{type(v).__module__}{type(v).__name__}",
                    "dtype": ",".join(v.dtype[n].str.lstrip("<|=>") for n in v.dtype.names),
                    "shape": [int(n) for n in v.shape], "size": int(v.size),
                    "v": [repr(int(x[0])) for x in v.ravel(order="C").tolist()], "raw": v.tobytes(order="C").hex()}
        return {"k": "ndarray", "cls": f"{type(v).__module__}{type(v).__name__}", "dtype": str(v.dtype),
                "shape": [int(n) for n in v.shape], "size": int(v.size),
                "v": [repr(x) for x in v.ravel(order="C").tolist()], "raw": v.tobytes(order="C").hex()}
    if isinstance(v, (list, tuple)) and type(v) in (list, tuple):
        return {"k": type(v).__name__, "v": [term_of(x) for x in v]}
    if type(v) in (set, frozenset):
        return {"k": type(v).__name__, "v": [term_of(x) for x in v]}
    if type(v) is dict:
        return {"k": "dict", "v": [[term_of(a), term_of(b)] for a, b in v.items()]}
    if isinstance(v, pathlib.PurePath):
        return {"k": "path", "cls": type(v).__name__, "v": str(v)}
    for name, (tp, origin, alias) in types_pool().items():
        if v is tp or (not isinstance(v, type) and type(tp) is type(v) and v == tp):
            return {"k": "type", "v": name, "origin": origin, "alias": alias}
    import functools
    for name, f in cfuncs().items():
        if v is f or (type(v) is type(f) and type(v).__name__ == "itemgetter" and v.__reduce__() == f.__reduce__()) \
                or (type(v) is type(f) and type(v).__name__ in ("Decimal", "array", "bytearray", "deque") and v == f):
            return {"k": "cfunc", "cls": CFUNC_CLS[name], "v": name}
    if isinstance(v, functools.partial):
        return {"k": "partial", "fn": term_of(v.func), "v": [term_of(x) for x in v.args]}
    if callable(v) and getattr(v, "__name__", None) in FUNCS and FUNCS[v.__name__] is v:
        return {"k": "func", "v": v.__name__, "cells": []}
    if callable(v) and getattr(v, "__qualname__", "") == "fac_add.<locals>.add_k":
        return {"k": "func", "v": "fac_add",
                "cells": [[n, term_of(c.cell_contents)] for n, c in zip(v.__code__.co_freevars, v.__closure__)]}
    if type(v).__name__ in CLASSES and CLASSES[type(v).__name__] is type(v):
        return {"k": "obj", "cls": type(v).__name__, "v": [[n, term_of(getattr(v, n))] for n in ("a", "b")]}
    from fileformats.core import FileSet

    if isinstance(v, FileSet):
        (p,) = v.fspaths
        return {"k": "file", "cls": type(v).__name__, "name": p.name, "content": p.read_bytes().hex()}
    from pydra.compose.base import Task

    if isinstance(v, Task):
        return task_term(v)
    raise core.MachineryError(f"cannot serialise {type(v)}")


def task_term(task):
    """a task used as a value: class name + set fields + the split/xor attributes, each serialised
    in the order the real object iterates them"""
    from pydra.utils.general import get_fields

    vals = []
    for f in get_fields(task):
        x = getattr(task, f.name)
        if x is attrs.NOTHING or f.name == "function":
            continue
        vals.append([f.name, term_of(_plain(x))])
    return {"k": "task", "cls": type(task).__name__, "v": vals,
            "splitter": term_of(_plain(task._splitter)), "combiner": term_of(_plain(task._combiner)),
            "ndim": term_of(_plain(task._container_ndim)), "xor": term_of(task._xor)}


def _plain(x):
    from pydra.engine.state import StateArray

    if isinstance(x, StateArray):
        return [_plain(i) for i in x]
    return x


# --------------------------------------------------------------------------------------
# observing the real code
# --------------------------------------------------------------------------------------
CFG_FIELDS = ("seed", "order", "pickled", "proc", "root", "ctx")


def cfg_of(**kw):
    c = {"seed": os.environ.get("PYTHONHASHSEED", "unset"), "order": 0, "pickled": False,
         "proc": "main", "root": "-", "ctx": "alone"}
    c.update(kw)
    return c


def digest_of(v, **kw):
    """(digest, error) of the real pydra value hash"""
    from pydra.utils.hash import hash_function

    try:
        return hash_function(v, **kw), None
    except Exception as e:  # noqa
        return None, f"{type(e).__name__}: {str(e)[:80]}"


def observe_event(term, digest, cfg, src=None):
    return {"a": "Observe", "term": term, "hassrc": src is not None, "src": src or {"k": "none", "v": "-"},
            "cfg": cfg, "digest": digest}


def hash_jobs(jobs, proc="main", files=None):
    """Run value-hashing jobs in this process.  A job: {"vid", "src": term, "order", "alias",
    "pickled", "ctx", "partner": term|None, "level": "value"|"checksum"}.  Returns events; jobs the
    real code could not hash yield {"a": "NoDigest", ...} (recorded, never judged)."""
    import cloudpickle as cp
    from pydra.utils.hash import Cache, hash_object

    out = []
    for j in jobs:
        memo = {} if j.get("alias") else None
        v = build(j["src"], j.get("order", 0), memo, files)
        if j.get("pickled"):
            v = cp.loads(cp.dumps(v))
        cfg = cfg_of(order=j.get("order", 0), pickled=bool(j.get("pickled")), proc=proc,
                     ctx=j.get("ctx", "alone") + ("+alias" if j.get("alias") else ""))
        level = j.get("level", "value")
        if level == "checksum":
            t = IdTask()(x=v)
            if j.get("pickled"):
                t = cp.loads(cp.dumps(t))
            try:
                d, err = t._checksum, None
            except Exception as e:  # noqa
                d, err = None, f"{type(e).__name__}: {str(e)[:80]}"
            term = {"k": "call", "defn": "IdTask", "v": [["x", term_of(t.x)]]}
            src = {"k": "call", "defn": "IdTask", "v": [["x", j["src"]]]}
        elif j.get("ctx") == "after":
            # the value hashed through a Cache in which another (live) value was hashed first:
            # this is how Task._compute_hashes hashes the fields of one task
            w = build(j["partner"], 0, None, files)
            cache = Cache()
            try:
                hash_object(w, cache=cache)
                d, err = hash_object(v, cache=cache).hex(), None
            except Exception as e:  # noqa
                d, err = None, f"{type(e).__name__}: {str(e)[:80]}"
            term, src = term_of(v), j["src"]
        else:
            d, err = digest_of(v)
            term, src = term_of(v), j["src"]
        if d is None:
            out.append({"a": "NoDigest", "vid": j.get("vid"), "src": j["src"], "err": err, "cfg": cfg})
        else:
            ev = observe_event(term, d, cfg, src)
            ev["vid"] = j.get("vid")
            out.append(ev)
    return out


_IDTASK = None


def IdTask():
    """python task with one untyped input; defined from source text in this (real) file"""
    global _IDTASK
    if _IDTASK is None:
        from pydra.compose import python

        _IDTASK = python.define(_id_body, outputs=["out"])
    return _IDTASK


def _id_body(x: ty.Any) -> ty.Any:
    log = os.environ.get("VERIF_BODYLOG")
    if log:
        with open(log, "a") as f:
            f.write("body\n")
    return type(x).__name__


def body_count(log):
    try:
        with open(log) as f:
            return sum(1 for _ in f)
    except FileNotFoundError:
        return 0


def submit_jobs(jobs, root, proc="main", files=None, worker="debug"):
    """Submit IdTask(x=value) for each job into cache root `root`; Submit events (kk = term)."""
    import cloudpickle as cp

    out = []
    log = os.path.join(os.path.dirname(root), f"body_{proc}.log")
    os.environ["VERIF_BODYLOG"] = log
    try:
        for j in jobs:
            v = build(j["src"], j.get("order", 0), None, files)
            if j.get("pickled"):
                v = cp.loads(cp.dumps(v))
            t = IdTask()(x=v)
            term = {"k": "call", "defn": "IdTask", "v": [["x", term_of(v)]]}
            before = body_count(log)
            listing = set(os.listdir(root)) if os.path.isdir(root) else set()
            try:
                chk = t._checksum
                outs = t(cache_root=root, worker=worker)
                res, err = str(outs.out), None
            except Exception as e:  # noqa
                chk, res, err = None, None, f"{type(e).__name__}: {str(e)[:80]}"
            if err:
                out.append({"a": "NoDigest", "vid": j.get("vid"), "src": j["src"], "err": err,
                            "cfg": cfg_of(proc=proc)})
                continue
            new = sorted(d for d in set(os.listdir(root)) - listing if not d.endswith(".lock"))
            out.append({"a": "Submit", "kk": "term", "term": term, "hit": body_count(log) == before,
                        "out": res, "fresh": type(v).__name__, "vid": j.get("vid"), "checksum": chk,
                        "newdirs": new, "dir_exists": os.path.isdir(os.path.join(root, chk)),
                        "cfg": cfg_of(proc=proc, order=j.get("order", 0), pickled=bool(j.get("pickled")),
                                      root=os.path.basename(root))})
    finally:
        os.environ.pop("VERIF_BODYLOG", None)
    return out


def session_main(argv):
    """child interpreter (imported as harness.identity_common, never run as __main__: the module
    name of the pool classes is part of their identity)"""
    spec = json.load(open(argv[0]))
    core.assert_repo_import()
    evs = []
    for part in spec["parts"]:
        if part["op"] == "hash":
            evs += hash_jobs(part["jobs"], proc=spec["proc"], files=spec.get("files"))
        elif part["op"] == "submit":
            evs += submit_jobs(part["jobs"], part["root"], proc=spec["proc"], files=spec.get("files"),
                               worker=part.get("worker", "debug"))
        elif part["op"] == "module":
            import importlib.util

            sp = importlib.util.spec_from_file_location(part["name"], part["path"])
            mod = importlib.util.module_from_spec(sp)
            sys.modules[part["name"]] = mod
            sp.loader.exec_module(mod)
            evs += getattr(mod, part["fn"])(spec, part)
        else:
            raise core.MachineryError("unknown session op " + part["op"])
    with open(argv[1], "w") as f:
        for e in evs:
            f.write(json.dumps(e) + "\n")


def run_sessions(ctx, specs, timeout=300):
    """Run several interpreter sessions concurrently; spec: {"proc", "seed", "parts", ...}.
    Returns {proc: [events]}."""
    import subprocess

    procs = []
    for s in specs:
        sp = ctx.scratch / f"session_{s['proc']}.json"
        op = ctx.scratch / f"session_{s['proc']}.ndjson"
        sp.write_text(json.dumps(s))
        env = core.child_env({"PYTHONHASHSEED": s["seed"], "PYDRA_HASH_CACHE": str(ctx.scratch / "hashcache"),
                              "PYTHONDONTWRITEBYTECODE": "1"})
        env["PYTHONHASHSEED"] = str(s["seed"])
        p = subprocess.Popen([core.PY, "-c", "import sys; from harness import identity_common as m; m.session_main(sys.argv[1:])",
                              str(sp), str(op)], env=env,
                             stdout=subprocess.PIPE, stderr=subprocess.STDOUT, text=True, cwd=str(ctx.scratch))
        procs.append((s, p, op))
    res = {}
    for s, p, op in procs:
        try:
            outp, _ = p.communicate(timeout=timeout)
        except subprocess.TimeoutExpired:
            p.kill()
            raise core.MachineryError(f"session {s['proc']} timed out")
        if p.returncode != 0:
            raise core.MachineryError(f"session {s['proc']} failed:\n{outp[-2000:]}")
        res[s["proc"]] = [json.loads(l) for l in open(op)]
    return res


# --------------------------------------------------------------------------------------
# TLC: term generation (M2) and trace validation (M4)
# --------------------------------------------------------------------------------------
def gen_terms(ctx, family, natoms=8, nsmall=2, maxlen1=2, maxlens=2, maxlen2=2, arrsizes=(2, 6)):
    cfg = ctx.scratch / f"idgen_{family}_{natoms}_{nsmall}_{maxlen1}_{maxlens}_{maxlen2}.cfg"
    cfg.write_text(f"""INIT Init
NEXT Next
CONSTANTS
  Family = "{family}"
  NAtoms = {natoms}
  NSmall = {nsmall}
  MaxLen1 = {maxlen1}
  MaxLenS = {maxlens}
  MaxLen2 = {maxlen2}
  ArrSizes = {{{", ".join(str(n) for n in arrsizes)}}}
INVARIANT Emit
INVARIANT Theorems
CHECK_DEADLOCK FALSE
""")
    r = ctx.tlc("Identity_Gen", cfg=cfg, workers=1, timeout=600)
    terms = r.printed()
    if len(terms) != r.distinct or not terms:
        raise core.MachineryError(f"Identity_Gen printed {len(terms)} terms for {r.distinct} states")
    return terms


OBS_CFG = """SPECIFICATION OSpec
VIEW View
INVARIANT Done
CHECK_DEADLOCK FALSE
"""


def validate_obs(ctx, obs, name="obs"):
    """Large observation logs: TLC (Identity_Obs) checks the key<->digest relation over all pairs of
    observations.  Returns (reports, summary); report indices l / with are 1-based positions in obs;
    reports carry tid = 1 so that judge_observe_reports(ctx, reps, [obs], ...) applies."""
    if not obs:
        raise core.MachineryError("no observations to validate")
    tf = ctx.scratch / f"{name}.ndjson"
    with open(tf, "w") as f:
        for e in obs:
            f.write(json.dumps({k: e[k] for k in ("term", "hassrc", "src", "cfg", "digest")}) + "\n")
    cfg = ctx.scratch / "identity_obs.cfg"
    cfg.write_text(OBS_CFG)
    r = ctx.tlc("Identity_Obs", cfg=cfg, workers=1, env={"TRACE_FILE": str(tf)}, timeout=1500)
    recs = r.printed()
    sums = [x for x in recs if x.get("done")]
    reps = [dict(x, tid=1) for x in recs if not x.get("done")]
    if len(sums) != 1 or sums[0]["events"] != len(obs) or sums[0]["reports"] != len(reps):
        raise core.MachineryError("observation validation incomplete:\n" + "\n".join(r.out.splitlines()[-20:]))
    return reps, sums[0]


def gen_terms_many(ctx, families):
    """families: list of (family, kwargs); TLC processes run concurrently"""
    from concurrent.futures import ThreadPoolExecutor

    with ThreadPoolExecutor(max_workers=6) as ex:
        futs = [ex.submit(gen_terms, ctx, f, **kw) for f, kw in families]
        return [x.result() for x in futs]


TRACE_CFG = """SPECIFICATION TSpec
VIEW View
INVARIANT Done
CHECK_DEADLOCK FALSE
"""

EVENT_FIELDS = {"Observe": ("a", "term", "hassrc", "src", "cfg", "digest"),
                "Submit": ("a", "kk", "key", "term", "hit", "out", "fresh")}


def _strip(e):
    return {k: e[k] for k in EVENT_FIELDS[e["a"]] if k in e}


def validate(ctx, traces, name="trace"):
    """traces: list of event lists (already filtered to Observe/Submit).  Runs TLC on
    Identity_Trace and returns (reports, summaries); each report refers to traces[tid-1][l-1]."""
    traces = [t for t in traces]
    if not any(traces):
        raise core.MachineryError("no events to validate")
    tf = ctx.scratch / f"{name}.ndjson"
    with open(tf, "w") as f:
        for t in traces:
            f.write(json.dumps({"ev": [_strip(e) for e in t]}) + "\n")
    cfg = ctx.scratch / "identity_trace.cfg"
    cfg.write_text(TRACE_CFG)
    r = ctx.tlc("Identity_Trace", cfg=cfg, workers=1, env={"TRACE_FILE": str(tf)}, timeout=900)
    recs = r.printed()
    sums = [x for x in recs if x.get("done")]
    reps = [x for x in recs if not x.get("done")]
    if len(sums) != len(traces):
        raise core.MachineryError(f"trace validation: {len(sums)} verdicts for {len(traces)} traces\n"
                                  + "\n".join(r.out.splitlines()[-20:]))
    for s in sums:
        if s["events"] != len(traces[s["tid"] - 1]):
            raise core.MachineryError("trace validation consumed a different number of events")
    if sum(s["reports"] for s in sums) != len(reps):
        raise core.MachineryError("trace validation: report count mismatch")
    return reps, sums


KNOWN_BY_SWITCH = {
    "numpy-shape-dtype": {"C06": "C06-numpy-shape-dtype", "C08": "C08-numpy-shape-dtype", "C07": "C07-numpy-shape-dtype"},
    "set-sorted-partial-order": {"C07": "C07-set-sorted-partial-order", "C08": "C08-set-sorted-partial-order",
                                 "C06": "C06-set-sorted-partial-order"},
    "closure-value": {"C06": "C06-closure-value", "C08": "C08-closure-value", "C07": "C07-closure-value"},
    "shell-field-metadata": {"C06": "C06-shell-field-metadata", "C07": "C07-shell-field-metadata",
                             "C08": "C08-shell-field-metadata"},
    "generic-alias-args": {"C06": "C06-generic-alias-args", "C07": "C07-generic-alias-args",
                           "C08": "C08-generic-alias-args"},
    "stateless-objects-alike": {"C06": "C06-stateless-objects-alike", "C07": "C07-stateless-objects-alike",
                                "C08": "C08-stateless-objects-alike"},
}


def known_id_for(prop, blame):
    """narrow known-finding id for a report: the single as-built switch that predicts it (if any)"""
    blame = sorted(blame)
    if len(blame) == 1:
        return KNOWN_BY_SWITCH[blame[0]][prop]
    return None


def short(t, n=160):
    s = json.dumps(t)
    return s if len(s) <= n else s[:n] + "..."


def judge_observe_reports(ctx, reps, traces, invs, cap=6):
    """Turn Observe reports (Deterministic / ContextFree / Injective / Binding) into verdicts.
    Reports whose invariant is not in `invs` are recorded as observations only."""
    per_class = {}
    for r in reps:
        tr = traces[r["tid"] - 1]
        e, b = tr[r["l"] - 1], tr[r["with"] - 1]
        if "ideal_same" not in r:
            continue
        if r["inv"] == "Binding":
            raise core.MachineryError(f"binding: built value does not have the generated term: {short(e)}")
        if r["inv"] not in invs:
            ctx.observe(f"{r['inv']} report outside this property (decided by another check)",
                        {"a": short(e["term"]), "b": short(b["term"])})
            continue
        kid = known_id_for(ctx.prop, r["blame"])
        cls = (r["inv"], kid)
        per_class[cls] = per_class.get(cls, 0) + 1
        if per_class[cls] > cap and not (kid and kid in ctx.known and ctx.known[kid].get("status") == "known"):
            continue          # one replay file per class representative is enough
        ctx.judge(False, f"{r['inv']}: " + ("equal values, different digests" if r["ideal_same"]
                                           else "different values, same digest")
                  + f" [{short(e['term'], 90)} | {short(b['term'], 90)}]",
                  case={"kind": "observe-pair", "a": _strip(e), "b": _strip(b), "inv": r["inv"],
                        "blame": sorted(r["blame"])},
                  expected={"same_digest": r["ideal_same"]}, observed={"same_digest": r["observed_same"]},
                  known_id=kid, asbuilt={"same_digest": r["asbuilt_same"]})
    ctx.extra.setdefault("reports_per_class", {}).update({f"{k[0]}/{k[1]}": v for k, v in per_class.items()})
    return per_class


def replay_observe_pair(ctx, rec):
    """Re-run a recorded pair: rebuild both values in this process where the configuration allows
    (same-process configurations), re-hash, and ask TLC again."""
    case = rec["case"]
    evs = []
    for x in (case["b"], case["a"]):
        cfg = x["cfg"]
        same_proc = str(cfg.get("seed")) == os.environ.get("PYTHONHASHSEED") and not str(cfg.get("proc", "")).startswith("s")
        if x["hassrc"] and same_proc and x["term"]["k"] != "call":
            j = {"src": x["src"], "order": cfg["order"], "pickled": cfg["pickled"],
                 "alias": "+alias" in cfg["ctx"], "ctx": cfg["ctx"].split("+")[0]}
            if j["ctx"] == "after":
                j["partner"] = {"k": "int", "v": "7"}
            evs += [e for e in hash_jobs([j], files=str(ctx.scratch)) if e["a"] == "Observe"]
        else:
            sess = run_sessions(ctx, [{"proc": "r" + str(len(evs)), "seed": cfg.get("seed", 0), "files": str(ctx.scratch),
                                       "parts": [{"op": "hash", "jobs": [{"src": x["src"] if x["term"]["k"] != "call" else x["src"]["v"][0][1],
                                                                          "order": cfg["order"], "pickled": cfg["pickled"],
                                                                          "level": "checksum" if x["term"]["k"] == "call" else "value"}]}]}])
            evs += [e for v in sess.values() for e in v if e["a"] == "Observe"]
    reps, _ = validate(ctx, [evs], name="replay")
    ctx.ran()
    print("replay reports:", json.dumps(reps)[:600])
    judge_observe_reports(ctx, reps, [evs], {case["inv"]})



def judge_submit_reports(ctx, reps, traces, invs, describe=None, cap=6):
    """Turn Submit reports of Identity_Trace (HitOnlyAfterEqualKey / HitReturnsFresh / FoundByNext)
    into verdicts; the case carries the whole trace (history) for replay."""
    per_class = {}
    for r in reps:
        if "expected" not in r:
            continue
        tr = traces[r["tid"] - 1]
        e = tr[r["l"] - 1]
        if r["inv"] not in invs:
            ctx.observe(f"{r['inv']} report outside this property (decided by another check)",
                        {"event": short(_strip(e))})
            continue
        kid = known_id_for(ctx.prop, r["blame"])
        cls = (r["inv"], kid)
        per_class[cls] = per_class.get(cls, 0) + 1
        if per_class[cls] > cap and not (kid and kid in ctx.known and ctx.known[kid].get("status") == "known"):
            continue
        what = {"HitOnlyAfterEqualKey": "cache hit for a task that was never submitted (another task's result served)",
                "HitReturnsFresh": "returned outputs differ from executing the task now",
                "FoundByNext": "a result computed earlier in this cache root was not found"}[r["inv"]]
        ctx.judge(False, f"{r['inv']}: {what}" + (f" [{describe(tr, r)}]" if describe else ""),
                  case={"kind": "submit-history", "history": [_strip(x) for x in tr], "at": r["l"], "inv": r["inv"],
                        "blame": sorted(r["blame"]), "meta": tr[0].get("meta")},
                  expected=r["expected"], observed=r["observed"], known_id=kid, asbuilt=r["asbuilt"])
    ctx.extra.setdefault("reports_per_class", {}).update({f"{k[0]}/{k[1]}": v for k, v in per_class.items()})
    return per_class
