"""Child interpreter running one gated workflow through a real Submitter (see sub_common)."""
import json
import sys

from harness import sub_common

if __name__ == "__main__":
    base = sys.argv[1]
    spec = json.load(open(base + "/spec.json"))
    sub_common._child(spec["graph"], spec["K"], spec["worker"], base, base + "/out.json", late=spec.get("late"))
