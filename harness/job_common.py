"""Driving real pydra jobs along JobProtocol behaviours and recording their traces.

* scenario = cache layout (leftover job directories, read-only caches) + a list of
  process specifications (label, rerun flag, crash / raise injection point, start order)
  + optionally a grant schedule (a TLC behaviour) that the controller forces through the
  gated hook points.
* children are forked from the controller (pydra already imported), configure the hook
  handler through os.environ, call ``task(cache_root=…)`` and write their outcome.
* the ndjson hook log is normalised into spec-level events (pure function of the log)
  and validated by TLC against JobProtocol_Trace (mode M4).
"""
import json
import os
import pickle
import re
import shutil
import signal
import sys
import tempfile
import time
import typing as ty
from pathlib import Path

from pydra.compose import python
from pydra.engine import _verif

from harness import core, handler

if not _verif.ENABLED:
    raise core.MachineryError("hooks are off: NIPYPE_PYDRA_VERIF=1 must be set before pydra is imported")

JOB_POINTS = ["pre_run", "locked", "checked", "info_written", "dir_cleared", "dir_made", "job_saved", "chdir",
              "pre_run_task", "audit_started", "body_start", "body_end", "outputs_collected", "error_recorded",
              "post_run_task", "audit_finalized", "result_write_begin", "result_saved", "info_unlinked",
              "cwd_restored", "post_run", "returned"]


# ---------------- the tasks under test (module-level: picklable, stable source) ----------------
@python.define
def Work(x: int) -> int:
    side = os.environ.get("VERIF_SIDE")
    mode = "ok"
    if side:
        with open(os.path.join(side, "body.log"), "a") as f:
            f.write(f"start {os.getpid()}\n")
        mp = os.path.join(side, "mode")
        if os.path.exists(mp):
            mode = open(mp).read().strip()
    if mode == "raise":
        raise ValueError("body fails on request")
    if side:
        with open(os.path.join(side, "body.log"), "a") as f:
            f.write(f"end {os.getpid()}\n")
    return x + 1


@python.define(outputs=["a", "b"])
def Two(x: int) -> tuple[int, int]:
    side = os.environ.get("VERIF_SIDE")
    mode = "ok"
    if side:
        with open(os.path.join(side, "body.log"), "a") as f:
            f.write(f"start {os.getpid()}\n")
        mp = os.path.join(side, "mode")
        if os.path.exists(mp):
            mode = open(mp).read().strip()
    if mode == "raise":
        raise ValueError("body fails on request")
    if side:
        with open(os.path.join(side, "body.log"), "a") as f:
            f.write(f"end {os.getpid()}\n")
    if mode == "missing":
        return {"a": x + 1}
    return {"a": x + 1, "b": x + 2}


TASKS = {"Work": lambda: Work(x=1), "Two": lambda: Two(x=1), "Wf1": lambda: Wf1(x=1)}
EXPECTED = {"Work": {"out": 2}, "Two": {"a": 2, "b": 3}, "Wf1": {"out": 2}}


def checksum_of(task_name):
    from pydra.engine.job import Job
    from pydra.engine.submitter import Submitter

    t = TASKS[task_name]()
    return t._checksum if hasattr(t, "_checksum") else None


# ---------------- scenario execution ----------------
class Scenario:
    """Directory layout of one run."""

    def __init__(self, base, n_ro=0):
        self.base = Path(base)
        self.root = self.base / "root"
        self.ros = [self.base / f"ro{i+1}" for i in range(n_ro)]
        self.side = self.base / "side"
        self.gate = self.base / "gate"
        self.log = self.base / "events.ndjson"
        for d in [self.root, self.side, self.gate] + self.ros:
            d.mkdir(parents=True, exist_ok=True)
        self.log.touch()
        (self.side / "body.log").touch()

    def set_mode(self, mode):
        (self.side / "mode").write_text(mode)

    def bodies(self):
        lines = (self.side / "body.log").read_text().split("\n")
        return sum(1 for l in lines if l.startswith("start")), sum(1 for l in lines if l.startswith("end"))


def _child_main(scn, proc, task_name, rerun, env, outfile, use_ro, hooks_log=None):
    """Runs in the forked child."""
    try:
        for k in ("VERIF_CRASH_AT", "VERIF_RAISE_AT", "VERIF_GATE_DIR", "VERIF_GATE_POINTS", "VERIF_FAULT_JOB"):
            os.environ.pop(k, None)
        os.environ.update({"VERIF_LOG": str(scn.log), "VERIF_PROC": proc, "VERIF_SIDE": str(scn.side),
                           "VERIF_FAULT_JOB": "main"})
        os.environ.update({k: str(v) for k, v in env.items()})
        handler._seq = 0
        handler._counts = {}
        handler._gate_k = 0
        handler._fd = None
        home = os.getcwd()
        out = {"proc": proc, "status": None}
        hooks = None
        if hooks_log:
            from pydra.engine.hooks import TaskHooks

            def mk(name):
                def h(*a, **k):
                    with open(hooks_log, "a") as f:
                        f.write(f"{proc} {name}\n")
                return h
            hooks = TaskHooks(pre_run=mk("pre_run"), post_run=mk("post_run"),
                              pre_run_task=mk("pre_run_task"), post_run_task=mk("post_run_task"))
        try:
            task = TASKS[task_name]()
            kw = {}
            if use_ro:
                kw["readonly_caches"] = [str(r) for r in scn.ros]
            if hooks:
                kw["hooks"] = hooks
            outs = task(cache_root=str(scn.root), rerun=rerun, **kw)
            out["status"] = "ok"
            out["outputs"] = {k: getattr(outs, k) for k in EXPECTED[task_name]}
            handler.emit({"t": "", "p": proc, "pid": os.getpid(), "q": 10**6, "a": "call_returned"})
        except BaseException as e:  # noqa
            out["status"] = "raised"
            out["error"] = f"{type(e).__name__}: {str(e)[:300]}"
            out["notes"] = getattr(e, "__notes__", [])
            handler.emit({"t": "", "p": proc, "pid": os.getpid(), "q": 10**6, "a": "call_raised"})
        out["cwd_restored"] = os.path.realpath(os.getcwd()) == os.path.realpath(home)
        with open(outfile, "w") as f:
            json.dump(out, f, default=str)
    finally:
        os._exit(0)


def spawn(scn, proc, task_name="Work", rerun=False, env=None, use_ro=False, hooks_log=None):
    outfile = scn.base / f"out_{proc}_{time.time_ns()}.json"
    pid = os.fork()
    if pid == 0:
        _child_main(scn, proc, task_name, rerun, env or {}, outfile, use_ro, hooks_log)
    return pid, outfile


def wait_child(pid, outfile, timeout=60):
    """-> outcome dict; status 'crashed' when the child was killed / os._exit(137)."""
    deadline = time.time() + timeout
    while True:
        r, st = os.waitpid(pid, os.WNOHANG)
        if r == pid:
            break
        if time.time() > deadline:
            os.kill(pid, signal.SIGKILL)
            os.waitpid(pid, 0)
            return {"status": "timeout"}
        time.sleep(0.003)
    if os.path.exists(outfile):
        return json.load(open(outfile))
    code = os.waitstatus_to_exitcode(st)
    return {"status": "crashed", "exit": code}


def run_sequential(scn, specs, task_name="Work", timeout=60):
    """specs: list of dicts {p, rerun, crash_at, raise_at, use_ro, mode}; one after the other."""
    outs = []
    for s in specs:
        if "mode" in s:
            scn.set_mode(s["mode"])
        env = {}
        if s.get("crash_at"):
            env["VERIF_CRASH_AT"] = s["crash_at"]
        if s.get("raise_at"):
            env["VERIF_RAISE_AT"] = s["raise_at"]
        pid, of = spawn(scn, s["p"], task_name, s.get("rerun", False), env, s.get("use_ro", False), s.get("hooks_log"))
        outs.append(wait_child(pid, of, timeout))
    return outs


def run_concurrent(scn, specs, task_name="Work", timeout=60):
    """all processes started together, free running (no gating)."""
    kids = []
    for s in specs:
        env = {}
        kids.append(spawn(scn, s["p"], task_name, s.get("rerun", False), env, s.get("use_ro", False)))
    return [wait_child(pid, of, timeout) for pid, of in kids]


# ---------------- gated replay of a TLC behaviour ----------------
AFTER = {  # spec action -> hook point announced when the action has completed
    "Submit": "pre_run", "Acquire": "locked", "CheckHit": "checked", "CheckMiss": "checked",
    "WriteInfo": "info_written", "ClearDir": "dir_cleared", "MakeDir": "dir_made", "SaveJob": "job_saved",
    "Chdir": "chdir", "PreTask": "pre_run_task", "AuditStart": "audit_started", "BodyStart": "body_start",
    "BodyOk": "body_end", "Collect": "outputs_collected", "RecordError": "error_recorded",
    "PostTask": "post_run_task", "AuditEnd": "audit_finalized", "SaveBegin": "result_write_begin",
    "SaveResult": "result_saved", "UnlinkInfo": "info_unlinked", "RestoreCwd": "cwd_restored",
    "PostRun": "post_run", "Return": "returned",
}
SILENT = {"CheckSkip", "BodyRaise", "CollectRaise", "StaleBreak", "Release", "RaiseOut"}


class Replay:
    """Forces real processes through a behaviour [(action, proc, arg)] by granting gated points."""

    def __init__(self, scn, task_name="Work", timeout=20):
        self.scn = scn
        self.task = task_name
        self.kids = {}      # proc -> (pid, outfile)
        self.k = {}         # proc -> index of the pending gate
        self.done = {}
        self.history = []
        self.at = {}
        self.timeout = timeout
        self.problem = None

    def _wait_announce(self, p, expect):
        pid, of = self.kids[p]
        k = self.k.get(p, 0) + 1
        path = self.scn.gate / f"{p}.{k}.at"
        deadline = time.time() + self.timeout
        while not path.exists():
            r, st = os.waitpid(pid, os.WNOHANG)
            if r == pid:
                if os.waitstatus_to_exitcode(st) == 99:      # the child gave up waiting for a grant (slow machine)
                    self.done[p] = {"status": "timeout"}
                    return "timeout"
                self.done[p] = json.load(open(of)) if os.path.exists(of) else {"status": "crashed"}
                return "exited"
            if time.time() > deadline:
                return "timeout"
            time.sleep(0.002)
        self.k[p] = k
        name = path.read_text()
        return name

    def _grant(self, p):
        (self.scn.gate / f"{p}.{self.k[p]}.go").touch()

    def run(self, steps, body_modes=None):
        """steps: list of {"a": action, "p": proc, "rerun": bool?}.  Returns (outcomes, problem)."""
        pending_grant = set()   # procs sitting at an announced point
        for i, st in enumerate(steps):
            a, p = st["a"], st["p"]
            if a == "Submit":
                env = {"VERIF_GATE_DIR": str(self.scn.gate), "VERIF_GATE_POINTS": ",".join(JOB_POINTS),
                       "VERIF_GATE_TIMEOUT": str(4 * self.timeout + 30)}
                if p in self.kids and p not in self.done:
                    self._drain(p)               # let the previous call of this label return first
                self.k[p] = 0
                if p in self.done:               # a further submission by the same process label
                    self.history.append(dict(self.done.pop(p), proc=p))
                self.at.pop(p, None)
                # gate files of the previous submission of this label must not be mistaken for new ones
                for f in self.scn.gate.glob(f"{p}.*"):
                    f.unlink()
                self.kids[p] = spawn(self.scn, p, self.task, st.get("rerun", False), env, st.get("use_ro", False))
                got = self._wait_announce(p, "pre_run")
                if got != "pre_run":
                    return self._fail(i, st, got)
                pending_grant.add(p)
                continue
            if a == "Crash":
                os.kill(self.kids[p][0], signal.SIGKILL)
                os.waitpid(self.kids[p][0], 0)
                handler_emit_external(self.scn, p, "CRASH")
                self.done[p] = {"status": "crashed"}
                pending_grant.discard(p)
                continue
            if a in ("BodyRaise", "CollectRaise"):
                self.scn.set_mode("raise" if a == "BodyRaise" else "missing")
                continue
            if a in ("CheckSkip", "StaleBreak", "RaiseOut"):
                continue
            if a == "BodyOk":
                self.scn.set_mode("ok")
            if p in self.done:
                continue
            if a == "PostRun" and self.at.get(p) == "post_run":
                continue            # already performed together with Release
            self._grant(p)
            if a == "Release":
                got = self._wait_announce(p, None)
                if got not in ("post_run", "exited"):
                    return self._fail(i, st, got)
                self.at[p] = got
                continue
            expect = AFTER[a]
            got = self._wait_announce(p, expect)
            self.at[p] = got
            if got == "exited" and a in ("Return",):
                continue
            if got != expect:
                return self._fail(i, st, got)
        # let everybody still alive run to completion
        for p in list(self.kids):
            if p not in self.done:
                self._drain(p)
        return self.done, self.problem

    def _drain(self, p):
        pid, of = self.kids[p]
        deadline = time.time() + self.timeout
        while p not in self.done:
            (self.scn.gate / f"{p}.{self.k[p]}.go").touch()
            got = self._wait_announce(p, None)
            if got == "exited":
                break
            if got == "timeout" or time.time() > deadline:
                os.kill(pid, signal.SIGKILL)
                os.waitpid(pid, 0)
                self.done[p] = {"status": "timeout"}

    def _fail(self, i, st, got):
        self.problem = {"step": i, "expected_after": AFTER.get(st["a"]), "action": st, "got": got}
        for p, (pid, of) in self.kids.items():
            if p not in self.done:
                try:
                    os.kill(pid, signal.SIGKILL)
                    os.waitpid(pid, 0)
                except Exception:
                    pass
                self.done[p] = {"status": "killed-by-controller"}
        return self.done, self.problem


def handler_emit_external(scn, p, what):
    with open(scn.log, "a") as f:
        f.write(json.dumps({"t": "", "p": p, "pid": 0, "q": 10**6, "a": what, "ext": True}) + "\n")


# ---------------- normalisation: hook log -> spec-level events ----------------
POINT2ACT = {
    "info_written": "WriteInfo", "dir_cleared": "ClearDir", "dir_made": "MakeDir", "job_saved": "SaveJob",
    "chdir": "Chdir", "pre_run_task": "PreTask", "audit_started": "AuditStart", "body_start": "BodyStart",
    "body_end": "BodyOk", "outputs_collected": "Collect", "error_recorded": "RecordError",
    "post_run_task": "PostTask", "audit_finalized": "AuditEnd", "result_write_begin": "SaveBegin",
    "result_written": "SaveResult", "info_unlinked": "UnlinkInfo", "cwd_restored": "RestoreCwd",
    "post_run": "PostRun", "returned": "Return",
}
LOCKED_REGION = {"Acquire", "CheckSkip", "CheckHit", "CheckMiss", "WriteInfo", "ClearDir", "MakeDir", "SaveJob",
                 "Chdir", "PreTask", "AuditStart", "BodyStart", "BodyOk", "Collect", "RecordError", "PostTask",
                 "AuditEnd", "UnlinkInfo", "RestoreCwd"}


def read_log(path, job="main"):
    evs = []
    for line in open(path):
        line = line.strip()
        if line:
            evs.append(json.loads(line))
    return evs


def normalize(raw, job="main"):
    """Pure function of the recorded events.  Only events of the job named `job` (and the
    path-only save events of the same process while it is inside that job) are kept."""
    out = []
    st = {}          # per process: last action, holds lock?, in_final_save?
    holder = None
    dead = set()
    for e in raw:
        p, a = e["p"], e["a"]
        s = st.setdefault(p, {"last": None, "holds": False, "phase": None, "returned": False})
        if "job" in e and e["job"] != job:
            continue
        if "job" in e and e.get("ck"):
            s["ck"] = e["ck"]
        if "job" not in e and "path" in e and e["path"] != s.get("ck"):
            continue            # save()/record_error() of another (nested) job

        def add(act, **kw):
            rec = {"a": act, "p": p}
            rec.update(kw)
            if "fs" in e and act in LOCKED_REGION:
                rec["fs"] = e["fs"]
            out.append(rec)
            s["last"] = act

        if a == "pre_run":
            s.update(holds=False, phase="pre", returned=False)
            add("Submit", rerun=bool(e.get("rerun")))
        elif a == "locked":
            if holder is not None and holder in dead:
                out.append({"a": "StaleBreak", "p": p})
            holder = p
            s["holds"] = True
            add("Acquire")
        elif a == "checked":
            add("CheckHit" if e.get("res") == "ok" else "CheckMiss", res=e.get("res"))
        elif a == "releasing":
            s["holds"] = False
            if holder == p:
                holder = None
            add("Release")
        elif a == "info_written":
            if s["last"] == "Acquire":
                out.append({"a": "CheckSkip", "p": p})
            s["phase"] = "populate"
            add("WriteInfo")
        elif a == "error_recorded":
            if s["last"] == "BodyStart":
                out.append({"a": "BodyRaise", "p": p})
            elif s["last"] in ("BodyOk", "Collect"):
                out.append({"a": "CollectRaise", "p": p})
            add("RecordError")
        elif a in ("save_locked", "job_write_begin", "job_written", "error_file_written", "result_saved"):
            continue  # stuttering steps inside save()/record_error()
        elif a == "result_write_begin":
            if "job" in e:
                continue
            add("SaveBegin")
        elif a == "result_written":
            add("SaveResult")
        elif a == "returned":
            s["returned"] = True       # Job.run is about to return; the call's outcome follows (final lock-free read)
        elif a == "call_returned":
            if s["last"] is not None:
                add("Return", ok=True)
            s["last"] = None
        elif a == "call_raised":
            if s["holds"]:
                s["holds"] = False
                if holder == p:
                    holder = None
                out.append({"a": "Release", "p": p})
            if s["last"] is not None:
                if s["returned"] or s["last"] == "Release":
                    add("Return", ok=False)      # the run itself ended normally: the final read found no result
                else:
                    add("RaiseOut")
            s["last"] = None
        elif a == "CRASH":
            dead.add(p)
            if s["last"] not in (None, "Return", "RaiseOut"):
                add("Crash")
        elif a == "RAISE":
            add("Inject")
        elif a == "GATE_TIMEOUT":
            add("GateTimeout")
        elif a in POINT2ACT:
            add(POINT2ACT[a])
    return out


DIRS = {
    "absent": {"ex": False, "job": False, "res": "none", "errf": False},
    "emptydir": {"ex": True, "job": False, "res": "none", "errf": False},
    "jobonly": {"ex": True, "job": True, "res": "none", "errf": False},
    "partial": {"ex": True, "job": True, "res": "partial", "errf": False},
    "emptyres": {"ex": True, "job": True, "res": "empty", "errf": False},
    "ok": {"ex": True, "job": True, "res": "ok", "errf": False},
}


def make_leftover(cache_dir: Path, checksum: str, kind: str, donor: Path | None = None):
    """Create the initial content of <cache>/<checksum> ('ok' copies a complete donor directory)."""
    d = cache_dir / checksum
    if kind == "absent":
        return
    if kind == "ok":
        shutil.copytree(donor, d)
        return
    d.mkdir(parents=True)
    if kind in ("jobonly", "partial", "emptyres"):
        (d / "_job.pklz").write_bytes((donor / "_job.pklz").read_bytes() if donor else b"x")
    if kind == "partial":
        data = (donor / "_result.pklz").read_bytes()
        (d / "_result.pklz").write_bytes(data[: max(1, len(data) // 2)])
    if kind == "emptyres":
        (d / "_result.pklz").write_bytes(b"")


def validate_traces(ctx, traces, switches="ideal"):
    """traces: list of {"tid", "init", "ev"} -> {tid: verdict tuple as list}.  One TLC run."""
    if not traces:
        return {}
    f = ctx.scratch / f"traces_{switches}_{len(traces)}_{time.time_ns()}.ndjson"
    with open(f, "w") as fh:
        for t in traces:
            init = {c: t["init"].get(c, DIRS["absent"]) for c in ("root", "ro1", "ro2")}
            fh.write(json.dumps({"tid": t["tid"], "init": init, "ev": t["ev"]}) + "\n")
    r = ctx.tlc("MC_JobTrace", cfg=f"MC_JobTrace_{switches}.cfg", workers=1, env={"TRACE_FILE": str(f)}, timeout=900)
    allv = {}
    for rec in r.printed():
        allv.setdefault(rec["tid"], []).append(rec)
    verdicts = {t: collapse_verdicts(v) for t, v in allv.items()}
    missing = [t["tid"] for t in traces if t["tid"] not in verdicts]
    if missing:
        raise core.MachineryError(f"no verdict for traces {missing[:5]}")
    return verdicts


# ---------------- scenario descriptions -> executions ----------------
_DONORS = {}


def donor_dir(task_name):
    """A complete job directory of the task (computed once per process, hooks not logged)."""
    if task_name in _DONORS and _DONORS[task_name].exists():
        return _DONORS[task_name]
    base = Path(tempfile.mkdtemp(prefix="verif_donor_"))
    import atexit
    atexit.register(shutil.rmtree, str(base), True)
    saved = {k: os.environ.pop(k, None) for k in ("VERIF_LOG", "VERIF_SIDE", "VERIF_CRASH_AT", "VERIF_RAISE_AT", "VERIF_GATE_DIR")}
    try:
        TASKS[task_name]()(cache_root=str(base))
    finally:
        for k, v in saved.items():
            if v is not None:
                os.environ[k] = v
    dirs = [d for d in base.iterdir() if d.is_dir() and (d / "_result.pklz").exists()
            and d.name.startswith("workflow-") == task_name.startswith("Wf")]
    if len(dirs) != 1:
        raise core.MachineryError(f"donor run produced {dirs}")
    _DONORS[task_name] = dirs[0]
    return dirs[0]


def execute(spec):
    """spec: {"kind": "seq"|"race"|"replay", "task", "init": {"root": kind, "ro1": kind, ...},
              "procs": [...], "steps": [...]}  ->  observation dict (pure data)."""
    task_name = spec.get("task", "Work")
    donor = donor_dir(task_name)
    base = tempfile.mkdtemp(prefix="verif_job_")
    try:
        init = spec.get("init", {})
        n_ro = 2 if any(k.startswith("ro") for k in init) or spec.get("use_ro") else 0
        scn = Scenario(base, n_ro=n_ro)
        for c, kind in init.items():
            cdir = scn.root if c == "root" else scn.ros[int(c[2:]) - 1]
            make_leftover(cdir, donor.name, kind, donor)
        before = {str(r): snapshot(r) for r in scn.ros}
        problem = None
        if spec["kind"] == "seq":
            outs = run_sequential(scn, spec["procs"], task_name, timeout=spec.get("timeout", 60))
        elif spec["kind"] == "race":
            kids = []
            for s in spec["procs"]:
                env = {}
                if s.get("sleep_at"):
                    env["VERIF_SLEEP_AT"] = s["sleep_at"]
                kids.append(spawn(scn, s["p"], task_name, s.get("rerun", False), env, s.get("use_ro", False)))
                if s.get("delay"):
                    time.sleep(s["delay"])
            outs = [wait_child(pid, of, spec.get("timeout", 60)) for pid, of in kids]
        else:
            rp = Replay(scn, task_name, timeout=spec.get("timeout", 20))
            done, problem = rp.run(spec["steps"])
            outs = rp.history + [dict(v, proc=p) for p, v in sorted(done.items())]
        raw = read_log(scn.log)
        after = {str(r): snapshot(r) for r in scn.ros}
        jobdir = scn.root / donor.name
        return {
            "outs": outs, "problem": problem, "bodies": scn.bodies(), "ev": normalize(raw),
            "nraw": len(raw),
            "ro_unchanged": before == after,
            "end": {"ex": jobdir.exists(), "job": (jobdir / "_job.pklz").exists(),
                    "res": (jobdir / "_result.pklz").exists() and (jobdir / "_result.pklz").stat().st_size > 0,
                    "err": (jobdir / "_error.pklz").exists(),
                    "info": sorted(f.name for f in scn.root.glob("*_info.json")),
                    "locks": sorted(f.name for f in scn.root.glob("*.lock"))},
            "root_listing": sorted(f.name for f in scn.root.iterdir()),
        }
    finally:
        shutil.rmtree(base, ignore_errors=True)


def snapshot(d: Path):
    res = []
    for f in sorted(d.rglob("*")):
        st = f.stat()
        res.append((str(f.relative_to(d)), st.st_size, st.st_mtime_ns, f.is_dir()))
    return res


def spec_init(init):
    return {c: DIRS[k] for c, k in init.items()}


def tlc_behaviours(ctx, name, procs, ro="NoRO", maxsubs=1, rerun="OnlyFalse", outcomes="OkOnly", crash=0, raises=0,
                   lroot="AbsentOrDone", lro="OnlyAbsent", simulate=None, depth=None, seed=None):
    """Behaviours of JobProtocol from TLC (BFS over paths, or -simulate)."""
    cfg = ctx.scratch / f"{name}.cfg"
    ps = ", ".join(f'"{p}"' for p in procs)
    cfg.write_text(f"""SPECIFICATION GSpec
CONSTANTS
  Procs = {{{ps}}}
  ROSeq <- {ro}
  MaxSubs = {maxsubs}
  RerunAllowed <- {rerun}
  BodyOutcomes <- {outcomes}
  CrashBudget = {crash}
  RaiseBudget = {raises}
  LeftoverRoot <- {lroot}
  LeftoverRO <- {lro}
  FirstExistingDirDecides = FALSE
  TryStartsLate = FALSE
INVARIANT Emit
CHECK_DEADLOCK FALSE
""")
    kw = {}
    if simulate:
        kw.update(simulate=f"num={simulate}", depth=depth or 150, seed=seed)
    r = ctx.tlc("MC_JobGen", cfg=cfg, workers=1, timeout=900, **kw)
    behs = r.printed()
    # de-duplicate (simulation may repeat)
    seen, out = set(), []
    for b in behs:
        k = json.dumps(b, sort_keys=True)
        if k not in seen:
            seen.add(k)
            out.append(b)
    return out


def init_kind(d):
    for k, v in DIRS.items():
        if v == {x: d[x] for x in ("ex", "job", "res", "errf")}:
            return k
    raise core.MachineryError(f"unknown dir state {d}")


def collapse_verdicts(recs):
    """TLC may explore several branches for one trace (nondeterministic faults): accepted if any is."""
    acc = [r for r in recs if r["verdict"][0] == "accepted"]
    if acc:
        return acc[0]
    return max(recs, key=lambda r: r["l"])


# ---------------- workflow rerun propagation (RerunProp.tla) ----------------
from pydra.compose import workflow  # noqa: E402


def _nodelog(name):
    side = os.environ.get("VERIF_SIDE")
    if side:
        with open(os.path.join(side, "nodes.log"), "a") as f:
            f.write(name + "\n")


@python.define
def NodeA(x: int) -> int:
    _nodelog("A")
    return x + 1


@python.define
def NodeB(x: int) -> int:
    _nodelog("B")
    return x * 2


@workflow.define
def Wf2(x: int) -> int:
    a = workflow.add(NodeA(x=x), name="a")
    b = workflow.add(NodeB(x=a.out), name="b")
    return b.out


@workflow.define
def Wf1(x: int) -> int:
    n = workflow.add(Work(x=x), name="n")
    return n.out


def run_wf_history(hist, worker="debug"):
    """hist: list of {rerun, prop}; returns per submission: wf body executions, node executions, output."""
    from pydra.engine.submitter import Submitter

    base = tempfile.mkdtemp(prefix="verif_wfh_")
    outfile = os.path.join(base, "out.json")
    pid = os.fork()
    if pid == 0:
        try:
            side = os.path.join(base, "side")
            os.makedirs(side)
            log = os.path.join(base, "events.ndjson")
            os.environ.update({"VERIF_LOG": log, "VERIF_PROC": "p1", "VERIF_SIDE": side})
            for k in ("VERIF_CRASH_AT", "VERIF_RAISE_AT", "VERIF_GATE_DIR"):
                os.environ.pop(k, None)
            handler._fd = None
            res = []
            open(os.path.join(side, "nodes.log"), "w").close()
            open(log, "w").close()
            for st in hist:
                n0 = len(open(os.path.join(side, "nodes.log")).read().split())
                e0 = len(open(log).read().splitlines())
                try:
                    with Submitter(cache_root=os.path.join(base, "cache"), worker=worker,
                                   propagate_rerun=st["prop"]) as sub:
                        r = sub(Wf2(x=3), rerun=st["rerun"])
                    out = r.outputs.out
                    err = None
                except Exception as e:  # noqa
                    out, err = None, f"{type(e).__name__}: {e}"
                nodes = open(os.path.join(side, "nodes.log")).read().split()[n0:]
                evs = [json.loads(l) for l in open(log).read().splitlines()[e0:]]
                wf_bodies = sum(1 for e in evs if e["a"] == "body_start" and e.get("job") == "main")
                node_reruns = [e.get("rerun") for e in evs if e["a"] == "pre_run" and e.get("job") in ("a", "b")]
                res.append({"wf": wf_bodies, "nodes": nodes, "out": out, "err": err, "node_rerun_flags": node_reruns})
            json.dump(res, open(outfile, "w"))
        finally:
            os._exit(0)
    try:
        o = wait_child(pid, outfile, 120)
        return o
    finally:
        shutil.rmtree(base, ignore_errors=True)


def execute_robust(spec):
    """execute(); a time-out (possibly an overloaded machine) is retried once, alone, with 4x the time."""
    o = execute(spec)
    timed_out = any(x.get("status") in ("timeout", "killed-by-controller") for x in o["outs"]) or \
        (o["problem"] and o["problem"].get("got") == "timeout")
    if timed_out:
        s2 = dict(spec)
        s2["timeout"] = 4 * spec.get("timeout", 60 if spec["kind"] != "replay" else 20)
        o = execute(s2)
        o["retried"] = True
    return o
