"""Parent interpreter for C29: build a job, project, cloudpickle, ship to a fresh interpreter, read back."""
import json
import os
import subprocess
import sys
import tempfile

import cloudpickle as cp

if __name__ == "__main__":
    from harness import core, wf_common as wc
    from harness.props.C29 import project, plain, build_task, outputs_of
    from pydra.engine.submitter import Submitter
    from pydra.engine.job import Job
    from pydra.utils.messenger import AuditFlag

    cases = json.load(open(sys.argv[1]))
    results = []
    for c in cases:
        base = tempfile.mkdtemp(prefix="verif_ship_")
        rec = {"ev": []}
        try:
            sys.path.insert(0, base)
            cfg = c["cfg"]
            ro = []
            for i in range(cfg.get("n_ro", 0)):
                d = os.path.join(base, f"ro{i}")
                os.makedirs(d)
                ro.append(d)
            from harness.props.C29 import make_submitter

            def mk_sub(root):
                return make_submitter(cfg, root, ro)
            task = build_task(c["task"], base)
            # reference: the same job, never shipped
            runnable = cfg.get("runnable", True)
            ref = None
            if runnable:
                with mk_sub(os.path.join(base, "ref")) as sub:
                    ref = sub(build_task(c["task"], base), raise_errors=False)
            rec["ev"].append({"a": "Project", "where": "parent", "p": None})
            sub = mk_sub(os.path.join(base, "cache"))
            job = Job(task, submitter=sub, name="main")
            p0 = project(job)
            rec["ev"][0]["p"] = p0
            pkl = os.path.join(base, "job.pkl")
            with open(pkl, "wb") as f:
                cp.dump(job, f)
            rec["ev"].append({"a": "Ship", "where": "parent", "p": "", "out": ""})
            outp = os.path.join(base, "child.json")
            pr = subprocess.run([core.PY, "-m", "harness.ship_child", pkl, outp, base, "run" if runnable else "ship-only"], env=core.child_env(hooks=True),
                                capture_output=True, text=True, timeout=600)
            if not os.path.exists(outp):
                rec["machinery"] = pr.stderr[-600:]
            else:
                ch = json.load(open(outp))
                rec["ev"].append({"a": "Project", "where": "child", "p": ch["proj"], "out": ""})
                if "err" in ch:
                    rec["child_err"] = ch["err"]
                if not runnable:
                    rec["ev"].append({"a": "Ship", "where": "child", "p": "", "out": ""})
                    rec["ev"].append({"a": "Project", "where": "parent", "p": project(job), "out": ""})
                    results.append(rec)
                    continue
                rec["ev"].append({"a": "Run", "where": "child", "p": "", "out": json.dumps(ch.get("out"), sort_keys=True)})
                rec["ev"].append({"a": "Ship", "where": "child", "p": "", "out": ""})
                r = job.result()
                back = plain(outputs_of(r)) if r is not None and r.outputs is not None else None
                rec["ev"].append({"a": "ReadBack", "where": "parent", "p": "", "out": json.dumps(back, sort_keys=True)})
                rec["ev"].append({"a": "Reference", "where": "parent", "p": "", "out": json.dumps(plain(outputs_of(ref)) if ref.outputs is not None else None, sort_keys=True)})
                rec["ev"].append({"a": "Project", "where": "parent", "p": project(job), "out": ""})
        except BaseException as e:  # noqa
            import traceback
            rec["machinery"] = traceback.format_exc()[-800:]
        finally:
            import shutil
            shutil.rmtree(base, ignore_errors=True)
        results.append(rec)
    json.dump(results, open(sys.argv[2], "w"), default=str)
