# Fake batch scheduler for property C28 (sourced by sbatch/squeue/sacct/scontrol/qsub/qstat/qacct).
# Pure POSIX sh (builtins only, so an invocation costs a fork, not an interpreter start).
#
# Control directory $VERIF_BATCH_CTL, written by the driver (harness/batch_common.py):
#   sub      accepted | submiterror           answer to the first submission
#   script   one scheduler response per line  (the TLC behaviour's response sequence)
# State kept here: i (poll round), nsub, jobid, batch (submitted script), out, err.
# Log: log.tsv, one line per invocation:  cmd <TAB> i <TAB> response <TAB> jobid_ok <TAB> nsub <TAB> argv (US-separated)
#
# A poll of the queue (squeue/qstat) starts a new round and consumes one response; the
# accounting command (sacct/qacct) answers for the current round.  On "completed" the
# submitted batch script is really executed (so the result file exists), otherwise not.
ctl=$VERIF_BATCH_CTL
[ -d "$ctl" ] || { echo "fake scheduler: no control directory" >&2; exit 97; }
US=''

# helpers set variables instead of printing (no sub-shells: a fork is expensive on a busy machine)
getf() { v=$2; if [ -f "$ctl/$1" ]; then IFS= read -r v < "$ctl/$1" || true; fi; }   # -> v
putf() { printf '%s\n' "$2" > "$ctl/$1"; }
logline() {  # cmd i r jobid_ok nsub args...
  _c=$1; _i=$2; _r=$3; _ok=$4; _n=$5; shift 5
  _a=""; for _x in "$@"; do _a="$_a$_x$US"; done
  printf '%s\t%s\t%s\t%s\t%s\t%s\n' "$_c" "$_i" "$_r" "$_ok" "$_n" "$_a" >> "$ctl/log.tsv"
}
response() {  # response of round $1 -> r ; number of responses -> nresp
  nresp=0; r=overrun
  [ "$1" -eq 0 ] && r=pending
  while IFS= read -r _line; do nresp=$((nresp+1)); [ "$nresp" -eq "$1" ] && r=$_line; done < "$ctl/script"
}
jobid_arg() {  # value following -j -> asked
  asked=""; _p=""; for _x in "$@"; do [ "$_p" = "-j" ] && [ -z "$asked" ] && asked=$_x; _p=$_x; done
}
subst_j() {  # replace %j in $1 by $2 -> sj
  _s=$1; sj=""
  while :; do case $_s in *%j*) sj="$sj${_s%%\%j*}$2"; _s=${_s#*%j};; *) break;; esac; done
  sj="$sj$_s"
}
usable() { case $1 in "") return 1;; */*) [ -d "${1%/*}" ];; *) return 0;; esac; }

submit() {  # kind args...
  kind=$1; shift
  getf nsub 0; nsub=$((v + 1)); putf nsub "$nsub"
  getf i 0; i=$v
  getf sub accepted
  if [ "$v" = submiterror ] && [ "$nsub" -eq 1 ]; then
    logline "$cmd" "$i" submiterror 1 "$nsub" "$@"
    if [ "$kind" = slurm ]; then echo "sbatch: error: Batch job submission failed: Invalid partition name specified" >&2
    else echo "Unable to run job: Job was rejected because job requests unknown queue \"nope\"." >&2; echo "Exiting." >&2; fi
    exit 1
  fi
  jobid=$((4241 + nsub)); putf jobid "$jobid"
  out=""; err=""; name=job; prev=""; last=""
  for a in "$@"; do
    case $prev in
      -o|--output) out=$a;; -e|--error) err=$a;; -N|-J|--job-name) name=$a;;
    esac
    case $a in
      --output=*) out=${a#--output=};; --error=*) err=${a#--error=};; --job-name=*) name=${a#--job-name=};;
      -o?*) out=${a#-o};; -e?*) err=${a#-e};;
    esac
    prev=$a; last=$a
  done
  putf batch "$last"; putf out "$out"; putf err "$err"
  logline "$cmd" "$i" accepted 1 "$nsub" "$@"
  if [ "$kind" = slurm ]; then echo "Submitted batch job $jobid"
  else echo "Your job-array $jobid.1-1:1 (\"$name\") has been submitted"; fi
  exit 0
}

job_runs() {  # ok|fail : what happens on the compute node between two polls
  getf jobid; jobid=$v
  getf out; subst_j "$v" "$jobid"; o=$sj
  getf err; subst_j "$v" "$jobid"; e=$sj
  usable "$o" || o=/dev/null; usable "$e" || e=/dev/null
  if [ "$1" = ok ]; then
    getf batch
    SGE_TASK_ID=1 SLURM_JOB_ID=$jobid /bin/sh "$v" > "$o" 2>> "$e" < /dev/null
  else
    { echo "/bin/sh: line 2: 31337 Killed"; echo "slurmstepd: error: Detected 1 oom_kill event in StepId=$jobid.batch."; } > "$e"
  fi
}

poll() {  # args... ; sets r (response of the new round) or r=wrongid, and asked
  jobid_arg "$@"
  getf nsub 0; nsub=$v
  getf i 0; i=$v
  getf jobid none
  if [ "$asked" != "$v" ]; then r=wrongid; logline "$cmd" "$i" wrongid 0 "$nsub" "$@"; return; fi
  i=$((i + 1)); putf i "$i"
  response "$i"
  logline "$cmd" "$i" "$r" 1 "$nsub" "$@"
  if [ "$r" = overrun ] && [ "$i" -gt $((nresp + 3)) ]; then sleep 1; fi  # a worker polling for ever must not melt the machine
  case $r in
    completed) job_runs ok;;
    overrun) [ "$i" -eq $((nresp + 1)) ] && job_runs ok;;   # the pad answer: the job completes once more
    failed*) job_runs fail;;
  esac
}

acct() {  # args... ; sets r (response of the current round) or acctmissing for a foreign id
  jobid_arg "$@"
  getf nsub 0; nsub=$v
  getf i 0; i=$v
  getf jobid none
  if [ "$asked" != "$v" ]; then r=acctmissing; ok=0; else response "$i"; ok=1; fi
  logline "$cmd" "$i" "$r" "$ok" "$nsub" "$@"
}

case $cmd in
  sbatch) submit slurm "$@";;
  qsub)   submit sge "$@";;
  squeue)
    poll "$@"
    case $r in
      pending) printf '%18s %9s %8s %8s %2s %10s %6s %s\n' "$asked" debug main verif PD 0:00 1 "(Priority)";;
      running) printf '%18s %9s %8s %8s %2s %10s %6s %s\n' "$asked" debug main verif R 0:01 1 node1;;
      *) # a finished job is listed for a while (nothing printed with -h -j), later it is unknown
         if [ $((i % 2)) -eq 1 ]; then exit 0; fi
         echo "slurm_load_jobs error: Invalid job id specified" >&2; exit 1;;
    esac;;
  sacct)
    acct "$@"
    case $r in
      completed|noresult|overrun) s="COMPLETED 0:0";; failed1) s="FAILED 1:0";; failed137) s="FAILED 137:0";;
      cancelled) s="CANCELLED+ 0:0";; timeout) s="TIMEOUT 0:0";; preempted) s="PREEMPTED 0:0";;
      acctrunning|running) s="RUNNING 0:0";; pending) s="PENDING 0:0";; *) exit 0;;
    esac
    printf '%-12s %10s %8s \n' "$asked" ${s% *} ${s#* };;
  scontrol)
    getf jobid none
    ok=0; [ "$1" = requeue ] && [ "$2" = "$v" ] && ok=1
    getf i 0; i=$v; getf nsub 0
    logline "$cmd" "$i" - "$ok" "$v" "$@";;
  qstat)
    poll "$@"
    case $r in
      pending|running)
        echo "=============================================================="
        echo "job_number:                 $asked"; echo "owner:                      verif"
        echo "job-array tasks:            1-1:1";;
      *) echo "Following jobs do not exist or permissions are not sufficient: " >&2; echo "$asked" >&2; exit 1;;
    esac;;
  qacct)
    acct "$@"
    case $r in
      completed|noresult|overrun) f="0    "; x=0;; failed1) f="0    "; x=1;; failed137) f="0    "; x=137;;
      evicted) f="37  : qmaster enforced h_rt, h_cpu, or h_vmem limit"; x=137;;
      *) echo "error: job id $asked not found" >&2; exit 1;;
    esac
    echo "=============================================================="
    echo "qname        all.q               "; echo "hostname     node1"; echo "owner        verif"
    echo "jobnumber    $asked"; echo "taskid       1"; echo "failed       $f"; echo "exit_status  $x";;
  *) echo "fake scheduler: unknown command $cmd" >&2; exit 98;;
esac
exit 0
