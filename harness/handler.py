"""Handler for pydra.engine._verif.point(): log / gate / crash / raise.

Configured only through environment variables so that it works unchanged in child
interpreters and process-pool workers:

VERIF_LOG         ndjson event log (one O_APPEND write per event)
VERIF_PROC        label of this process in the log (default: pid)
VERIF_TID         trace id
VERIF_CRASH_AT    "point" or "point:n" -> os._exit(137) at the n-th occurrence (n default 1)
VERIF_RAISE_AT    same syntax -> raise InjectedError
VERIF_FAULT_JOB   only count occurrences whose job name equals this (optional)
VERIF_GATE_DIR    directory for announce/grant files; VERIF_GATE_POINTS = comma list of gated
                  point names.  At a gated point the process writes <proc>.<k>.at (content:
                  point name) and blocks until <proc>.<k>.go exists (k counts gated points).
"""
import json
import os
import time

_seq = 0
_counts = {}
_gate_k = 0
_fd = None


class InjectedError(Exception):
    pass


def _proc():
    return os.environ.get("VERIF_PROC") or str(os.getpid())


def _kind(result):
    if result is None:
        return "none"
    return "err" if getattr(result, "errored", False) else "ok"


def emit(rec):
    global _fd
    path = os.environ.get("VERIF_LOG")
    if not path:
        return
    if _fd is None or _fd[0] != (path, os.getpid()):
        _fd = ((path, os.getpid()), os.open(path, os.O_WRONLY | os.O_APPEND | os.O_CREAT, 0o644))
    os.write(_fd[1], (json.dumps(rec, default=str) + "\n").encode())


def _parse(spec):
    if not spec:
        return None, 0
    if ":" in spec:
        p, n = spec.rsplit(":", 1)
        return p, int(n)
    return spec, 1


_CFG_KEYS = ("VERIF_LOG", "VERIF_CRASH_AT", "VERIF_RAISE_AT", "VERIF_GATE_DIR", "VERIF_SLEEP_AT")


_job_dirs = {}


def handle(name, fields):
    global _seq, _gate_k
    if not any(os.environ.get(k) for k in _CFG_KEYS):
        return
    _seq += 1
    job = fields.get("job")
    jname = getattr(job, "name", None)
    # the points inside result.save() / record_error() carry the job directory only: name the job through the
    # directories seen so far, so that a fault aimed at one job (VERIF_FAULT_JOB) is not taken by a nested job's save
    try:
        if job is not None:
            _job_dirs[str(job.cache_dir)] = jname
        elif "path" in fields:
            pth = str(fields["path"])
            jname = _job_dirs.get(pth) or _job_dirs.get(os.path.dirname(pth))
    except Exception:
        pass
    rec = {"t": os.environ.get("VERIF_TID", ""), "p": _proc(), "pid": os.getpid(), "q": _seq, "a": name}
    if job is not None:
        rec["job"] = jname
        try:
            rec["uid"] = job.uid
            rec["ck"] = job.cache_dir.name
        except Exception:
            pass
    if job is not None:
        rec["si"] = (job.state_index + 1) if getattr(job, "state_index", None) is not None else 1
    if name in ("audit_started", "audit_finalized") and job is not None:
        try:
            rec["aid"] = getattr(job.audit, "aid", None)
        except Exception:
            rec["aid"] = None
    if "tasks" in fields:
        rec["tasks"] = [[t.name, (t.state_index + 1) if t.state_index is not None else 1] for t in fields["tasks"]]
    if "result" in fields:
        rec["res"] = _kind(fields["result"])
    for k in ("why", "errored", "rerun"):
        if k in fields:
            rec[k] = fields[k]
    if "path" in fields:
        rec["path"] = os.path.basename(str(fields["path"]))
    if job is not None:
        try:
            d = job.cache_dir
            r = d / "_result.pklz"
            rec["fs"] = {
                "ex": d.exists(),
                "res": ("none" if not r.exists() else ("empty" if r.stat().st_size == 0 else "some")),
                "info": (job.cache_root / f"{job.uid}_info.json").exists(),
                "injob": os.path.realpath(os.getcwd()) == os.path.realpath(str(d)),
                "lock": job.lockfile.exists(),
            }
        except Exception as e:  # noqa
            rec["fs_err"] = repr(e)
    emit(rec)
    # fault injection
    fault_job = os.environ.get("VERIF_FAULT_JOB")
    if not fault_job or fault_job == jname or (job is None and jname is None):
        key = name
        _counts[key] = _counts.get(key, 0) + 1
        p, n = _parse(os.environ.get("VERIF_CRASH_AT"))
        if p == name and _counts[key] == n:
            emit({"t": rec["t"], "p": rec["p"], "pid": rec["pid"], "q": _seq, "a": "CRASH", "at": name})
            os._exit(137)
        p, n = _parse(os.environ.get("VERIF_RAISE_AT"))
        if p == name and _counts[key] == n:
            emit({"t": rec["t"], "p": rec["p"], "pid": rec["pid"], "q": _seq, "a": "RAISE", "at": name})
            raise InjectedError(f"injected at {name}")
    # slow motion: VERIF_SLEEP_AT="point:seconds" (widens race windows in free-running runs)
    sl = os.environ.get("VERIF_SLEEP_AT")
    if sl and sl.split(":")[0] == name and (not fault_job or fault_job == jname):
        time.sleep(float(sl.split(":")[1]))
    # gating
    gdir = os.environ.get("VERIF_GATE_DIR")
    if gdir and name in os.environ.get("VERIF_GATE_POINTS", "").split(","):
        _gate_k += 1
        base = os.path.join(gdir, f"{_proc()}.{_gate_k}")
        with open(base + ".at.tmp", "w") as f:
            f.write(name)
        os.rename(base + ".at.tmp", base + ".at")
        deadline = time.time() + float(os.environ.get("VERIF_GATE_TIMEOUT", "60"))
        while not os.path.exists(base + ".go"):
            if time.time() > deadline:
                emit({"t": rec["t"], "p": rec["p"], "pid": rec["pid"], "q": _seq, "a": "GATE_TIMEOUT", "at": name})
                os._exit(99)
            time.sleep(0.002)
