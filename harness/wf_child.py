"""Child interpreter: run a batch of (workflow record, worker configuration) cases (C17, C29)."""
import json
import os
import sys

if __name__ == "__main__":
    from harness import wf_common as wc

    batch = json.load(open(sys.argv[1]))
    res = []
    for item in batch:
        cfg = item["cfg"]
        if cfg.get("delay_seed") is not None:
            os.environ["VERIF_DELAY_SEED"] = str(cfg["delay_seed"])
        else:
            os.environ.pop("VERIF_DELAY_SEED", None)
        res.append(wc.run_wf(item["wf"], worker=cfg["worker"], n_procs=cfg.get("n_procs"), max_concurrent=cfg.get("max_concurrent")))
    json.dump(res, open(sys.argv[2], "w"))
