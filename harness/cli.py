import argparse
import importlib
import json
import os
import sys
import traceback

import atexit
import shutil
import tempfile

if "PYDRA_HASH_CACHE" not in os.environ:      # private persistent hash cache (the per-user one is scanned on every run)
    _hc = tempfile.mkdtemp(prefix="verif_hashcache_")
    os.environ["PYDRA_HASH_CACHE"] = _hc
    atexit.register(shutil.rmtree, _hc, True)

from harness import core


def main():
    ap = argparse.ArgumentParser()
    ap.add_argument("prop", nargs="?")
    ap.add_argument("--tier", default=os.environ.get("VERIF_TIER", "quick"), choices=["quick", "thorough"])
    ap.add_argument("--replay")
    ap.add_argument("--setup", action="store_true")
    ap.add_argument("--selftest", action="store_true")
    a = ap.parse_args()
    seed = int(os.environ.get("VERIF_SEED", "0") or 0)
    if a.setup or a.selftest:
        from harness import setup
        sys.exit(setup.main(selftest=a.selftest))
    try:
        core.assert_repo_import()
        mod = importlib.import_module(f"harness.props.{a.prop}")
        ctx = core.Ctx(a.prop, a.tier, seed, level=getattr(mod, "LEVEL", "model_checking"))
        if a.replay:
            rec = json.load(open(a.replay))
            mod.replay(ctx, rec)
        else:
            mod.run(ctx)
        sys.exit(ctx.finish())
    except core.MachineryError as e:
        print(f"MACHINERY-FAILURE property={a.prop}: {e}", file=sys.stderr)
        sys.exit(2)
    except Exception:
        traceback.print_exc()
        print(f"MACHINERY-FAILURE property={a.prop}: unexpected exception", file=sys.stderr)
        sys.exit(2)


if __name__ == "__main__":
    main()
