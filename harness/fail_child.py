"""Child interpreter for C13: histories of a failing shell command / of a workflow with a failing node.

usage: fail_child.py <out.json> shell <kind>            kind: exit1 | exit3 | sig9 | sig15
       fail_child.py <out.json> wf <worker> <max_concurrent|0>
History: submission 1 while the cause of the failure is present, then the cause is removed, submissions 2 and 3.
The command / node body appends one character to a counter file per execution."""
import json
import os
import sys
import tempfile


def shell_history(kind):
    from pydra.compose import shell
    from pydra.engine.submitter import Submitter
    base = tempfile.mkdtemp(prefix="verif_fail_")
    flag, count = os.path.join(base, "flag"), os.path.join(base, "count")
    how = {"exit1": "exit 1", "exit3": "exit 3", "sig9": "kill -9 $$", "sig15": "kill -15 $$"}[kind]
    script = os.path.join(base, "cmd.sh")
    with open(script, "w") as f:
        f.write(f"printf x >> {count}\nif [ ! -e {flag} ]; then {how}; fi\necho done-$1\n")
    T = shell.define("sh <script:str> <word:str>")
    res = []
    for k in range(3):
        n0 = os.path.getsize(count) if os.path.exists(count) else 0
        try:
            with Submitter(cache_root=os.path.join(base, "cache"), worker="debug") as sub:
                r = sub(T(script=script, word="w"), raise_errors=False)
            rec = {"status": "failed" if r.errored else "ok",
                   "stdout": None if r.errored else r.outputs.stdout.strip(),
                   "return_code": None if r.errored else r.outputs.return_code,
                   "error": " ".join(r.errors.get("error message", []))[-300:] if r.errored and r.errors else None}
        except Exception as e:  # noqa
            rec = {"status": "raised", "error": f"{type(e).__name__}: {str(e)[:300]}"}
        rec["executions"] = (os.path.getsize(count) if os.path.exists(count) else 0) - n0
        res.append(rec)
        open(flag, "w").close()
    return res


def wf_history(worker, mc):
    from pydra.engine.submitter import Submitter
    base = tempfile.mkdtemp(prefix="verif_failwf_")
    sys.path.insert(0, base)
    with open(os.path.join(base, "failwf_defs.py"), "w") as f:
        f.write('''import os
from pydra.compose import python, workflow


@python.define
def A(x: int) -> int:
    return x + 1


@python.define
def B(x: int, flag: str) -> int:
    with open(flag + ".count", "a") as f:
        f.write("x")
    if not os.path.exists(flag):
        raise ValueError("B fails until the flag exists")
    return x * 10


@workflow.define(outputs=["a", "b"])
def W(x: int, flag: str):
    a = workflow.add(A(x=x), name="a")
    b = workflow.add(B(x=x, flag=flag), name="b")
    return a.out, b.out
''')
    import failwf_defs as d
    flag = os.path.join(base, "flag")
    count = flag + ".count"
    res = []
    for k in range(3):
        n0 = os.path.getsize(count) if os.path.exists(count) else 0
        kw = {"max_concurrent": mc} if mc else {}
        if worker == "cf":
            kw["n_procs"] = 2
        try:
            with Submitter(cache_root=os.path.join(base, "cache"), worker=worker, **kw) as sub:
                r = sub(d.W(x=1, flag=flag), raise_errors=False)
            rec = {"status": "failed" if r.errored else "ok", "outputs": None if r.errored else [r.outputs.a, r.outputs.b]}
        except Exception as e:  # noqa
            rec = {"status": "raised", "error": f"{type(e).__name__}: {str(e)[:300]}"}
        rec["executions"] = (os.path.getsize(count) if os.path.exists(count) else 0) - n0
        res.append(rec)
        open(flag, "w").close()
    return res


if __name__ == "__main__":
    out = sys.argv[1]
    if sys.argv[2] == "shell":
        res = shell_history(sys.argv[3])
    else:
        res = wf_history(sys.argv[3], int(sys.argv[4]))
    json.dump(res, open(out, "w"))
