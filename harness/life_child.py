"""Child interpreter for C35 (asynchronous path): run a workflow task with the cf worker three times
(execute, cache hit, failing node) and report the end state of process and cache directory after each call."""
import json
import os
import sys

if __name__ == "__main__":
    base, worker = sys.argv[1], sys.argv[2]
    side = os.path.join(base, "side")
    os.makedirs(side, exist_ok=True)
    os.environ.update({"VERIF_SIDE": side, "VERIF_LOG": os.path.join(base, "events.ndjson"), "VERIF_PROC": "p1"})
    from harness import job_common as jc

    res = []
    home = os.getcwd()
    for step, (mode, x) in enumerate([("ok", 1), ("ok", 1), ("raise", 2)]):
        open(os.path.join(side, "mode"), "w").write(mode)
        root = os.path.join(base, "cache")
        rec = {"step": step, "mode": mode}
        try:
            kw = {"n_procs": 2} if worker == "cf" else {}
            jc.Wf1(x=x)(cache_root=root, worker=worker, **kw)
            rec["status"] = "ok"
        except BaseException as e:  # noqa
            rec["status"] = "raised"
            rec["error"] = f"{type(e).__name__}: {str(e)[:120]}"
        rec["cwd_restored"] = os.path.realpath(os.getcwd()) == os.path.realpath(home)
        rec["cwd"] = os.getcwd()
        os.chdir(home)
        rec["info_files"] = sorted(f for f in os.listdir(root) if f.endswith("_info.json"))
        rec["locks"] = sorted(f for f in os.listdir(root) if f.endswith(".lock"))
        dirs = {}
        for d in os.listdir(root):
            p = os.path.join(root, d)
            if os.path.isdir(p) and (d.startswith("workflow-") or d.startswith("python-")):
                dirs[d] = {"job": os.path.exists(os.path.join(p, "_job.pklz")),
                           "res": os.path.exists(os.path.join(p, "_result.pklz")) and os.path.getsize(os.path.join(p, "_result.pklz")) > 0}
        rec["dirs"] = dirs
        res.append(rec)
    json.dump(res, open(os.path.join(base, "out.json"), "w"))
