"""Child interpreter for C10: one submitter of a SLOW workflow under the asynchronous (cf) worker.
usage: slowwf_child.py <shared dir> <name> <node seconds>
The workflow job is locked with the asynchronous PydraFileLock (Job.run_async); a second submitter has to wait for the
first one's whole run.  Appends 'wf <name>' / 'node <name>' to <shared>/bodies.log per workflow-body / node-body execution."""
import json
import os
import sys

if __name__ == "__main__":
    shared, name, secs = sys.argv[1], sys.argv[2], float(sys.argv[3])
    sys.path.insert(0, shared)
    defs = os.path.join(shared, "slowwf_defs.py")
    if not os.path.exists(defs):
        tmp = defs + f".{os.getpid()}"
        with open(tmp, "w") as f:
            f.write('''import os, time
from pydra.compose import python, workflow


@python.define
def Slow(x: int, secs: float, log: str) -> int:
    with open(log, "a") as f:
        f.write("node\\n")
    time.sleep(secs)
    return x + 1


@workflow.define
def SlowWf(x: int, secs: float, log: str) -> int:
    n = workflow.add(Slow(x=x, secs=secs, log=log), name="n")
    return n.out
''')
        os.replace(tmp, defs)
    import slowwf_defs as d
    from pydra.engine.hooks import TaskHooks
    log = os.path.join(shared, "bodies.log")

    def pre_run_task(job, *a, **k):
        if job.name == "main":
            with open(log, "a") as f:
                f.write(f"wf {name}\n")
    out = {"name": name}
    try:
        outs = d.SlowWf(x=1, secs=secs, log=log)(cache_root=os.path.join(shared, "cache"), worker="cf", n_procs=2,
                                                 hooks=TaskHooks(pre_run_task=pre_run_task))
        out.update(status="ok", out=outs.out)
    except BaseException as e:  # noqa
        out.update(status="raised", error=f"{type(e).__name__}: {str(e)[:300]}")
    json.dump(out, open(os.path.join(shared, f"out_{name}.json"), "w"))
