"""Core of the verification harness: TLC runner, check context, evidence, findings.

Every property driver (harness/props/Cnn.py) gets a `Ctx`, asks TLC for cases /
behaviours / trace verdicts through `ctx.tlc(...)`, replays them on the real pydra
(imported from /repo) and reports through `ctx.violation` / `ctx.known`.
Exit codes: 0 held (possibly with KNOWN-FINDING lines), 1 violation, 2 machinery failure.
"""
from __future__ import annotations

import atexit
import hashlib
import json
import os
import random
import re
import shutil
import subprocess
import sys
import tempfile
import time
from pathlib import Path

ROOT = Path(__file__).resolve().parent.parent
SPECS = ROOT / "specs"
EVIDENCE = Path(os.environ.get("VERIF_EVIDENCE_DIR") or (ROOT / "evidence"))   # redirected when a scratch copy is checked
REPLAYS = Path(os.environ.get("VERIF_REPLAYS_DIR") or (ROOT / "replays"))
KNOWN_FILE = ROOT / "known_findings.json"
REPO = Path(os.environ.get("VERIF_REPO", "/repo"))
TLA_JAR = "/opt/veriftools/tla/tla2tools.jar:/opt/veriftools/tla/CommunityModules-deps.jar"
PY = "/venv/bin/python"


class MachineryError(Exception):
    """Something in the checking machinery (not pydra) failed: exit code 2."""


def assert_repo_import():
    import pydra.engine.job as j

    if not j.__file__.startswith(str(REPO)):
        raise MachineryError(f"pydra imported from {j.__file__}, not {REPO}")


def child_env(extra=None, hooks=False):
    env = dict(os.environ)
    env["PYTHONPATH"] = f"{REPO}:{ROOT}"
    env.setdefault("PYTHONHASHSEED", "0")
    env["NO_ET"] = "1"
    if hooks:
        env["NIPYPE_PYDRA_VERIF"] = "1"
        env.setdefault("NIPYPE_PYDRA_VERIF_HANDLER", "harness.handler")
    if extra:
        env.update({k: str(v) for k, v in extra.items()})
    return env


class TLCResult:
    def __init__(self, rc, out, wall):
        self.rc = rc
        self.out = out
        self.wall = wall
        self.generated = 0
        self.distinct = 0
        m = re.findall(r"(\d+) states generated, (\d+) distinct states found", out)
        if m:
            self.generated, self.distinct = int(m[-1][0]), int(m[-1][1])
        else:
            m = re.findall(r"(\d+) states checked", out)  # simulation mode
            if m:
                self.generated = self.distinct = int(m[-1])
        self.invariant_violated = re.findall(r"Invariant (\S+) is violated", out)
        self.property_violated = re.findall(r"(?:Temporal properties were violated|Action property (\S+) is violated)", out)
        self.error = ("Error:" in out) and not self.invariant_violated and not self.property_violated
        self.ok = "Model checking completed. No error has been found" in out or (
            rc == 0 and not self.error
        )

    def printed(self):
        """JSON objects emitted with PrintT(ToJson(..)) (one per line)."""
        res = []
        for line in self.out.splitlines():
            if line.startswith('"{') or line.startswith('"['):
                try:
                    res.append(json.loads(json.loads(line)))
                except Exception:
                    raise MachineryError("unparsable PrintT line: " + line[:200])
        return res

    def tuples(self, tag):
        """Lines of the form <<"TAG", ...>> printed by PrintT; returns raw strings."""
        return [l for l in self.out.splitlines() if l.startswith('<<"' + tag + '"')]

    def coverage(self):
        """action name -> (distinct, total) from -coverage output."""
        cov = {}
        for m in re.finditer(r"<(\w+) line \d+, col \d+ to line \d+, col \d+ of module (\w+)>: (\d+):(\d+)", self.out):
            cov[m.group(1)] = (int(m.group(3)), int(m.group(4)))
        return cov

    def trace(self):
        """counterexample states as text blocks."""
        return re.findall(r"State \d+: <[^>]*>\n(.*?)(?=\n\n|\Z)", self.out, re.S)


def run_tlc(module, cfg=None, workers=16, simulate=None, depth=None, seed=None, env=None,
            timeout=900, coverage=False, deque=False, cwd=None, extra=(), metadir=None,
            deadlock=None):
    """Run TLC on specs/<module>.tla with specs/<cfg>. Returns TLCResult."""
    cwd = Path(cwd or SPECS)
    own_meta = metadir is None
    metadir = metadir or tempfile.mkdtemp(prefix="tlcmeta_")
    cmd = ["java", "-XX:+UseSerialGC", "-Xmx3g"] if str(workers) == "1" else ["java", "-XX:+UseParallelGC", "-Xmx8g"]
    if deque:
        cmd.append("-Dtlc2.tool.queue.IStateQueue=StateDeque")
    cmd.append(f"-Djava.io.tmpdir={metadir}")     # TLC's own tlc-* scratch dirs go with the metadir
    cmd += ["-cp", TLA_JAR, "tlc2.TLC", "-workers", str(workers), "-metadir", metadir,
            "-noGenerateSpecTE"]
    if cfg:
        cmd += ["-config", str(cfg)]
    if simulate:
        cmd += ["-simulate", simulate]
    if depth:
        cmd += ["-depth", str(depth)]
    if seed is not None:
        cmd += ["-seed", str(seed)]
    if coverage:
        cmd += ["-coverage", "1"]
    if deadlock is False:
        cmd += ["-deadlock"]
    cmd += list(extra)
    cmd.append(str(module))
    e = dict(os.environ)
    e.pop("JAVA_TOOL_OPTIONS", None)
    if env:
        e.update({k: str(v) for k, v in env.items()})
    t0 = time.time()
    try:
        p = subprocess.run(cmd, cwd=cwd, env=e, capture_output=True, text=True, timeout=timeout)
        out, rc = p.stdout + p.stderr, p.returncode
    except subprocess.TimeoutExpired as ex:
        out = (ex.stdout or b"").decode(errors="replace") if isinstance(ex.stdout, bytes) else (ex.stdout or "")
        out += "\nTLC TIMEOUT"
        rc = 124
    finally:
        if own_meta:
            shutil.rmtree(metadir, ignore_errors=True)
    return TLCResult(rc, out, time.time() - t0)


def load_known():
    if KNOWN_FILE.exists():
        return json.loads(KNOWN_FILE.read_text())
    return []


class Ctx:
    def __init__(self, prop, tier="quick", seed=0, level="model_checking"):
        self.prop = prop
        self.tier = tier
        self.seed = seed
        self.level = level
        self.rng = random.Random(seed)
        self.t0 = time.time()
        self.states = 0
        self.transitions = 0
        self.evaluations = 0
        self.validated = 0
        self.nontrivial = set()
        self.nontrivial_extra = 0
        self.samples = []
        self.violations = []
        self.known_hits = {}
        self.observations = {}
        self.assumptions = []
        self.extra = {}
        self.rule = ""
        self.exhaustive = False
        self.tlc_runs = []
        self.known = {e["id"]: e for e in load_known() if e["property"] == prop}
        self.scratch = Path(tempfile.mkdtemp(prefix=f"verif_{prop}_"))
        atexit.register(shutil.rmtree, str(self.scratch), True)
        # every temporary directory of this run (this process, forked pool workers, child interpreters) lives under
        # the scratch directory, so whatever a killed worker leaves behind goes away with it
        tmp = self.scratch / "tmp"
        tmp.mkdir(exist_ok=True)
        os.environ["TMPDIR"] = str(tmp)
        tempfile.tempdir = str(tmp)

    @property
    def thorough(self):
        return self.tier == "thorough"

    # ---- TLC ----
    def tlc(self, module, cfg=None, must_pass=True, **kw):
        mod = module if str(module).endswith(".tla") else f"{module}.tla"
        r = run_tlc(mod, cfg=cfg, **kw)
        if must_pass and not r.ok:
            # TLC is deterministic: a genuine error reproduces; a JVM casualty of a loaded machine does not
            self.extra["tlc_retries"] = self.extra.get("tlc_retries", 0) + 1
            self.extra.setdefault("tlc_retry_tails", []).append("\n".join(r.out.splitlines()[-5:])[-400:])
            r = run_tlc(mod, cfg=cfg, **kw)
        self.states += r.distinct
        self.transitions += r.generated
        self.tlc_runs.append({"module": str(module), "cfg": str(cfg), "distinct": r.distinct,
                              "generated": r.generated, "wall_s": round(r.wall, 1)})
        if must_pass and not r.ok:
            tail = "\n".join(r.out.splitlines()[-40:])
            raise MachineryError(f"TLC failed on {module} {cfg}:\n{tail}")
        return r

    def require_coverage(self, r, actions):
        cov = r.coverage()
        missing = [a for a in actions if cov.get(a, (0, 0))[1] == 0]
        if missing:
            raise MachineryError(f"vacuity: actions never taken: {missing}")
        self.extra.setdefault("action_coverage", {}).update({a: cov[a][1] for a in actions})

    # ---- accounting ----
    def ran(self, n=1, validated=True):
        self.evaluations += n
        if validated:
            self.validated += n

    def nontriv(self, key):
        self.nontrivial.add(key if isinstance(key, (str, int, tuple)) else json.dumps(key, sort_keys=True, default=str))

    def sample(self, obj, cap=6):
        if len(self.samples) < cap:
            self.samples.append(obj)

    def observe(self, key, obj=None):
        """Something worth recording that is not judged (outside the statement)."""
        d = self.observations.setdefault(key, {"count": 0, "example": obj})
        d["count"] += 1

    def assume(self, text):
        if text not in self.assumptions:
            self.assumptions.append(text)

    # ---- verdicts ----
    def violation(self, what, case=None, expected=None, observed=None, **more):
        rec = {"property": self.prop, "what": what, "seed": self.seed, "tier": self.tier,
               "case": case, "expected": expected, "observed": observed}
        rec.update(more)
        blob = json.dumps(rec, sort_keys=True, default=str)
        h = hashlib.sha1(blob.encode()).hexdigest()[:12]
        d = REPLAYS / self.prop
        d.mkdir(parents=True, exist_ok=True)
        path = d / f"{h}.json"
        path.write_text(json.dumps(rec, indent=1, default=str))
        self.violations.append(str(path))
        if len(self.violations) <= 25:
            print(f"VIOLATION property={self.prop} replay={path}", flush=True)
            print(f"  what: {what}", flush=True)
        return path

    def known_finding(self, entry_id, example=None):
        """Record that a listed known finding was reproduced (observation == as-built prediction)."""
        e = self.known.get(entry_id)
        if e is None or e.get("status") != "known":
            return False
        d = self.known_hits.setdefault(entry_id, {"count": 0, "example": example})
        d["count"] += 1
        return True

    def judge(self, ok, what, case=None, expected=None, observed=None, known_id=None,
              asbuilt=None, **more):
        """Generic verdict: ok -> nothing; else a known finding iff the entry is listed
        as known AND the observation equals the as-built prediction; else violation."""
        if ok:
            return True
        if known_id is not None and asbuilt is not None and observed == asbuilt:
            if self.known_finding(known_id, {"case": case, "expected": expected, "observed": observed}):
                return False
        self.violation(what, case, expected, observed, asbuilt=asbuilt, known_id=known_id, **more)
        return False

    # ---- finish ----
    def finish(self):
        wall = time.time() - self.t0
        for kid, d in self.known_hits.items():
            e = self.known[kid]
            print(f"KNOWN-FINDING: property={self.prop} {kid}: {e['what']} [{d['count']} case(s) this run]", flush=True)
        cov = {
            "states": self.states,
            "transitions": self.transitions,
            "traces_validated_against_impl": self.validated,
            "evaluations": max(self.evaluations, 1) if self.evaluations else 0,
            "distinct_nontrivial": len(self.nontrivial) + self.nontrivial_extra,
            "rule": self.rule,
            "samples": self.samples or [],
            "exhaustive": self.exhaustive,
            "tlc_runs": self.tlc_runs,
            "known_findings_reproduced": {k: v["count"] for k, v in self.known_hits.items()},
            "observations_not_judged": {k: v for k, v in self.observations.items()},
        }
        cov.update(self.extra)
        ev = {
            "property_id": self.prop,
            "tier": self.tier,
            "seed": self.seed,
            "level": self.level,
            "coverage": cov,
            "assumptions": self.assumptions,
            "wall_s": round(wall, 2),
            "violations": len(self.violations),
        }
        EVIDENCE.mkdir(parents=True, exist_ok=True)
        (EVIDENCE / f"{self.prop}.json").write_text(json.dumps(ev, indent=1, default=str))
        status = "VIOLATED" if self.violations else "held"
        print(f"[{self.prop}] {status}: evaluations={self.evaluations} validated={self.validated} "
              f"tlc_states={self.states} known={sum(v['count'] for v in self.known_hits.values())} "
              f"violations={len(self.violations)} wall={wall:.1f}s", flush=True)
        return 1 if self.violations else 0


def pmap(fn, items, procs=None, chunksize=8):
    """Parallel map over a fork pool (harness-side parallelism; children inherit imports)."""
    import multiprocessing as mp

    procs = procs or min(16, os.cpu_count() or 4)
    if procs <= 1 or len(items) < 4:
        return [fn(x) for x in items]
    ctx = mp.get_context("fork")
    with ctx.Pool(procs) as pool:
        return pool.map(fn, items, chunksize=chunksize)


def run_py(script_args, env=None, timeout=120, cwd=None, hooks=False, input=None):
    """Run a fresh interpreter against /repo."""
    return subprocess.run([PY] + list(script_args), env=child_env(env, hooks=hooks), cwd=cwd,
                          capture_output=True, text=True, timeout=timeout, input=input)


def tmap(fn, items, threads=8):
    """Parallel map over threads (for work that spawns its own child interpreters)."""
    from concurrent.futures import ThreadPoolExecutor

    if threads <= 1 or len(items) < 2:
        return [fn(x) for x in items]
    with ThreadPoolExecutor(max_workers=threads) as ex:
        return list(ex.map(fn, items))
