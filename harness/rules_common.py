"""Shared driver code for the Rules / DefRoundTrip properties (C31, C32).

TLC (specs/Rules_Gen.tla, specs/DefRoundTrip_Gen.tla) enumerates task definitions and
computes every expected value (rule verdict per value assignment, projection that a
dictionary round trip must preserve, as-built prediction, expected command line).
This module
  * writes cfg files and runs the generators (one TLC process per shard, inside the
    pool workers, so generation and replay of different shards overlap),
  * materialises a definition as *source text* of a python.define / shell.define call
    (written to a module file in the scratch directory and imported),
  * runs the real pydra code (`_check_rules`, direct execution, workflow nodes with
    constant and with lazy inputs, `unstructure`/`structure`), projects what it saw into
    the shape of the TLC case and compares the two (compare_table, judge_context,
    roundtrip_def).  Every expected value in those comparisons comes from the TLC case.
"""
from __future__ import annotations

import hashlib
import importlib.util
import json
import os
import random
import shutil
import stat
import sys
import tempfile
from pathlib import Path

from harness import core

# value labels of the specs -> python values
VAL = {"-": None, "F": False, "T": True, "v": "v", "w": "w", "1": 1, "2": 2}
KIND_TYPE = {"b": "bool", "s": "str | None", "i": "int | None", "m": "str"}
KIND_DEFAULT = {"b": "False", "s": "None", "i": "None", "m": None}


def body_log(tag, vals):
    """called from generated task bodies: proves that a body ran (and with what)."""
    log = os.environ.get("VERIF_BODYLOG")
    if log:
        with open(log, "a") as f:
            f.write(f"{tag}|{vals!r}\n")


def private_hash_cache(scratch):
    """Point pydra's persistent file-hash cache (documented variable PYDRA_HASH_CACHE) at the
    scratch directory: the shared default directory is scanned on every task run
    (PersistentCache.clean_up) and grows with every run on this machine."""
    d = Path(scratch) / "hashes"
    d.mkdir(exist_ok=True)
    os.environ["PYDRA_HASH_CACHE"] = str(d)


# --------------------------------------------------------------------------- TLC side
def rules_cfg(path, N, kinds, maxmand=0, reqsets=2, reqs=2, owners=1, maxxor=1, mingroup=2,
              maxgroup=4, shard=0, nshards=1, invariants=("Emit", "Theorems")):
    ks = ", ".join(f'"{k}"' for k in kinds)
    txt = f"""INIT Init
NEXT Next
CONSTANTS
  N = {N}
  Kinds = {{{ks}}}
  MaxMand = {maxmand}
  MaxReqSets = {reqsets}
  MaxReqs = {reqs}
  Owners = {owners}
  MaxXor = {maxxor}
  MinGroup = {mingroup}
  MaxGroup = {maxgroup}
  Shard = {shard}
  NShards = {nshards}
""" + "".join(f"INVARIANT {i}\n" for i in invariants) + "CHECK_DEADLOCK FALSE\n"
    Path(path).write_text(txt)
    return path


def def_digest(case):
    blob = json.dumps([case["n"], case["k"], canon_req(case["req"]), canon_xor(case["xor"])], sort_keys=True)
    return hashlib.sha1(blob.encode()).hexdigest()[:16]


def canon_req(req):
    return {f: sorted(sorted([r["name"], r["restricted"], sorted(r["allowed"])] for r in rs) for rs in rss)
            for f, rss in req.items()}


def canon_xor(xor):
    return sorted([sorted(g["m"]), g["none"]] for g in xor)


def has_rules(case):
    return bool(case["xor"]) or any(case["req"].values()) or "m" in case["k"].values()


# --------------------------------------------------------------------------- definitions
def rules_to_def(case, flavour):
    """A Rules_Gen case as a general definition (the shape DefRoundTrip_Gen emits too)."""
    fields = []
    for f in case["n"]:
        k = case["k"][f]
        fd = {"name": f, "type": KIND_TYPE[k], "default": KIND_DEFAULT[k], "help": "",
              "allowed": None,
              "requires": [[(r["name"], list(r["allowed"])) if r["restricted"] else r["name"] for r in rs]
                           for rs in case["req"][f]]}
        if flavour == "shell":
            fd.update(argstr=f"-{f}", position=None, sep=None)
        fields.append(fd)
    xor = [list(g["m"]) + ([None] if g["none"] else []) for g in case["xor"]]
    return {"flavour": flavour, "fields": fields, "xor": xor}


def field_src(fd, flavour):
    mod = "python" if flavour == "python" else "shell"
    parts = [f"type={fd['type']}"]
    if fd.get("default") is not None:
        parts.append(f"default={fd['default']}")
    if fd.get("help"):
        parts.append(f"help={fd['help']!r}")
    if fd.get("allowed"):
        parts.append(f"allowed_values={list(fd['allowed'])!r}")
    if fd.get("requires"):
        parts.append(f"requires={fd['requires']!r}")
    if flavour == "shell":
        if "argstr" in fd:
            parts.append(f"argstr={fd['argstr']!r}")
        if fd.get("position") is not None:
            parts.append(f"position={fd['position']}")
        if fd.get("sep") is not None:
            parts.append(f"sep={fd['sep']!r}")
    return f"{mod}.arg(" + ", ".join(parts) + ")"


def def_src(d, uid, exe=None, multi_out=False):
    """Source text that binds K_<uid> to the task class of definition d.
    multi_out (C32): python tasks declare the two outputs DefRoundTrip!PyOuts = <<zed, alpha>> and return a tuple."""
    names = [fd["name"] for fd in d["fields"]]
    inputs = "{" + ", ".join(f"{fd['name']!r}: {field_src(fd, d['flavour'])}" for fd in d["fields"]) + "}"
    xor = "[" + ", ".join("(" + "".join(f"{m!r}, " for m in g) + ")" for g in d["xor"]) + "]"
    if d["flavour"] == "python":
        args = ", ".join(names)
        tup = "(" + "".join(n + ", " for n in names) + ")"
        if multi_out:
            return (f"def F_{uid}({args}):\n"
                    f"    body_log('T:{uid}', {tup})\n"
                    f"    return {tup}, {len(names)}\n"
                    f"K_{uid} = python.define(F_{uid}, inputs={inputs}, outputs={{'zed': ty.Any, 'alpha': int}}, "
                    f"xor={xor}, name='K_{uid}')\n")
        return (f"def F_{uid}({args}):\n"
                f"    body_log('T:{uid}', {tup})\n"
                f"    return {tup}\n"
                f"K_{uid} = python.define(F_{uid}, inputs={inputs}, outputs={{'out': ty.Any}}, "
                f"xor={xor}, name='K_{uid}')\n")
    return (f"K_{uid} = shell.define({str(exe)!r}, inputs={inputs}, xor={xor}, name='K_{uid}')\n")


HEADER = ("import typing as ty\n"
          "from pydra.compose import python, shell, workflow\n"
          "from harness.rules_common import body_log\n\n")

_modcount = [0]


def load_source(scratch, text, stem):
    """Write generated source to a module file and import it."""
    _modcount[0] += 1
    name = f"verifgen_{stem}_{os.getpid()}_{_modcount[0]}"
    path = Path(scratch) / f"{name}.py"
    path.write_text(HEADER + text)
    spec = importlib.util.spec_from_file_location(name, path)
    mod = importlib.util.module_from_spec(spec)
    sys.modules[name] = mod
    spec.loader.exec_module(mod)
    return mod


def drop_module(mod):
    sys.modules.pop(mod.__name__, None)
    try:
        os.unlink(mod.__file__)
    except OSError:
        pass


def make_exe(scratch):
    """An executable that records that it ran (and its argv) and echoes the argv."""
    p = Path(scratch) / "verif_exe.sh"
    if not p.exists():
        p.write_text('#!/bin/sh\nif [ -n "$VERIF_BODYLOG" ]; then echo "T:exe|$*" >> "$VERIF_BODYLOG"; fi\necho "$*"\n')
        p.chmod(p.stat().st_mode | stat.S_IXUSR | stat.S_IXGRP | stat.S_IXOTH)
    return p


def kwargs_of(names, enc):
    """'Tv-' -> {'p': True, 'q': 'v'}; '-' (nothing / None) is simply not passed."""
    return {n: VAL[c] for n, c in zip(names, enc) if c != "-"}


def kwargs_src(kw):
    return ", ".join(f"{k}={v!r}" for k, v in kw.items())


# --------------------------------------------------------------------------- rule verdicts
MSG_CLASS = (("requires", "r"), ("Mutually exclusive", "x"), ("At least one of the mutually", "n"),
             ("Mandatory field", "m"))


def msg_classes(msg):
    got = ""
    for needle, c in MSG_CLASS:
        if needle in msg:
            got += c
    return got


def check_verdict(cls, kw):
    """(accepted?, detail) of the real rule check for one assignment."""
    try:
        t = cls(**kw)
    except Exception as e:  # noqa
        return "CTOR", f"{type(e).__name__}: {str(e)[:120]}"
    try:
        t._check_rules()
        return True, ""
    except ValueError as e:
        return False, msg_classes(str(e))
    except Exception as e:  # noqa
        return "EXC", f"{type(e).__name__}: {str(e)[:120]}"


def verdict_table(cls, case):
    return [check_verdict(cls, kwargs_of(case["n"], row["a"])) for row in case["tab"]]


def compare_table(cls, c, fl):
    """Real `_check_rules` verdict of every assignment of definition c against the spec's
    table: (mismatch records, unjudged observations, number of pairs)."""
    mism, obs = [], []
    tab = verdict_table(cls, c)
    for row, (v, detail) in zip(c["tab"], tab):
        exp = row["y"] == ""
        if v is not exp:
            mism.append({
                "what": f"_check_rules ({fl}): " + ("valid assignment rejected" if exp else "violating assignment accepted"),
                "case": {"tlc": dict(c, tab=[row]), "flavour": fl, "level": "check", "row": 0},
                "expected": {"executable": exp, "broken": row["y"]},
                "observed": {"accepted": v, "detail": detail}})
        elif v is False and detail != row["y"]:
            obs.append((f"rejected as required, reported clauses '{detail}' differ from broken clauses '{row['y']}'",
                        {"k": c["k"], "req": c["req"], "xor": c["xor"], "a": row["a"], "flavour": fl}))
    return mism, obs, len(tab)


# --------------------------------------------------------------------------- execution contexts
ID_TASKS = {"b": ("bool", "IdB"), "s": ("str", "IdS"), "i": ("int", "IdI"), "m": ("str", "IdS")}


def context_src(case, row, flavour, uid, exe):
    """Source of the class plus the workflows of the 'wf' and 'lazy' contexts for one
    (definition, assignment) pair; every value is a literal of the generated text."""
    d = rules_to_def(case, flavour)
    kw = kwargs_of(case["n"], row["a"])
    src = def_src(d, uid, exe)
    outs = "n.out" if flavour == "python" else "n.stdout"
    src += (f"@python.define\n"
            f"def Up_{uid}(x: int) -> int:\n"
            f"    body_log('U:{uid}', x)\n"
            f"    return x\n")
    for tp, nm in sorted(set(ID_TASKS.values())):
        src += (f"@python.define\n"
                f"def {nm}_{uid}(x: {tp}) -> {tp}:\n"
                f"    body_log('I:{uid}', x)\n"
                f"    return x\n")
    src += (f"@workflow.define(outputs=['out', 'up'])\n"
            f"def WC_{uid}() -> tuple[ty.Any, int]:\n"
            f"    up = workflow.add(Up_{uid}(x=1), name='up')\n"
            f"    n = workflow.add(K_{uid}({kwargs_src(kw)}), name='n')\n"
            f"    return {outs}, up.out\n")
    lines, args = [], []
    for f, v in kw.items():
        if v is False:          # an explicit False is passed as a constant
            args.append(f"{f}=False")
            continue
        nm = ID_TASKS[case["k"][f]][1]
        lines.append(f"    u_{f} = workflow.add({nm}_{uid}(x={v!r}), name='u_{f}')\n")
        args.append(f"{f}=u_{f}.out")
    src += (f"@workflow.define(outputs=['out'])\n"
            f"def WL_{uid}() -> ty.Any:\n" + "".join(lines) +
            f"    n = workflow.add(K_{uid}({', '.join(args)}), name='n')\n"
            f"    return {outs}\n")
    return src


def run_context(mod, uid, context, kw, flavour):
    """Run one execution context in a fresh cache root; return the projected observation."""
    tmp = tempfile.mkdtemp(prefix="verif_rules_")
    log = os.path.join(tmp, "body.log")
    open(log, "w").close()
    os.environ["VERIF_BODYLOG"] = log
    cache = os.path.join(tmp, "cache")
    obs = {"err": None, "out": None}
    try:
        try:
            if context == "run":
                outs = getattr(mod, f"K_{uid}")(**kw)(cache_root=cache, worker="debug")
                obs["out"] = _plain(outs.out) if flavour == "python" else [outs.return_code, outs.stdout.strip()]
            else:
                wf = getattr(mod, ("WC_" if context == "wf" else "WL_") + uid)()
                outs = wf(cache_root=cache, worker="debug")
                obs["out"] = _plain(outs.out) if flavour == "python" else str(outs.out).strip()
        except Exception as e:  # noqa
            obs["err"] = f"{type(e).__name__}: {str(e)[:160]}"
        with open(log) as f:
            lines = [l.rstrip("\n") for l in f]
        obs["task_bodies"] = [l for l in lines if l.startswith("T:")]
        obs["other_bodies"] = len([l for l in lines if not l.startswith("T:")])
        names = sorted(os.listdir(cache)) if os.path.isdir(cache) else []
        obs["jobdirs"] = [n for n in names if (n.startswith("python-") or n.startswith("shell-"))
                          and os.path.isdir(os.path.join(cache, n))]
        return obs
    finally:
        os.environ.pop("VERIF_BODYLOG", None)
        shutil.rmtree(tmp, ignore_errors=True)


def _plain(x):
    if isinstance(x, (list, tuple)):
        return [_plain(i) for i in x]
    return x


def expected_argv_words(case, row):
    """what the shell variant of a Rules case puts on the command line (flag for a set bool,
    '-f value' otherwise) -- only used to recognise the body line of the executable."""
    words = []
    for f, c in zip(case["n"], row["a"]):
        if c in "-F":
            continue
        words += [f"-{f}"] if c == "T" else [f"-{f}", str(VAL[c])]
    return words


def shard_rng(seed, *key):
    return random.Random(hashlib.sha1(repr((seed,) + key).encode()).hexdigest())


# --------------------------------------------------------------------------- C31 shard worker
CONTEXTS = ("run", "wf", "lazy")


def judge_context(case, row, flavour, context, obs):
    """Compare one execution-context observation with the spec's verdict for the row.
    Returns 'ok' or a short label of the disagreement."""
    executable = row["y"] == ""
    if not executable:
        if obs["err"] is None:
            return "violating-assignment-executed"
        if obs["task_bodies"]:
            return "body-ran-before-report"
        if obs["jobdirs"] and context != "lazy":
            return "job-directory-created-before-report"
        if context in ("run", "wf") and obs["other_bodies"]:
            return "upstream-body-ran-before-report"
        return "ok"
    if obs["err"] is not None:
        return "valid-assignment-rejected"
    if len(obs["task_bodies"]) != 1:
        return "body-count-mismatch"
    vals = [VAL[c] for c in row["a"]]
    if flavour == "python":
        if obs["out"] != vals:
            return "output-mismatch"
        if obs["task_bodies"][0] != f"T:{obs['uid']}|{tuple(vals)!r}":
            return "body-values-mismatch"
    else:
        out = obs["out"][1] if context == "run" else obs["out"]
        if context == "run" and obs["out"][0] != 0:
            return "nonzero-return-code"
        if sorted(out.split()) != sorted(expected_argv_words(case, row)):
            return "argv-words-mismatch"
    return "ok"


def rules_shard(job):
    """Pool worker: run one (family, shard) of Rules_Gen, replay every (definition,
    assignment) pair on `_check_rules` and a seeded sample on the execution contexts.
    Returns plain data only (the parent owns the Ctx)."""
    fam, shard, scratch, seed, n_ctx, chunk = (job[k] for k in ("fam", "shard", "scratch", "seed", "n_ctx", "chunk"))
    scratch = Path(scratch)
    tag = f"{fam['name']}_{shard}"
    import time
    t_start = time.time()
    cfg = rules_cfg(scratch / f"rules_{tag}.cfg", shard=shard, **fam["cfg"])
    r = core.run_tlc("Rules_Gen.tla", cfg=cfg, workers=1, timeout=3000, env=job.get("jvm_env"))
    res = {"fam": fam["name"], "shard": shard, "distinct": r.distinct, "generated": r.generated,
           "wall": round(r.wall, 1), "machinery": None, "defs": [], "mismatches": [], "ctx_results": [],
           "observations": {}, "pairs": 0, "samples": []}
    if not r.ok:
        res["machinery"] = "TLC failed on Rules_Gen " + tag + ":\n" + "\n".join(r.out.splitlines()[-30:])
        return res
    cases = r.printed()
    if len(cases) != r.distinct:
        res["machinery"] = f"generator printed {len(cases)} cases for {r.distinct} states ({tag})"
        return res
    exe = make_exe(scratch)
    rng = shard_rng(seed, fam["name"], shard)
    flavours = fam.get("flavours", ("python", "shell"))
    pool_bad, pool_ok = {}, []          # reservoirs for the execution contexts (violating ones per clause class)
    for lo in range(0, len(cases), chunk):
        part = cases[lo:lo + chunk]
        # both flavours for small definitions, alternating for the large families
        plan = [(i, c, fl) for i, c in enumerate(part, lo)
                for fl in (flavours if fam.get("both", True) else (flavours[i % len(flavours)],))]
        for fl in flavours:
            mine = [(i, c) for i, c, f in plan if f == fl]
            if not mine:
                continue
            src = "".join(def_src(rules_to_def(c, fl), str(i), exe) for i, c in mine)
            try:
                mod = load_source(scratch, src, f"{tag}_{fl}")
            except Exception as e:  # a definition the generator promises is legal was refused
                res["mismatches"].append({"what": f"definition rejected by {fl}.define: {type(e).__name__}: {str(e)[:200]}",
                                          "case": {"tlc": mine[0][1], "flavour": fl, "level": "define"},
                                          "expected": "class is created", "observed": str(e)[:300]})
                continue
            for i, c in mine:
                mism, obs, n = compare_table(getattr(mod, f"K_{i}"), c, fl)
                res["pairs"] += n
                res["mismatches"].extend(mism[:max(0, 30 - len(res["mismatches"]))])
                for key, ex in obs:
                    o = res["observations"].setdefault(key, [0, ex])
                    o[0] += 1
                for j, row in enumerate(c["tab"]):
                    exp = row["y"] == ""
                    if has_rules(c):
                        (pool_ok if exp else pool_bad.setdefault(row["y"], [])).append((c, j, fl))
                if len(pool_ok) > 4000:
                    pool_ok = rng.sample(pool_ok, 400)
                for y, lst in pool_bad.items():
                    if len(lst) > 2000:
                        pool_bad[y] = rng.sample(lst, 200)
            drop_module(mod)
        for i, c in enumerate(part, lo):
            nt = len(c["tab"]) if has_rules(c) else 0
            res["defs"].append((def_digest(c), len(c["tab"]), nt))
    t_replayed = time.time()
    # execution contexts on a seeded sample: two thirds violating (round-robin over the classes of
    # broken clauses so that every class is exercised), one third valid
    n_bad = (2 * n_ctx + 2) // 3
    buckets = [rng.sample(lst, len(lst)) for _, lst in sorted(pool_bad.items())]
    rng.shuffle(buckets)
    bad = []
    while len(bad) < n_bad and any(buckets):
        for b in buckets:
            if b and len(bad) < n_bad:
                bad.append(b.pop())
    picks = bad + rng.sample(pool_ok, min(len(pool_ok), n_ctx - len(bad)))
    for num, (c, j, fl) in enumerate(picks):
        one = dict(c, tab=[c["tab"][j]])
        for context in CONTEXTS:
            label, obs = run_one_context(scratch, one, fl, context, f"{tag}_{num}".replace("-", "_"))
            res["ctx_results"].append((context, fl, label))
            if label != "ok" and sum(1 for m in res["mismatches"] if m["case"]["level"] in CONTEXTS) < 15:
                res["mismatches"].append({"what": f"{context} ({fl}): {label}",
                                          "case": {"tlc": one, "flavour": fl, "level": context, "row": 0},
                                          "expected": {"executable": one["tab"][0]["y"] == "", "broken": one["tab"][0]["y"]},
                                          "observed": obs})
    res["timing"] = {"tlc": res["wall"], "replay": round(t_replayed - t_start - res["wall"], 1),
                     "contexts": round(time.time() - t_replayed, 1)}
    for c, j, fl in picks[:2] + picks[-1:]:
        res["samples"].append({"kinds": c["k"], "requires": canon_req(c["req"]), "xor": canon_xor(c["xor"]),
                               "assignment": c["tab"][j]["a"], "broken_clauses": c["tab"][j]["y"], "flavour": fl})
    return res


def run_one_context(scratch, one, flavour, context, uid):
    row = one["tab"][0]
    exe = make_exe(scratch)
    mod = load_source(scratch, context_src(one, row, flavour, uid, exe), f"ctx_{uid}")
    try:
        obs = run_context(mod, uid, context, kwargs_of(one["n"], row["a"]), flavour)
    finally:
        drop_module(mod)
    obs["uid"] = uid
    return judge_context(one, row, flavour, context, obs), obs


def check_one(scratch, one, flavour):
    """check-level replay of a (one-row) case: mismatch records of compare_table."""
    exe = make_exe(scratch)
    mod = load_source(scratch, def_src(rules_to_def(one, flavour), "r0", exe), "replay")
    try:
        return compare_table(getattr(mod, "K_r0"), one, flavour)[0]
    finally:
        drop_module(mod)


# =========================================================================== C32
DEFAULT_SRC = {"nodefault": None, "None": "None", "False": "False", "3": "3"}
TYPE_LABELS = ("bool", "str | None", "int | None", "str", "int", "list[int] | None")
VAL32 = dict(VAL, x="x", **{"12": [1, 2], "3": 3})
KNOWN_REQUIRES = "C32-requires-roundtrip"


def drt_cfg(path, mode, flavour, maxfields=2, shard=0, nshards=1, rules=None, invariants=("Emit", "Theorems")):
    r = dict(N=1, kinds=["b"], maxmand=0, reqsets=0, reqs=0, owners=1, maxxor=0, mingroup=1, maxgroup=1)
    r.update(rules or {})
    ks = ", ".join(f'"{k}"' for k in r["kinds"])
    txt = f"""INIT Init
NEXT Next
CONSTANTS
  Mode = "{mode}"
  Flavour = "{flavour}"
  MaxFields = {maxfields}
  N = {r['N']}
  Kinds = {{{ks}}}
  MaxMand = {r['maxmand']}
  MaxReqSets = {r['reqsets']}
  MaxReqs = {r['reqs']}
  Owners = {r['owners']}
  MaxXor = {r['maxxor']}
  MinGroup = {r['mingroup']}
  MaxGroup = {r['maxgroup']}
  Shard = {shard}
  NShards = {nshards}
""" + "".join(f"INVARIANT {i}\n" for i in invariants) + "CHECK_DEADLOCK FALSE\n"
    Path(path).write_text(txt)
    return path


def case_to_def(case):
    """A DefRoundTrip_Gen case as the general definition understood by def_src."""
    fields = []
    for fd in case["fields"]:
        g = {"name": fd["name"], "type": fd["type"], "default": DEFAULT_SRC[fd["default"]], "help": fd["help"],
             "allowed": sorted(fd["allowed"]) or None,
             "requires": [[(r["name"], list(r["allowed"])) if r["restricted"] else r["name"] for r in rs]
                          for rs in fd["req"]]}
        if case["flavour"] == "shell":
            g["argstr"] = fd["argstr"]
            g["position"] = fd["position"] or None
            g["sep"] = None if fd["sep"] == " " else fd["sep"]
        fields.append(g)
    xor = [list(g["m"]) + ([None] if g["none"] else []) for g in case["xor"]]
    return {"flavour": case["flavour"], "fields": fields, "xor": xor}


def canon_proj(p):
    """canonical (order-free) form of a projection in the JSON shape DefRoundTrip_Gen emits."""
    if "error" in p:
        return {"error": p["error"], "names": sorted(p["names"])}
    out = {}
    for f, a in p["fields"].items():
        c = dict(a)
        c["allowed"] = sorted(a["allowed"])
        c["req"] = sorted(sorted([r["name"], bool(r["restricted"]), sorted(r["allowed"])] for r in rs) for rs in a["req"])
        out[f] = c
    return {"fields": out, "xor": canon_xor(p["xor"]), "order": list(p.get("order", [])), "outs": list(p.get("outs", []))}


def project_class(K, flavour, names):
    """The real class in the same shape: name -> (type, default, help, allowed, req[, argstr, position, sep])."""
    from pydra.utils.general import get_fields
    from pydra.compose.base import NO_DEFAULT

    types = {lab: eval(lab) for lab in TYPE_LABELS}  # noqa: S307 (fixed label table)
    flds = get_fields(K)
    out = {}
    for f in names:
        fld = flds[f]
        lab = [l for l, t in types.items() if fld.type == t]
        a = {"type": lab[0] if lab else repr(fld.type),
             "default": "nodefault" if fld.default is NO_DEFAULT else repr(fld.default),
             "help": fld.help,
             "allowed": sorted(fld.allowed_values or []),
             "req": [[{"name": r.name, "restricted": r.allowed_values is not None, "allowed": list(r.allowed_values or [])}
                      for r in rs.requirements] for rs in fld.requires]}
        if flavour == "shell":
            a.update(argstr=fld.argstr, position=fld.position or 0, sep=fld.sep)
        out[f] = a
    extra = sorted(x.name for x in flds if x.name not in names and x.name not in K.BASE_ATTRS
                   and x.name not in ("function", "executable", "append_args"))
    xor = [{"m": [m for m in g if m is not None], "none": None in g} for g in K._xor]
    p = canon_proj({"fields": out, "xor": xor})
    p["order"] = [x.name for x in flds if x.name in names]
    p["outs"] = [x.name for x in get_fields(K.Outputs) if x.name in ("zed", "alpha")]
    if extra:
        p["extra_fields"] = extra
    return p


def structure_error(e):
    msg = str(e)
    if isinstance(e, ValueError) and "field names in referenced in the requirements" in msg:
        import ast
        try:
            names = ast.literal_eval(msg[msg.rindex("["):])
        except Exception:  # noqa
            names = [msg[-60:]]
        return {"error": "unrecognised-field-names", "names": sorted(names)}
    return {"error": f"{type(e).__name__}: {msg[:160]}", "names": []}


def kwargs32(case, a):
    return {fd["name"]: VAL32[v] for fd, v in zip(case["fields"], a) if v != "-"}


def behaviour(K, case, row, exe):
    """what a class does with the row's input values: verdict classes, command line."""
    kw = kwargs32(case, row["a"])
    try:
        t = K(**kw)
    except ValueError as e:
        return {"accepted": False, "why": "v" if "has to be from" in str(e) else f"CTOR {str(e)[:80]}"}
    except Exception as e:  # noqa
        return {"accepted": False, "why": f"CTOR {type(e).__name__}: {str(e)[:80]}"}
    try:
        t._check_rules()
    except ValueError as e:
        return {"accepted": False, "why": msg_classes(str(e))}
    except Exception as e:  # noqa
        return {"accepted": False, "why": f"EXC {type(e).__name__}: {str(e)[:80]}"}
    b = {"accepted": True, "why": ""}
    if case["flavour"] == "shell":
        try:
            cl = t.cmdline
            b["cmdline"] = cl[len(str(exe)):].strip() if cl.startswith(str(exe)) else cl
        except Exception as e:  # noqa
            b["cmdline"] = f"EXC {type(e).__name__}: {str(e)[:80]}"
    return b


def expected_behaviour(case, row):
    ok = row["y"] == ""
    b = {"accepted": ok}
    if ok and case["flavour"] == "shell":
        b["cmdline"] = " ".join(row["args"])
    return b


def agrees(b, exp):
    return b["accepted"] == exp["accepted"] and ("cmdline" not in exp or b.get("cmdline") == exp["cmdline"])


def run_outputs(K, case, row):
    tmp = tempfile.mkdtemp(prefix="verif_drt_")
    try:
        outs = K(**kwargs32(case, row["a"]))(cache_root=os.path.join(tmp, "c"), worker="debug")
        if case["flavour"] == "python":
            return [_plain(outs.zed), _plain(outs.alpha)] if hasattr(outs, "zed") else _plain(outs.out)
        return [outs.return_code, outs.stdout.strip()]
    except Exception as e:  # noqa
        return f"EXC {type(e).__name__}: {str(e)[:120]}"
    finally:
        shutil.rmtree(tmp, ignore_errors=True)


def json_leg(K, types_by_label):
    """dict form -> JSON text -> dict form (types and the executor function replaced by
    placeholders, as the tutorial says is left to the user) -> structure.  Observation only."""
    from pydra.utils.general import unstructure, structure

    table = {}

    def ser(obj, atr, value):
        for lab, t in types_by_label.items():
            if value is t or (not isinstance(value, (str, int, bool, list, tuple, dict, set, frozenset, type(None))) and value == t):
                return "@type:" + lab
        if callable(value) and not isinstance(value, type):
            table[str(id(value))] = value
            return "@obj:" + str(id(value))
        return value

    def back(x):
        if isinstance(x, str) and x.startswith("@type:"):
            return types_by_label[x[6:]]
        if isinstance(x, str) and x.startswith("@obj:"):
            return table[x[5:]]
        if isinstance(x, dict):
            return {k: back(v) for k, v in x.items()}
        if isinstance(x, list):
            return [back(v) for v in x]
        return x

    dct = unstructure(K, value_serializer=ser)
    fn = dct.get("function")
    if callable(fn):
        table[str(id(fn))] = fn
        dct["function"] = "@obj:" + str(id(fn))
    text = json.dumps(dct)
    return structure(back(json.loads(text)))


def roundtrip_def(K, case, exe, rng, n_run, with_json=True):
    """All observations for one definition; returns (verdict records, observations)."""
    from pydra.utils.general import unstructure, structure, get_fields

    names = [fd["name"] for fd in case["fields"]]
    flavour = case["flavour"]
    rec = {"problems": [], "observations": [], "known": None, "rows": 0, "runs": 0}
    exp = canon_proj(case["proj"])
    p_orig = project_class(K, flavour, names)

    def vs_spec(p):
        """differences from the spec projection; an implicit position (0) is compared with the original's."""
        diffs = []
        if "extra_fields" in p:
            diffs.append(["extra_fields", None, p["extra_fields"]])
        if p.get("xor") != exp["xor"]:
            diffs.append(["xor", exp["xor"], p.get("xor")])
        for a in ("order", "outs"):
            if p.get(a) != exp[a]:
                diffs.append([a, exp[a], p.get(a)])
        for f in names:
            for a, want in exp["fields"][f].items():
                got = p["fields"].get(f, {}).get(a, "<missing>")
                if a == "position" and want == 0:
                    want = p_orig["fields"][f]["position"]
                if got != want:
                    diffs.append([f"{f}.{a}", want, got])
        return diffs

    d0 = vs_spec(p_orig)
    if d0:
        rec["machinery"] = f"original class does not match the generated definition: {d0[:3]}"
        return rec
    try:
        dct = unstructure(K)
        R = structure(dct)
    except Exception as e:  # noqa
        obs = structure_error(e)
        rec["roundtrip"] = obs
        if case["known"]:
            rec["known"] = {"observed": obs, "asbuilt": canon_proj(case["asbuilt"]), "expected": "projection preserved"}
        else:
            rec["problems"].append({"what": "round trip failed: " + obs["error"], "level": "projection",
                                    "expected": "projection preserved", "observed": obs})
        return rec
    p_new = project_class(R, flavour, names)
    d1 = vs_spec(p_new)
    if d1 or get_fields(K.Outputs) != get_fields(R.Outputs):
        obs = {"differences [attribute, expected, recreated]": d1,
               "outputs_equal": get_fields(K.Outputs) == get_fields(R.Outputs)}
        if case["known"]:
            rec["known"] = {"observed": p_new, "asbuilt": canon_proj(case["asbuilt"]), "expected": exp}
        else:
            rec["problems"].append({"what": "re-created class differs in the preserved projection", "level": "projection",
                                    "expected": exp, "observed": obs})
    elif case["known"]:
        rec["observations"].append(("definition with requires survived the round trip (as-built prediction not met)", None))
    if R.__name__ != K.__name__:
        rec["observations"].append(("class name changed by the round trip", [K.__name__, R.__name__]))
    # behaviour on equal input values
    for j, row in enumerate(case["tab"]):
        rec["rows"] += 1
        e = expected_behaviour(case, row)
        b_new = behaviour(R, case, row, exe)
        if agrees(b_new, e):
            continue
        b_old = behaviour(K, case, row, exe)
        if b_old == b_new:
            rec["observations"].append(("original and re-created class agree with each other but not with the spec's "
                                        "expectation for these values (a C22/C31 matter, not judged here)",
                                        {"fields": case["fields"], "a": row["a"], "expected": e, "both": b_new}))
        else:
            rec["problems"].append({"what": "re-created class behaves differently on equal input values", "level": "behaviour",
                                    "row": j, "expected": dict(e, original=b_old), "observed": b_new})
    ok_rows = [j for j, r in enumerate(case["tab"]) if r["y"] == ""]
    for j in (rng.sample(ok_rows, min(n_run, len(ok_rows))) if n_run else []):
        row = case["tab"][j]
        rec["runs"] += 1
        o_old, o_new = run_outputs(K, case, row), run_outputs(R, case, row)
        want = ([[VAL32[v] if v != "-" else eff_default(fd) for fd, v in zip(case["fields"], row["a"])], len(case["fields"])]
                if flavour == "python" else [0, " ".join(row["args"])])
        if o_new != want:
            if o_old == o_new:
                rec["observations"].append(("original and re-created task produce the same outputs, different from the "
                                            "spec's expectation (not judged here)", {"a": row["a"], "expected": want, "both": o_new}))
            else:
                rec["problems"].append({"what": "re-created task gives different outputs for equal input values", "level": "run",
                                        "row": j, "expected": {"spec": want, "original": o_old}, "observed": o_new})
    if not with_json:
        return rec
    try:
        RJ = json_leg(K, {lab: eval(lab) for lab in TYPE_LABELS})  # noqa: S307
        pj = project_class(RJ, flavour, names)
        if vs_spec(pj):
            rec["observations"].append(("through JSON text (types/function as placeholders) the projection changes", vs_spec(pj)[:3]))
        else:
            rec["observations"].append(("dictionary form survives JSON text (types/function as placeholders)", None))
    except Exception as e:  # noqa
        rec["observations"].append((f"JSON leg failed: {type(e).__name__}", str(e)[:160]))
    return rec


def eff_default(fd):
    return {"False": False, "None": None, "3": 3, "nodefault": None}[fd["default"]]


def roundtrip_shard(job):
    """Pool worker for C32: one DefRoundTrip_Gen configuration/shard."""
    scratch = Path(job["scratch"])
    tag = f"{job['name']}_{job['shard']}"
    cfg = drt_cfg(scratch / f"drt_{tag}.cfg", job["mode"], job["flavour"], job.get("maxfields", 1),
                  job["shard"], job["nshards"], job.get("rules"))
    r = core.run_tlc("DefRoundTrip_Gen.tla", cfg=cfg, workers=1, timeout=3000, env=job.get("jvm_env"))
    res = {"name": job["name"], "shard": job["shard"], "distinct": r.distinct, "generated": r.generated,
           "wall": round(r.wall, 1), "machinery": None, "problems": [], "known": [], "observations": {},
           "defs": 0, "rows": 0, "runs": 0, "nontrivial": [], "samples": []}
    if not r.ok:
        res["machinery"] = "TLC failed on DefRoundTrip_Gen " + tag + ":\n" + "\n".join(r.out.splitlines()[-30:])
        return res
    cases = r.printed()
    if len(cases) != r.distinct:
        res["machinery"] = f"generator printed {len(cases)} cases for {r.distinct} states ({tag})"
        return res
    exe = make_exe(scratch)
    rng = shard_rng(job["seed"], job["name"], job["shard"])
    run_every = job.get("run_every", 10)
    for lo in range(0, len(cases), 100):
        part = cases[lo:lo + 100]
        src = "".join(def_src(case_to_def(c), str(i), exe, multi_out=True) for i, c in enumerate(part, lo))
        try:
            mod = load_source(scratch, src, tag)
        except Exception as e:  # noqa
            res["machinery"] = f"generated definitions rejected by define ({tag}): {type(e).__name__}: {str(e)[:300]}"
            return res
        for i, c in enumerate(part, lo):
            rec = roundtrip_def(getattr(mod, f"K_{i}"), c, exe, rng, 1 if i % run_every == 0 else 0,
                                with_json=(i % 4 == 0))
            if rec.get("machinery"):
                res["machinery"] = rec["machinery"] + f" ({tag}, fields {c['fields']})"
                return res
            res["defs"] += 1
            res["rows"] += rec["rows"]
            res["runs"] += rec["runs"]
            light = {k: c[k] for k in ("flavour", "fields", "xor", "proj", "asbuilt", "known")}
            for p in rec["problems"][:3]:
                if len(res["problems"]) < 30:
                    tab = [c["tab"][p["row"]]] if "row" in p else []
                    res["problems"].append({"what": p["what"], "case": {"tlc": dict(light, tab=tab), "level": p["level"]},
                                            "expected": p["expected"], "observed": p["observed"]})
            if rec["known"]:
                k = rec["known"]
                if len(res["known"]) < 400:
                    res["known"].append({"case": {"tlc": dict(light, tab=[]), "level": "projection"}, **k})
                else:
                    res["known"].append({"case": {"tlc": {"fields": c["fields"]}, "level": "projection"}, **k})
            for key, ex in rec["observations"]:
                o = res["observations"].setdefault(key, [0, ex])
                o[0] += 1
            res["nontrivial"].append(hashlib.sha1(json.dumps([c["flavour"], c["fields"], c["xor"]], sort_keys=True).encode()).hexdigest()[:16])
        drop_module(mod)
    for c in cases[:1] + cases[-1:]:
        res["samples"].append({"flavour": c["flavour"], "fields": c["fields"], "xor": c["xor"], "known_class": c["known"],
                               "rows": c["tab"][:3]})
    return res


def roundtrip_one(scratch, case, level):
    """replay of one definition (one-row table for behaviour/run levels)."""
    exe = make_exe(scratch)
    mod = load_source(scratch, def_src(case_to_def(case), "r0", exe, multi_out=True), "replay32")
    try:
        return roundtrip_def(getattr(mod, "K_r0"), case, exe, random.Random(0), 1 if level == "run" else 0)
    finally:
        drop_module(mod)
