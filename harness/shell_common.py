"""Shared replay code for the shell-task properties C22, C23, C24.

TLC (specs/ShellArgv_Gen.tla) enumerates shell-task definitions x value assignments and
prints, per case, the admissible argument vectors of the documented semantics (`adm`),
the named as-built prediction (`asbuilt`) and which named deviation explains it
(`explain`).  This module only materialises a case with the real pydra API
(`shell.define(exe, inputs={...})`, `Task(**values)`), observes
`task._command_args(...)`, `task.cmdline` and -- through a real Submitter run in the
native environment -- the argv received by the test double `harness/fakes/argvdump`,
and projects the observation.  For C24 the recorded (cmdline, argv) pairs are handed
back to TLC (specs/PosixWords_Gen.tla, mode "validate").

Strings are lists of code points in the specs; 1000 stands for "<scratch dir>/" and
2000 for the executable.
"""
import json
import os
import shutil
import tempfile
from concurrent.futures import ThreadPoolExecutor
from pathlib import Path

from harness import core

EXE = str(core.ROOT / "harness" / "fakes" / "argvdump")
DIR_CODE, EXE_CODE = 1000, 2000
ALPHABET = [97, 32, 9, 39, 34, 92, 36, 42, 59, 233]  # a space tab ' " \ $ * ; e-acute
SHLEX_MSG = {"noclose": "No closing quotation", "noesc": "No escaped character"}

# set by prepare() in the parent before core.pmap forks the workers
FILES = None


def prepare(ctx):
    """Scratch area for input files / cache roots; make sure the test double is executable."""
    global FILES
    FILES = str(ctx.scratch / "files")
    os.makedirs(FILES, exist_ok=True)
    # private persistent file-hash store: the shared default (~/.cache/.../hashes) is scanned
    # entry by entry at the end of every job
    hashes = ctx.scratch / "hashes"
    hashes.mkdir(exist_ok=True)
    os.environ["PYDRA_HASH_CACHE"] = str(hashes)
    if not os.access(EXE, os.X_OK):
        os.chmod(EXE, 0o755)
    return FILES


# ---------------------------------------------------------------- TLC side
def gen_cfg(ctx, name, mode, shard=0, nshards=1, seed=0, nsamples=0, chars=False, minl=1, maxl=1,
            invariants=("Emit", "Theorems")):
    txt = f"""INIT Init
NEXT Next
CONSTANTS
  Mode = "{mode}"
  Shard = {shard}
  NShards = {nshards}
  Seed = {seed}
  NSamples = {nsamples}
  Chars = {"TRUE" if chars else "FALSE"}
  Alphabet = {{{", ".join(str(c) for c in ALPHABET)}}}
  MinL = {minl}
  MaxL = {maxl}
""" + "".join(f"INVARIANT {i}\n" for i in invariants) + "CHECK_DEADLOCK FALSE\n"
    p = ctx.scratch / f"{name}.cfg"
    p.write_text(txt)
    return p


def generate(ctx, mode, nshards=1, **kw):
    """Run ShellArgv_Gen (possibly sharded over TLC processes); returns the printed cases."""
    return generate_many(ctx, [(mode, nshards, kw)])


def generate_many(ctx, jobs, max_procs=8):
    """jobs = [(mode, nshards, kwargs[, shards_to_run])]: all TLC processes run concurrently;
    returns the cases (numbered in `k`) in job order."""
    jobs = [tuple(j) + (None,) * (4 - len(j)) for j in jobs]   # optional 4th item: the shards to run
    units = [(j, sh) for j, (_, n, _, only) in enumerate(jobs) for sh in (range(n) if only is None else only)]

    def one(u):
        j, sh = u
        mode, n, kw, _ = jobs[j]
        cfg = gen_cfg(ctx, f"argv_{j}_{mode}_{sh}", mode, shard=sh, nshards=n, **kw)
        return ctx.tlc("ShellArgv_Gen", cfg=cfg, workers=1, timeout=3000)

    if len(units) == 1:
        rs = [one(units[0])]
    else:
        with ThreadPoolExecutor(max_workers=min(len(units), max_procs)) as ex:
            rs = list(ex.map(one, units))
    cases = []
    for r in rs:
        cs = r.printed()
        if len(cs) != r.distinct:
            raise core.MachineryError(f"ShellArgv_Gen printed {len(cs)} cases for {r.distinct} states")
        cases.extend(cs)
    for k, c in enumerate(cases):
        c["k"] = k
    return cases


# ---------------------------------------------------------------- decoding
def dec(codes):
    """spec string (list of codes) -> python str"""
    out = []
    for c in codes:
        if c == DIR_CODE:
            out.append(FILES + "/")
        elif c == EXE_CODE:
            out.append(EXE)
        else:
            out.append(chr(c))
    return "".join(out)


def dec_argv(av):
    return [dec(w) for w in av]


def enc(s):
    return [ord(ch) for ch in s]


def expected_adm(case):
    return [dec_argv(a) for a in case["adm"]]


def expected_asbuilt(case):
    ab = case["asbuilt"]
    if ab["rejected"]:
        return {"err": "rejected", "argv": None}
    if ab["err"]:
        return {"err": "ValueError: " + SHLEX_MSG[ab["err"]], "argv": None}
    return {"err": None, "argv": dec_argv(ab["argv"])}


# ---------------------------------------------------------------- pydra side
def field_name(f):
    return f"x{f['id']}"


def argstr_of(f):
    letter = chr(111 + f["id"])
    n = field_name(f)
    s = {"none": None, "bare": "", "flag": f"-{letter}", "flagtpl": f"-{letter} {{{n}}}",
         "eqtpl": f"--{letter}={{{n}}}"}[f["form"]]
    if f["rep"]:
        s += "..."
    return s


def make_arg(f):
    import typing as ty  # noqa
    from fileformats.generic import File
    from pydra.compose import shell
    from pydra.utils.typing import MultiInputObj

    tp = {"bool": bool, "str": str, "int": int, "float": float, "file": File, "list": list[str],
          "multi": MultiInputObj[str]}[f["kind"]]
    kw = {"argstr": argstr_of(f), "position": (f["pos"] or None)}
    if f["kind"] in ("list", "multi"):
        kw["sep"] = chr(f["sep"])
    if f["opt"]:
        tp = tp | None
        kw["default"] = None
    return shell.arg(type=tp, **kw)


NOT_PASSED = object()


def make_value(f, v):
    k = v["k"]
    if k == "unset":
        return NOT_PASSED
    if k == "none":
        return None
    if k in ("true", "false"):
        return k == "true"
    es = [dec(e) for e in v["es"]]
    if k == "list":
        return es
    s = es[0]
    if k == "single":
        return s
    kind = f["kind"]
    if kind == "int":
        return int(s)
    if kind == "float":
        return float(s)
    if kind == "file":
        p = Path(s)
        if not p.exists():
            p.parent.mkdir(parents=True, exist_ok=True)
            p.write_bytes(s.encode("utf-8", "surrogateescape"))
        return p
    return s


_CLASSES = {}


def materialise(case):
    """-> (TaskClass, kwargs).  Task classes are memoised per definition (per process): the
    class is built by the real shell.define either way, instances are never shared."""
    from pydra.compose import shell

    key = json.dumps(case["def"], sort_keys=True)
    T = _CLASSES.get(key)
    if T is None:
        inputs = {field_name(f): make_arg(f) for f in case["def"]}
        T = shell.define(EXE, inputs=inputs)
        if len(_CLASSES) > 4000:
            _CLASSES.clear()
        _CLASSES[key] = T
    kwargs = {}
    for f, v in zip(case["def"], case["vals"]):
        pv = make_value(f, v)
        if pv is not NOT_PASSED:
            kwargs[field_name(f)] = pv
    if case["app"]:
        kwargs["append_args"] = [dec(a) for a in case["app"]]
    return T, kwargs


def _err(e):
    return f"{type(e).__name__}: {str(e)[:160]}"


def observe(case, execute=False):
    """Run the real code on a case.  Returns a JSON-able observation:
       define_err / init_err      the definition or the value assignment was refused
       err, argv                  task._command_args(values)
       cmdline, cmdline_err       task.cmdline
       exec_argv, exec_err        argv received by the executed test double (when execute)"""
    from pydra.utils.general import attrs_values

    obs = {"define_err": None, "init_err": None, "err": None, "argv": None, "cmdline": None,
           "cmdline_err": None, "exec_argv": None, "exec_err": None, "executed": False}
    try:
        T, kwargs = materialise(case)
    except Exception as e:  # noqa
        obs["define_err"] = _err(e)
        return obs
    try:
        task = T(**kwargs)
    except Exception as e:  # noqa
        obs["init_err"] = _err(e)
        return obs
    try:
        obs["argv"] = [str(a) for a in task._command_args(values=attrs_values(task))]
    except Exception as e:  # noqa
        obs["err"] = _err(e)
    try:
        obs["cmdline"] = task.cmdline
    except Exception as e:  # noqa
        obs["cmdline_err"] = _err(e)
    if execute:
        obs["executed"] = True
        tmp = tempfile.mkdtemp(prefix="run_", dir=FILES)
        out = os.path.join(tmp, "argv.bin")
        os.environ["VERIF_ARGV_OUT"] = out
        try:
            task(cache_root=os.path.join(tmp, "cache"), worker="debug")
            raw = open(out, "rb").read()
            parts = raw.split(b"\0")
            if parts[-1] != b"":
                raise core.MachineryError("argvdump record not NUL-terminated")
            obs["exec_argv"] = [p.decode("utf-8", "surrogateescape") for p in parts[:-1]]
        except core.MachineryError:
            raise
        except Exception as e:  # noqa
            obs["exec_err"] = _err(e)
            if os.path.exists(out):
                obs["exec_err"] += " [but the command was started]"
        finally:
            os.environ.pop("VERIF_ARGV_OUT", None)
            shutil.rmtree(tmp, ignore_errors=True)
    return obs


def observe_exec(case):
    return observe(case, execute=True)


def observe_noexec(case):
    return observe(case, execute=False)


def observe_all(cases, exec_keys=(), procs=8):
    """Observe every case ({k: observation}); those whose k is in exec_keys are also executed.
    `_command_args`-level observations are cheap (~1.5 ms) and run in this process: on the
    build machine a fork pool costs more than it saves for them.  Executions (one subprocess
    each) go through core.pmap."""
    exec_keys = set(exec_keys)
    plain = [c for c in cases if c["k"] not in exec_keys]
    execd = [c for c in cases if c["k"] in exec_keys]
    obs = {}
    if len(plain) > 20000:
        obs.update(zip((c["k"] for c in plain), core.pmap(observe_noexec, plain, procs=4, chunksize=1000)))
    else:
        for c in plain:
            obs[c["k"]] = observe(c)
    if execd:
        obs.update(zip((c["k"] for c in execd), core.pmap(observe_exec, execd, procs=procs, chunksize=4)))
    return obs


def project(obs):
    """What is compared with the spec: {'err', 'argv'}; the executed argv when the case was
    executed, else the vector handed to the environment."""
    if obs["define_err"]:
        return {"err": "define: " + obs["define_err"], "argv": None}
    if obs["init_err"]:
        return {"err": "init: " + obs["init_err"], "argv": None}
    if obs["err"]:
        return {"err": obs["err"], "argv": None}
    if obs["executed"] and obs["exec_argv"] is not None:
        return {"err": None, "argv": obs["exec_argv"]}
    return {"err": None, "argv": obs["argv"]}


KNOWN_IDS = {
    "C22": {"position": ["C22-implicit-position-gap"], "falsy": ["C22-falsy-scalar-dropped"],
            "position+falsy": ["C22-implicit-position-gap", "C22-falsy-scalar-dropped"]},
    "C23": {"retokenise-whitespace": ["C23-retokenise-whitespace"],
            "retokenise-quote": ["C23-retokenise-quote"],
            "retokenise-backslash": ["C23-retokenise-backslash"]},
}


def classify(case, obs, adm=None, asbuilt=None):
    """Pure verdict of one case: (verdict, detail)
       'ok'           observed argv is one of the admissible vectors (detail: index)
       'rejected'     the as-built model predicts a definition-time refusal and pydra refused
                      (no argv exists; outside the statement, recorded as an observation)
       'asbuilt'      not admissible, but exactly the named as-built prediction (detail: explain)
       'mismatch'     anything else
       'inconsistent' the executed argv differs from the vector handed to the environment"""
    adm = expected_adm(case) if adm is None else adm
    asbuilt = expected_asbuilt(case) if asbuilt is None else asbuilt
    if obs["define_err"]:
        if case["explain"] == "rejected" and "overlapping positions" in obs["define_err"]:
            return "rejected", obs["define_err"]
        return "mismatch", "definition refused"
    if obs["executed"] and obs["err"] is None:
        if obs["exec_argv"] is None:
            return "inconsistent", f"command args built but execution failed: {obs['exec_err']}"
        if obs["exec_argv"] != obs["argv"]:
            return "inconsistent", "executed argv differs from _command_args()"
    if obs["executed"] and obs["err"] is not None and obs["exec_err"] is not None \
            and "command was started" in obs["exec_err"]:
        return "inconsistent", "command started although _command_args() raises"
    p = project(obs)
    if p["err"] is None and p["argv"] in adm:
        return "ok", adm.index(p["argv"])
    if case["explain"] not in ("ideal", "rejected", "unexplained") and _same(p, asbuilt):
        return "asbuilt", case["explain"]
    return "mismatch", None


def _same(p, asbuilt):
    if asbuilt["err"] is None:
        return p["err"] is None and p["argv"] == asbuilt["argv"]
    return p["err"] is not None and p["err"].startswith(asbuilt["err"])


def report(ctx, prop, case, obs, verdict, detail, level):
    """Turn a verdict into ctx calls.  Known findings only through the named as-built
    prediction (ctx.judge); a deviation that needs two named switches needs both entries."""
    if verdict in ("ok", "rejected"):
        return
    adm = expected_adm(case)
    p = project(obs)
    cs = {"tlc": case, "level": level}
    if verdict == "asbuilt":
        ids = KNOWN_IDS.get(prop, {}).get(detail)
        ab = expected_asbuilt(case)
        ab_cmp = p if _same(p, ab) else ab   # error messages are matched by prefix
        if ids and len(ids) == 1:
            ctx.judge(False, f"argv is not admissible; deviation class {detail}", case=cs, expected=adm,
                      observed=p, known_id=ids[0], asbuilt=ab_cmp)
            return
        if ids and all(ctx.known.get(i, {}).get("status") == "known" for i in ids):
            for i in ids:
                ctx.known_finding(i, {"case": cs, "expected": adm, "observed": p})
            return
        ctx.violation(f"argv is not admissible; deviation class {detail}", case=cs, expected=adm, observed=p,
                      asbuilt=ab, known_id=ids)
        return
    what = {"mismatch": "argv is neither admissible nor the named as-built prediction",
            "inconsistent": f"binding: {detail}"}[verdict]
    ctx.violation(what, case=cs, expected=adm, observed={"projected": p, "raw": obs},
                  asbuilt=expected_asbuilt(case), explain=case["explain"])


def describe(case):
    """Readable rendering of a case (for samples / observations)."""
    fs = []
    for f, v in zip(case["def"], case["vals"]):
        val = {"unset": "<unset>", "none": "None", "true": "True", "false": "False"}.get(v["k"])
        if val is None:
            es = ["".join(chr(c) if c < 1000 else "<dir>/" for c in e) for e in v["es"]]
            val = es if v["k"] == "list" else es[0]
        fs.append(f"{field_name(f)}:{f['kind']}{'?' if f['opt'] else ''} argstr={argstr_of(f)!r}"
                  + (f" sep={chr(f['sep'])!r}" if f["kind"] in ("list", "multi") else "")
                  + (f" position={f['pos']}" if f["pos"] else "") + f" = {val!r}")
    app = ["".join(chr(c) for c in a) for a in case["app"]]
    return {"fields": fs, "append_args": app}


def selftest_binding(cases):
    """Flip expected values and require the judge to notice (binding self-test)."""
    n = 0
    for case in cases:
        adm = expected_adm(case)
        if len(adm[0]) < 2:
            continue
        good = {"define_err": None, "init_err": None, "err": None, "argv": list(adm[0]), "cmdline": None,
                "cmdline_err": None, "exec_argv": None, "exec_err": None, "executed": False}
        assert classify(case, good)[0] == "ok"
        bad_adm = [a[:1] + a[1:][::-1] + ["<flipped>"] for a in adm]
        if classify(case, good, adm=bad_adm)[0] == "ok":
            raise core.MachineryError("binding self-test: corrupted expectation was not noticed")
        dropped = dict(good, argv=good["argv"][:-1])
        if classify(case, dropped)[0] == "ok":
            raise core.MachineryError("binding self-test: dropped argument was not noticed")
        n += 1
        if n >= 5:
            break
    if n == 0:
        raise core.MachineryError("binding self-test: no usable case")


# ---------------------------------------------------------------- C24: PosixWords (M4)
def posix_cfg(ctx, name, mode, shard=0, nshards=1, minl=0, maxl=1):
    txt = f"""INIT Init
NEXT Next
CONSTANTS
  Mode = "{mode}"
  Shard = {shard}
  NShards = {nshards}
  Alphabet = {{{", ".join(str(c) for c in ALPHABET)}}}
  MinL = {minl}
  MaxL = {maxl}
INVARIANT Emit
INVARIANT Theorems
CHECK_DEADLOCK FALSE
"""
    p = ctx.scratch / f"{name}.cfg"
    p.write_text(txt)
    return p


def posix_strings(ctx, maxl, nshards=1, only=None, minl=0):
    """Mode 'strings': the machine stepped over every string (of the shards in `only`);
    returns [{s, status, words}]."""

    def one(sh):
        cfg = posix_cfg(ctx, f"posix_strings_{minl}_{maxl}_{sh}", "strings", shard=sh, nshards=nshards, minl=minl,
                        maxl=maxl)
        return ctx.tlc("PosixWords_Gen", cfg=cfg, workers=1, timeout=3000)

    shards = list(range(nshards)) if only is None else list(only)
    if len(shards) == 1:
        rs = [one(shards[0])]
    else:
        with ThreadPoolExecutor(max_workers=min(len(shards), 8)) as ex:
            rs = list(ex.map(one, shards))
    out = []
    for r in rs:
        out.extend(r.printed())
    return out


def posix_validate(ctx, pairs, nshards=1):
    """Mode 'validate' (M4): pairs = [{k, cl: str, av: [str]}] -> {k: verdict record}."""
    path = ctx.scratch / "posix_recs.ndjson"
    with open(path, "w") as f:
        for p in pairs:
            f.write(json.dumps({"k": p["k"], "cl": enc(p["cl"]), "av": [enc(a) for a in p["av"]]}) + "\n")

    def one(sh):
        cfg = posix_cfg(ctx, f"posix_validate_{sh}", "validate", shard=sh, nshards=nshards)
        return ctx.tlc("PosixWords_Gen", cfg=cfg, workers=1, timeout=3000, env={"POSIX_RECS": str(path)})

    if nshards == 1:
        rs = [one(0)]
    else:
        with ThreadPoolExecutor(max_workers=min(nshards, 12)) as ex:
            rs = list(ex.map(one, range(nshards)))
    res = {}
    for r in rs:
        for v in r.printed():
            res[v["k"]] = v
    if len(res) != len(pairs):
        raise core.MachineryError(f"PosixWords_Gen validated {len(res)} of {len(pairs)} recorded pairs")
    return res


SH_SCRIPT = r"""for s do ( eval "printf '%s\\0' X $s" ) 2>/dev/null; printf '\001%d\001' $?; done"""


def sh_split(strings, workdir):
    """What /bin/sh does with each source string used as the argument part of a command:
    returns a list of (rc, [words]).  One /bin/sh process per call; every string is parsed by
    `eval` in a subshell of its own (a syntax error only ends that subshell)."""
    import subprocess

    if not strings:
        return []
    args = [s.encode("utf-8", "surrogateescape") for s in strings]
    p = subprocess.run([b"/bin/sh", b"-c", SH_SCRIPT.encode(), b"sh"] + args, cwd=workdir, capture_output=True,
                       timeout=300, env={"PATH": "/nonexistent", "LC_ALL": "C"})
    parts = p.stdout.split(b"\001")
    if len(parts) != 2 * len(strings) + 1 or parts[-1] != b"":
        raise core.MachineryError(f"/bin/sh cross-check: unparsable output ({len(parts)} parts for {len(strings)} strings)")
    res = []
    for i in range(len(strings)):
        blob, rc = parts[2 * i], int(parts[2 * i + 1])
        ws = blob.split(b"\0")
        words = [w.decode("utf-8", "surrogateescape") for w in ws[:-1]][1:] if blob else None
        res.append((rc, words))
    return res
