"""./check --selftest : the binding between the specifications and the code is demonstrated, not assumed.

For each trace-validated family one real execution is recorded, validated (must be ACCEPTED), then
mutilated the way a wrong hook or a wrong implementation would - an event dropped, two events swapped, a
logged field corrupted - and validated again (every mutilated trace must be REJECTED).  A family whose
validator accepts a mutilated trace is a machinery failure (exit 1)."""
import copy
import json

from harness import core


def _job_traces(ctx):
    from harness import job_common as jc
    spec = {"kind": "seq", "task": "Work", "init": {"root": "absent"}, "procs": [{"p": "p1"}, {"p": "p2"}], "timeout": 120}
    o = jc.execute_robust(spec)
    ev = o["ev"]
    names = [e["a"] for e in ev]
    muts = {"recorded": ev}

    def drop(a):
        i = names.index(a)
        return ev[:i] + ev[i + 1:]

    def swap(a, b):
        i, j = names.index(a), names.index(b)
        e = list(ev)
        e[i], e[j] = e[j], e[i]
        return e
    muts["dropped SaveResult (hook removed)"] = drop("SaveResult")
    muts["dropped Acquire"] = drop("Acquire")
    muts["BodyStart and SaveResult swapped"] = swap("BodyStart", "SaveResult")
    # the second submission claims to have executed the body although a complete result was listed
    second = [k for k, e in enumerate(ev) if e["a"] == "CheckHit"]
    if second:
        e = copy.deepcopy(ev)
        e[second[0]]["a"] = "CheckMiss"
        muts["cache hit logged as a miss"] = e
    fs = [k for k, e in enumerate(ev) if e["a"] == "Release" and "fs" in e]
    if fs:
        e = copy.deepcopy(ev)
        e[fs[0]]["fs"] = dict(e[fs[0]]["fs"], res="none")
        muts["logged file-system state corrupted (result missing at release)"] = e
    traces = [{"tid": k, "init": {}, "ev": m} for k, m in enumerate(muts.values(), 1)]
    v = jc.validate_traces(ctx, traces, "ideal")
    return [(name, v[k]["verdict"][0] == "accepted") for k, name in enumerate(muts, 1)]


def _sub_traces(ctx):
    from harness import sub_common as sc
    behs = sc.tlc_schedules(ctx, "selftest_sched", "GChain3", "K0", fails="none", simulate=20, seed=1)
    spec = sc.schedules_to_specs(behs[:1], "cf")[0]
    o = sc.run_and_trace(spec)
    ev = o["ev"]
    names = [e["a"] + e.get("n", "") for e in ev]
    muts = {"recorded": ev}
    i = names.index("launchb")
    muts["dropped launch(b)"] = ev[:i] + ev[i + 1:]
    sa, sb = names.index("Sa"), names.index("Sb")
    e = list(ev)
    e[sa], e[sb] = e[sb], e[sa]
    muts["b starts before its predecessor a"] = e
    e = copy.deepcopy(ev)
    e[-1]["outcome"] = "error"
    muts["outcome corrupted"] = e
    items = [(k, spec, m) for k, m in enumerate(muts.values(), 1)]
    v = sc.validate(ctx, items)
    return [(name, v[k]["verdict"][0] == "accepted") for k, name in enumerate(muts, 1)]


def _ship_traces(ctx):
    import os
    from harness.props import C29
    cases = [{"task": {"kind": "py", "x": 3}, "cfg": {"worker": "cf", "how": "instance", "variant": 1, "runnable": True, "n_ro": 0,
                                                        "audit": "NONE", "maxc": 0}}]
    rec = C29.run_batch(cases)[0]
    ev = [{"a": e["a"], "where": e.get("where", ""), "p": e.get("p") or "", "out": e.get("out") or ""} for e in rec["ev"]]
    muts = {"recorded": ev}
    e = copy.deepcopy(ev)
    k = [i for i, x in enumerate(e) if x["a"] == "Project" and x["where"] == "child"][0]
    e[k]["p"] = e[k]["p"].replace('"n_procs": 1', '"n_procs": 16')
    muts["worker parameter changed by shipping"] = e
    e = copy.deepcopy(ev)
    k = [i for i, x in enumerate(e) if x["a"] == "ReadBack"][0]
    e[k]["out"] = json.dumps({"out": -1})
    muts["result read back differs"] = e
    f = ctx.scratch / "selftest_ship.ndjson"
    f.write_text("".join(json.dumps({"tid": k, "ev": m}) + "\n" for k, m in enumerate(muts.values(), 1)))
    tl = ctx.tlc("Shipping", cfg="Shipping.cfg", workers=1, env={"TRACE_FILE": str(f)})
    v = {r["tid"]: r for r in tl.printed()}
    return [(name, v[k]["verdict"][0] == "accepted") for k, name in enumerate(muts, 1)]


def _prov_traces(ctx):
    from harness.props import C36
    case = {"kind": "wf_ok", "flag": "PROV", "worker": "debug"}
    o = C36.run_one(case)
    t = C36.build_trace(case, o)
    muts = {"recorded": t}
    ev = t["ev"]
    ends = [k for k, e in enumerate(ev) if e["a"] == "end"]
    starts = [k for k, e in enumerate(ev) if e["a"] == "start"]
    m = copy.deepcopy(t)
    m["ev"][ends[0]]["id"], m["ev"][ends[-1]]["id"] = m["ev"][ends[-1]]["id"], m["ev"][ends[0]]["id"]
    muts["end records of two jobs carry each other's id"] = m
    m = copy.deepcopy(t)
    del m["ev"][ends[0]]
    muts["one end record missing"] = m
    m = copy.deepcopy(t)
    m["ev"].insert(starts[0], dict(m["ev"][starts[0]]))
    muts["a start record emitted twice"] = m
    f = ctx.scratch / "selftest_prov.ndjson"
    f.write_text("".join(json.dumps(dict(m, tid=k)) + "\n" for k, m in enumerate(muts.values(), 1)))
    r = ctx.tlc("Provenance_Trace", cfg="Provenance_Trace.cfg", workers=1, env={"TRACE_FILE": str(f)})
    verdicts = {}
    for rec in r.printed():
        verdicts.setdefault(rec["tid"], []).append(rec)
    return [(name, any(v["verdict"][0] == "accepted" for v in verdicts.get(k, []))) for k, name in enumerate(muts, 1)]


def main():
    ctx = core.Ctx("selftest", "quick")
    bad = 0
    for fam, fn in (("JobProtocol_Trace (C10-C13, C35)", _job_traces), ("Submitter_Trace (C14-C16, C18)", _sub_traces),
                    ("Shipping (C29)", _ship_traces), ("Provenance_Trace (C36)", _prov_traces)):
        try:
            res = fn(ctx)
        except Exception as e:  # noqa
            print(f"FAIL {fam}: {type(e).__name__}: {str(e)[:300]}")
            bad += 1
            continue
        for name, accepted in res:
            want = name == "recorded"
            ok = accepted == want
            print(f"{'ok  ' if ok else 'FAIL'} {fam}: {name}: {'accepted' if accepted else 'rejected'}")
            bad += 0 if ok else 1
    return 1 if bad else 0
