"""Shared replay code for the execution-environment properties C27 and C39.

C27 (specs/ContainerEnv.tla, ContainerEnv_Gen.tla): TLC enumerates shell definitions with
file / list-of-file inputs x directory layouts x copy modes x command-line order x roots x
{Docker, Singularity} and computes the expected container invocation.  Here every case is
materialised with the real pydra API (definitions are emitted as distinct source text),
run through a real Submitter/Job with `pydra.environments.base.execute` replaced *in this
process* by a recorder (there is no container runtime in the sandbox), and the recorded
command line is projected onto the spec's vocabulary (symbolic paths /T, /T/cache,
/T/cache/JOB; canonical option groups).

C39 (specs/LmodEnv.tla, LmodEnv_Gen.tla): TLC enumerates caller environments x module
scripts and computes the expected child environment.  Here MODULESHOME points at the fake
lmod (harness/fakes/lmod) that prints the case's python-style output, the task's executable
(harness/fakes/dumpenv) dumps the environment block and argv it was started with, and the
dump is projected onto the spec's observed variables.

This module only drives and projects; every expected value comes from TLC.
"""
from __future__ import annotations

import hashlib
import importlib.util
import json
import os
import re
import shutil
import sys
import tempfile
from concurrent.futures import ThreadPoolExecutor
from pathlib import Path

from harness import core

FAKES = core.ROOT / "harness" / "fakes"


def workers(cap=16):
    """Number of parallel workers: the free cores, at least 2.  On an overloaded machine more
    processes make the replay slower, not faster (measured: negative scaling at load > 3x cores)."""
    try:
        free = (os.cpu_count() or 4) - os.getloadavg()[0]
    except OSError:
        free = cap
    return int(max(2, min(cap, free)))


# --------------------------------------------------------------------------- TLC
def _fmt(v):
    if isinstance(v, bool):
        return "TRUE" if v else "FALSE"
    if isinstance(v, int):
        return str(v)
    if isinstance(v, str):
        return '"' + v + '"'
    if isinstance(v, (set, frozenset, list, tuple)):
        return "{" + ", ".join(_fmt(x) for x in sorted(v, key=str)) + "}"
    raise core.MachineryError(f"cannot write constant {v!r} into a cfg")


def write_cfg(ctx, name, constants):
    txt = "INIT Init\nNEXT Next\nCONSTANTS\n"
    txt += "".join(f"  {k} = {_fmt(v)}\n" for k, v in constants.items())
    txt += "INVARIANT Emit\nINVARIANT Theorems\nCHECK_DEADLOCK FALSE\n"
    p = ctx.scratch / f"{name}.cfg"
    p.write_text(txt)
    return p


def tlc_cases(ctx, module, name, constants, nshards=1, timeout=1500):
    """Run the generator (sharded over TLC processes) and return the printed cases."""

    def one(sh):
        cfg = write_cfg(ctx, f"{name}_{sh}", {**constants, "Shard": sh, "NShards": nshards})
        return ctx.tlc(module, cfg=cfg, workers=1, timeout=timeout)

    if nshards == 1:
        rs = [one(0)]
    else:
        with ThreadPoolExecutor(max_workers=min(nshards, 12, workers())) as ex:
            rs = list(ex.map(one, range(nshards)))
    cases = []
    for r in rs:
        cs = r.printed()
        if len(cs) != r.distinct:
            raise core.MachineryError(f"{module}: printed {len(cs)} cases for {r.distinct} states")
        cases.extend(cs)
    return cases


def isolate_hash_cache(ctx):
    """Point pydra's persistent file-hash cache (documented variable PYDRA_HASH_CACHE) at the
    scratch directory: every Submitter call scans that directory (PersistentCache.clean_up),
    and the per-user default grows with every run of every check on this machine."""
    d = ctx.scratch / "hashcache"
    d.mkdir(exist_ok=True)
    os.environ["PYDRA_HASH_CACHE"] = str(d)
    # import everything the replay needs before the worker pool forks
    import fileformats.generic  # noqa
    import pydra.compose.shell  # noqa
    import pydra.engine.submitter  # noqa
    import pydra.environments.docker  # noqa
    import pydra.environments.lmod  # noqa
    import pydra.environments.native  # noqa
    import pydra.environments.singularity  # noqa


# ----------------------------------------------------------------- source modules
def load_source(src, dirpath):
    """Write generated definitions to a module file and import it (distinct source text)."""
    h = hashlib.sha1(src.encode()).hexdigest()[:16]
    name = f"verif_envdefs_{h}"
    if name in sys.modules:
        return sys.modules[name]
    path = Path(dirpath) / f"{name}.py"
    path.write_text(src)
    spec = importlib.util.spec_from_file_location(name, path)
    mod = importlib.util.module_from_spec(spec)
    sys.modules[name] = mod
    spec.loader.exec_module(mod)
    return mod


def _submit(task, env, cache_root):
    from pydra.engine.submitter import Submitter

    with Submitter(cache_root=cache_root, environment=env, worker="debug") as sub:
        res = sub(task)
    if res.errored:
        raise RuntimeError("result flagged errored")
    return res


def _errstr(e):
    return f"{type(e).__name__}: {str(e)[:300]}"


def _jobdirs(cache_root):
    p = Path(cache_root)
    return sorted(d.name for d in p.iterdir() if d.is_dir()) if p.is_dir() else []


def _norm(tok, subs):
    for a, s in subs:
        tok = tok.replace(a, s)
    return re.sub(r"/{2,}", "/", tok)


# ============================================================================ C27
class Recorder:
    """Stands in for pydra.environments.base.execute: records the command, runs nothing.
    Creates `out.txt` in the current directory (the job directory) so that a declared
    output exists afterwards - independent of the recorded command."""

    def __init__(self):
        self.calls = []

    def __call__(self, cmd, strip=False, **kwargs):
        self.calls.append(([str(x) for x in cmd], dict(kwargs)))
        Path("out.txt").write_text("o")
        return (0, "", "")


def text_str(t):
    return " ".join(t)


def comp_path(components):
    return "/".join(text_str(c) for c in components)


def c27_source(fields):
    """Source text of the shell definition of a case (fields as emitted by TLC)."""
    ins, outs = [], []
    for f in fields:
        pos = f["pos"]
        if f["kind"] == "file":
            ins.append(f'    "{f["name"]}": shell.arg(type=File, argstr={f["flag"]!r}, position={pos}, '
                       f'copy_mode=File.CopyMode.{f["copy"]}),')
        elif f["kind"] == "list":
            argstr = f["flag"] + ("..." if f["rep"] else "")
            ins.append(f'    "{f["name"]}": shell.arg(type=list[File], argstr={argstr!r}, position={pos}, '
                       f'copy_mode=File.CopyMode.{f["copy"]}),')
        elif f["kind"] == "str":
            ins.append(f'    "{f["name"]}": shell.arg(type=str, argstr={f["flag"]!r}, position={pos}),')
        elif f["kind"] == "out":
            outs.append(f'    "{f["name"]}": shell.outarg(type=File, argstr={f["flag"]!r}, position={pos}, '
                        f'path_template={f["word"]!r}),')
        else:
            raise core.MachineryError(f"unknown field kind {f['kind']}")
    return ("from fileformats.generic import File\nfrom pydra.compose import shell\n\n"
            "Tool = shell.define(\n    \"tool\",\n    inputs={\n" + "\n".join(ins) + "\n    },\n"
            "    outputs={\n" + "\n".join(outs) + "\n    },\n    name=\"Tool\",\n)\n")


def c27_key(case):
    return json.dumps(case["c"]["fields"], sort_keys=True)


def c27_groups(cases):
    groups = {}
    for c in cases:
        groups.setdefault(c27_key(c), []).append(c)
    return list(groups.values())


def c27_parse(cmd, case, open_dirs):
    """Project a recorded container command line onto the spec's vocabulary."""
    exp = case["prefix"]
    nrt = len(exp["rt"])
    image = exp["image"]
    # the image argument: NAME or NAME:TAG (how the tag is written is outside the statement)
    idx = [k for k in range(nrt, len(cmd)) if cmd[k] == image or cmd[k].startswith(image + ":")]
    if not idx:
        return {"unparsed": cmd}
    i = idx[0]
    opts, argv = cmd[nrt:i], cmd[i + 1:]
    xa = set(case["c"]["xargs"])
    bflags, wflags = set(case["bflags"]), set(case["wflags"])
    extra, groups = [], []
    for t in opts:
        if t in xa:
            extra.append(t)
        elif t in bflags:
            groups.append(["B"])
        elif t in wflags:
            groups.append(["W"])
        elif groups:
            groups[-1].append(t)
        else:
            extra.append(t)
    binds, open_modes = [], {}
    for g in groups:
        if g[0] != "B":
            continue
        if len(g) == 2:
            parts = g[1].split(":")
            if len(parts) == 3 and parts[0] in open_dirs:
                open_modes[parts[0]] = parts[2]
                parts[2] = "*"
                g = ["B", ":".join(parts)]
        binds.append(g)
    dup = len(binds) - len({tuple(b) for b in binds})
    prefix = {"rt": cmd[:nrt], "xargs": extra, "binds": sorted([list(b) for b in {tuple(b) for b in binds}]),
              "wd": [g for g in groups if g[0] == "W"], "image": image}
    return {"prefix": prefix, "argv": argv, "dup_binds": dup, "image_token": cmd[i],
            "open_modes": open_modes}


def norm_prefix(p):
    q = dict(p)
    q["binds"] = sorted(list(b) for b in p["binds"])
    return q


def c27_run_group(args):
    """Materialise one definition + layout, run it natively and under every container
    configuration of the group.  Returns [(case, obs)]."""
    cases, scratch = args
    import pydra.environments.base as envbase
    from fileformats.generic import File
    from pydra.environments import docker, native, singularity

    tmp = Path(tempfile.mkdtemp(prefix="g", dir=scratch)).resolve()
    rec = Recorder()
    orig = envbase.execute
    envbase.execute = rec
    try:
        fields = cases[0]["c"]["fields"]
        vals = {}
        for f in fields:
            if f["kind"] in ("file", "list"):
                fs = []
                for fl in f["files"]:
                    d = tmp / comp_path(fl["dir"])
                    d.mkdir(parents=True, exist_ok=True)
                    p = d / fl["name"]
                    p.write_text("x")
                    fs.append(File(p))
                vals[f["name"]] = fs[0] if f["kind"] == "file" else fs
            elif f["kind"] == "str":
                vals[f["name"]] = f["word"]
        mod = load_source(c27_source(fields), tmp)

        def run(env, cache_root):
            rec.calls.clear()
            try:
                _submit(mod.Tool(**vals), env, cache_root)
            except Exception as e:  # noqa
                return {"err": _errstr(e)}, None
            if len(rec.calls) != 1:
                return {"err": f"execute called {len(rec.calls)} times"}, None
            jobs = _jobdirs(cache_root)
            if len(jobs) != 1:
                return {"err": f"job directories in cache root: {jobs}"}, None
            subs = [(str(cache_root / jobs[0]), "/T/cache/JOB"), (str(cache_root), "/T/cache"), (str(tmp), "/T")]
            return None, [_norm(t, subs) for t in rec.calls[0][0]]

        err, ncmd = run(native.Native(), tmp / "ncache")
        nat = err if err else ncmd
        out = []
        for k, case in enumerate(cases):
            c = case["c"]
            kw = {"image": c["image"], "xargs": list(c["xargs"])}
            if c["tag"] != "latest":
                kw["tag"] = c["tag"]
            if not case["rootdflt"]:
                kw["root"] = case["rootstr"]
            env = (docker.Docker if c["rt"] == "docker" else singularity.Singularity)(**kw)
            err, cmd = run(env, tmp / f"cache{k}")
            if err:
                obs = dict(err)
            else:
                obs = c27_parse(cmd, case, set(case["open"]))
            obs["native"] = nat
            out.append((case, obs))
        return out
    finally:
        envbase.execute = orig
        shutil.rmtree(tmp, ignore_errors=True)


def c27_verdicts(case, obs):
    """Compare an observation with the TLC-computed references.  Returns a list of
    dicts(part, ok, what, expected, observed, known_id, asbuilt, note)."""
    exp_prefix = norm_prefix(case["prefix"])
    bs = case["bsplit"]
    if bs.get("same"):  # no blank anywhere: the as-built reference equals the design (spec theorem)
        bs = {"prefix": case["prefix"], "argv": case["argv"], "native": case["native"]}
    ab_prefix = norm_prefix(bs["prefix"])
    if "err" in obs or "unparsed" in obs:
        ideal = {"prefix": exp_prefix, "argv": case["argv"]}
        o = {"err": obs["err"]} if "err" in obs else {"unparsed": obs["unparsed"]}
        return [dict(part="run", ok=False, what="container run did not produce the stated invocation",
                     expected=ideal, observed=o,
                     known_id="C27-listfile-crash" if case["haslist"] else None,
                     asbuilt={"err": case["listerr"]} if case["haslist"] else None, note=None)]
    vs = []
    vs.append(dict(part="prefix", ok=obs["prefix"] == exp_prefix,
                   what="runtime prefix (binds / working directory / image) differs from the stated one",
                   expected=exp_prefix, observed=obs["prefix"],
                   known_id="C27-bind-blank-split" if case["blankb"] else None,
                   asbuilt=ab_prefix if case["blankb"] else None, note=None))
    nat = obs["native"]
    note = None
    if obs["argv"] == case["argv"]:
        ok = True
    elif case["blanka"] and obs["argv"] == bs["argv"] and nat == bs["native"]:
        ok, note = True, "argv re-split at blanks exactly as the native argv is (C23 subject)"
    elif nat != case["native"] and not (case["blanka"] and nat == bs["native"]):
        ok, note = True, "native argv differs from the C27 reference family (C22/C23 subject): argv not judged"
    else:
        ok = False
    vs.append(dict(part="argv", ok=ok, what="container argv is not the native argv with <root> put before the paths",
                   expected=case["argv"], observed={"argv": obs["argv"], "native": nat},
                   known_id=None, asbuilt=None, note=note))
    return vs


# ============================================================================ C39
TRACKED = ["VA", "VB", "VP", "LOADEDMODULES"]
_CTRL = ["MODULESHOME", "FAKE_LMOD_CASE", "FAKE_LMOD_LOG"]


def codes_str(v):
    return "".join(chr(c) for c in v)


def as_map(x):
    """ToJson prints a function with empty domain as []"""
    return {} if isinstance(x, list) else dict(x)


def lmod_source():
    exe = str(FAKES / "dumpenv")
    flds = ('"dst": shell.arg(type=str, argstr="", position=1), '
            '"f": shell.arg(type=File, argstr="", position=2, copy_mode=File.CopyMode.%s), '
            '"x": shell.arg(type=str | None, argstr="-x", position=3, default=None)')
    return ("from fileformats.generic import File\nfrom pydra.compose import shell\n\n"
            f'DumpAny = shell.define({exe!r}, inputs={{{flds % "any"}}}, name="DumpAny")\n'
            f'DumpCopy = shell.define({exe!r}, inputs={{{flds % "copy"}}}, name="DumpCopy")\n')


def lmod_setup(scratch):
    """MODULESHOME/libexec/lmod -> the fake; returns MODULESHOME."""
    for f in (FAKES / "lmod", FAKES / "dumpenv"):
        if not os.access(f, os.X_OK):
            os.chmod(f, 0o755)
    mh = Path(scratch) / "moduleshome"
    (mh / "libexec").mkdir(parents=True, exist_ok=True)
    link = mh / "libexec" / "lmod"
    if not link.exists():
        os.symlink(FAKES / "lmod", link)
    return mh


def lmod_key(case):
    return json.dumps([case["caller"], case["av"]], sort_keys=True)


def lmod_groups(cases):
    groups = {}
    for c in cases:
        groups.setdefault(lmod_key(c), []).append(c)
    out = []
    for g in groups.values():          # keep work items small: the pool balances better
        out.extend(g[i:i + 6] for i in range(0, len(g), 6))
    return out


def lmod_run_group(args):
    """Run C39 cases sharing the caller environment and the argv variant: one native baseline
    run, then one Lmod run per case; real subprocesses.  Returns [(case, obs)]."""
    cases, scratch, mh = args
    from fileformats.generic import File
    from pydra.environments import lmod, native

    tmp = Path(tempfile.mkdtemp(prefix="l", dir=scratch)).resolve()
    saved = {k: os.environ.get(k) for k in TRACKED + _CTRL}
    try:
        mod = load_source(lmod_source(), scratch)
        first = cases[0]
        for k in TRACKED + _CTRL:
            os.environ.pop(k, None)
        for k, v in as_map(first["caller"]).items():
            if k != "AMBIENT":
                os.environ[k] = codes_str(v)
        os.environ["MODULESHOME"] = str(mh)
        os.environ["FAKE_LMOD_CASE"] = str(tmp / "case.json")
        os.environ["FAKE_LMOD_LOG"] = str(tmp / "lmod.log")
        infile = tmp / "in.txt"
        infile.write_text("x")
        cls = mod.DumpCopy if first["av"] % 2 == 1 else mod.DumpAny
        xval = "val" if first["av"] // 2 == 1 else None
        exe = str(FAKES / "dumpenv")

        def run(env, tag):
            dst = tmp / f"dump_{tag}.json"
            cache_root = tmp / f"cache_{tag}"
            caller = dict(os.environ)
            try:
                _submit(cls(dst=str(dst), f=File(infile), x=xval), env, cache_root)
                d = json.loads(dst.read_text())
            except Exception as e:  # noqa
                return {"err": _errstr(e)}
            jobs = _jobdirs(cache_root)
            if len(jobs) != 1:
                return {"err": f"job directories in cache root: {jobs}"}
            subs = {exe: "EXE", str(dst): "DST", str(infile): "T/in.txt",
                    str(cache_root / jobs[0] / "in.txt"): "JOB/in.txt"}
            return {"argv": [subs.get(t, t) for t in d["argv"]], "env": d["env"], "caller": caller}

        (tmp / "case.json").write_text(json.dumps({"script": []}))
        nat = run(native.Native(), "n")
        out = []
        for k, case in enumerate(cases):
            (tmp / "case.json").write_text(json.dumps({"script": case["script"]}))
            (tmp / "lmod.log").write_text("")
            mods = [codes_str(m) for m in case["mods"]]
            lm = run(lmod.Lmod(modules=mods), f"l{k}")
            log = (tmp / "lmod.log").read_text()
            out.append((case, lmod_project(case, nat, lm, log)))
        return out
    finally:
        for k, v in saved.items():
            if v is None:
                os.environ.pop(k, None)
            else:
                os.environ[k] = v
        shutil.rmtree(tmp, ignore_errors=True)


def _ambient(child, caller):
    names = [k for k in caller if k not in TRACKED]
    kept = [k for k in names if child.get(k) == caller[k]]
    extra = [k for k in child if k not in TRACKED and k not in caller]
    if len(kept) == len(names) and not extra:
        return [65], None
    if not kept and not extra and not any(k in child for k in names):
        return [0], None
    return [63], {"missing_or_changed": sorted(set(names) - set(kept))[:8], "extra": extra[:8]}


def lmod_project(case, nat, lm, log):
    obs = {"native_ok": None, "lmod_log": log[-600:]}
    if "err" in nat:
        obs["native_ok"] = nat["err"]
    else:
        # machinery baseline: the native child must see exactly the caller's environment
        obs["native_ok"] = True if nat["env"] == nat["caller"] else "native child environment differs from caller"
        obs["native_argv"] = nat["argv"]
    if "err" in lm:
        obs["err"] = lm["err"]
        return obs
    child, caller = lm["env"], lm["caller"]
    absent = case["absent"]

    def look(v):
        if v == "AMBIENT":
            a, detail = _ambient(child, caller)
            if detail:
                obs["ambient_detail"] = detail
            return a
        return [ord(ch) for ch in child[v]] if v in child else absent

    obs["argv"] = lm["argv"]
    obs["pass"] = {v: look(v) for v in as_map(case["pass"])}
    obs["setby"] = {v: look(v) for v in as_map(case["setby"])}
    obs["open"] = {v: look(v) for v in case["open"]}
    return obs


def lmod_verdicts(case, obs):
    vs = []
    if "err" in obs:
        return [dict(part="run", ok=False, what="task failed in the Lmod environment",
                     expected="success", observed={"err": obs["err"]}, known_id=None, asbuilt=None, note=None)]
    nat = obs.get("native_argv")
    note = None
    if obs["argv"] == case["argv"]:
        ok = True
    elif nat is not None and nat != case["native"] and obs["argv"] == nat:
        ok, note = True, "native argv differs from the C39 reference family; Lmod argv equals the native one"
    else:
        ok = False
    vs.append(dict(part="argv", ok=ok, what="argument vector differs from the native environment's",
                   expected=case["argv"], observed={"argv": obs["argv"], "native": nat},
                   known_id=None, asbuilt=None, note=note))
    exp, ab = as_map(case["pass"]), as_map(case["passAB"])
    vs.append(dict(part="pass", ok=obs["pass"] == exp,
                   what="variables the modules do not touch are not passed through unchanged",
                   expected=exp, observed=obs["pass"],
                   known_id="C39-caller-env-dropped" if ab != exp else None,
                   asbuilt=ab if ab != exp else None, note=obs.get("ambient_detail")))
    exp, ab = as_map(case["setby"]), as_map(case["setbyAB"])
    vs.append(dict(part="setby", ok=obs["setby"] == exp,
                   what="variables set by the modules do not have the values the modules gave them",
                   expected=exp, observed=obs["setby"],
                   known_id="C39-quote-regex" if ab != exp else None,
                   asbuilt=ab if ab != exp else None, note=None))
    return vs
