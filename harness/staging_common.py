"""Shared replay code for the Staging properties (C33 workflow output collection, C34 input staging).

TLC (specs/Staging_Gen.tla) generates the cases (nested values over a pool of files and
directories with colliding names) together with everything that must hold of them (leaf
pairs that must not / must share a destination, expected content, expected shape, the
copy-mode table).  This module only materialises the pool and the values, produces the
source text of the tasks/workflows, and projects what the real code returned.
"""
import importlib.util
import os
import shutil
import sys
import tempfile
from concurrent.futures import ThreadPoolExecutor
from pathlib import Path

from harness import core

ALL_OBJECTS = ["F1", "F2", "G3", "N1", "S1", "S2", "P1"]


# ------------------------------------------------------------------ TLC side
def gen_cfg(ctx, name, pool, nleaves, twofields, withmodes, shard, nshards):
    p = ctx.scratch / f"{name}.cfg"
    ps = ", ".join(f'"{o}"' for o in pool)
    p.write_text(f"""INIT Init
NEXT Next
CONSTANTS
  Pool = {{{ps}}}
  NLeaves = {nleaves}
  TwoFields = {"TRUE" if twofields else "FALSE"}
  WithModes = {"TRUE" if withmodes else "FALSE"}
  Shard = {shard}
  NShards = {nshards}
INVARIANT Emit
INVARIANT Theorems
CHECK_DEADLOCK FALSE
""")
    return p


def generate(ctx, pool, nleaves, twofields, withmodes, nshards=1, shards=None, par=8):
    """-> (pool_info, cases)"""
    shards = list(range(nshards)) if shards is None else list(shards)
    tag = "m" if withmodes else "o"

    def one(sh):
        cfg = gen_cfg(ctx, f"staging_{tag}_{len(pool)}_{nleaves}_{int(twofields)}_{sh}of{nshards}",
                      pool, nleaves, twofields, withmodes, sh, nshards)
        return ctx.tlc("Staging_Gen", cfg=cfg, workers=1, timeout=3000)

    if len(shards) == 1:
        rs = [one(shards[0])]
    else:
        with ThreadPoolExecutor(max_workers=min(len(shards), par)) as ex:
            rs = list(ex.map(one, shards))
    info, cases = None, []
    for r in rs:
        recs = r.printed()
        heads = [x for x in recs if "pool" in x]
        body = [x for x in recs if "fields" in x]
        if not heads or len(body) != r.distinct:
            raise core.MachineryError(f"Staging_Gen printed {len(body)} cases for {r.distinct} states")
        info = info or heads[0]["pool"]
        cases.extend(body)
    return info, cases


# ------------------------------------------------------------------ pool and values
def materialise_pool(root, info, salt=""):
    """create the files/directories the spec's pool describes under root; -> label -> description.
    `salt` is appended to every file's text (and stripped again by read_leaf): pydra hashes files by content,
    and its workflow construction cache would otherwise hand a later case the workflow built for an earlier
    one (with the paths of that earlier, deleted, directory) - the subject of C30, not of C33/C34."""
    root = Path(root)
    pool = {}
    info = {k: dict(v, content=[c + salt for c in v["content"]]) for k, v in info.items()}
    for lab in sorted(info, key=lambda k: (info[k]["kind"] != "dir", k)):  # directories first
        d = info[lab]
        paths = [root.joinpath(*p) for p in d["paths"]]
        if d["kind"] == "dir":
            paths[0].mkdir(parents=True, exist_ok=True)
            (paths[0] / "f.txt").write_text(d["content"][0])
        else:
            for p, c in zip(paths, d["content"]):
                p.parent.mkdir(parents=True, exist_ok=True)
                p.write_text(c)
        pool[lab] = {"kind": d["kind"], "paths": paths, "content": list(d["content"])}
    return pool


def make_obj(lab, pool):
    from fileformats.generic import Directory, File, SetOf

    d = pool[lab]
    if d["kind"] == "file":
        return File(d["paths"][0])
    if d["kind"] == "dir":
        return Directory(d["paths"][0])
    return SetOf[File](d["paths"])


def build_value(term, pool, shared=None):
    """spec term -> python value; `shared` (a dict) makes repeated objects the same python object"""
    if term["k"] == "leaf":
        if term["o"] == "#":
            return 7
        if shared is None:
            return make_obj(term["o"], pool)
        if term["o"] not in shared:
            shared[term["o"]] = make_obj(term["o"], pool)
        return shared[term["o"]]
    kids = [build_value(k, pool, shared) for k in term["kids"]]
    if term["k"] == "list":
        return kids
    if term["k"] == "tuple":
        return tuple(kids)
    return {f"k{i + 1}": v for i, v in enumerate(kids)}


def _union(ts):
    u = []
    for t in ts:
        if t not in u:
            u.append(t)
    # container arms first: pydra tries the arms in order and would turn a one-element tuple of files into a FileSet
    u.sort(key=lambda t: (t == "int", t == "FileSet"))
    return u[0] if len(u) == 1 else "ty.Union[" + ", ".join(u) + "]"


def type_text(term, exact=True):
    """type annotation (source text) that accepts the value without coercing it.  Under a tuple every position
    is typed exactly; under a list/dict the element types are united, and inner lists/tuples are typed as
    ty.Sequence[...] there (a union with both a list[...] and a tuple[...] arm would make pydra coerce one
    into the other, which is type coercion and not the subject of these properties)."""
    k = term["k"]
    if k == "leaf":
        return "int" if term["o"] == "#" else "FileSet"
    kids = term["kids"]
    if k == "tuple" and exact:
        return "tuple[" + ", ".join(type_text(x, True) for x in kids) + "]"
    inner = _union([type_text(x, False) for x in kids])
    if k == "dict":
        return f"dict[str, {inner}]"
    if not exact:
        return f"ty.Sequence[{inner}]"
    return f"list[{inner}]"


def flatten(value):
    from fileformats.core import FileSet

    if isinstance(value, FileSet):
        return [value]
    if isinstance(value, dict):
        return [x for k in value for x in flatten(value[k])]
    if isinstance(value, (list, tuple)):
        return [x for v in value for x in flatten(v)]
    return [value]


def shape_of(value):
    from fileformats.core import FileSet
    from fileformats.generic import Directory

    if isinstance(value, FileSet):
        kind = "pair" if len(value.fspaths) > 1 else ("dir" if isinstance(value, Directory) else "file")
        return {"k": "leaf", "o": kind, "kids": []}
    if isinstance(value, dict):
        if list(value) != [f"k{i + 1}" for i in range(len(value))]:
            return {"k": "dict-with-other-keys", "o": repr(list(value)), "kids": []}
        return {"k": "dict", "o": "", "kids": [shape_of(v) for v in value.values()]}
    if type(value) is list:
        return {"k": "list", "o": "", "kids": [shape_of(v) for v in value]}
    if type(value) is tuple:
        return {"k": "tuple", "o": "", "kids": [shape_of(v) for v in value]}
    if type(value) is int:
        return {"k": "leaf", "o": "int", "kids": []}
    return {"k": "leaf", "o": type(value).__name__, "kids": []}


def norm_shape(s):
    return {"k": s["k"], "o": s["o"], "kids": [norm_shape(x) for x in s["kids"]]}


def leaf_paths(leaf):
    """destination of a file leaf = its paths, in the pool's path order (.txt before .dat for the pair)"""
    return [str(p) for p in sorted(leaf.fspaths, key=lambda p: (p.suffix != ".txt", str(p)))]


def read_leaf(leaf, salt=""):
    from fileformats.core import FileSet

    if not isinstance(leaf, FileSet):
        return [str(leaf)]
    out = []
    for p in leaf_paths(leaf):
        p = Path(p)
        try:
            text = (p / "f.txt").read_text() if p.is_dir() else p.read_text()
            out.append(text[: -len(salt)] if salt and text.endswith(salt) else text)
        except OSError as e:
            out.append(f"<unreadable: {type(e).__name__}>")
    return out


def inside(path, directory):
    """lexically inside and, after resolving links of the PARENT chain, still inside"""
    path, directory = Path(path), Path(directory)
    try:
        path.relative_to(directory)
    except ValueError:
        return False
    return True


def tree_of(directory, skip=()):
    out = []
    for dp, dn, fn in os.walk(directory, followlinks=False):
        for n in dn + fn:
            p = Path(dp) / n
            rel = str(p.relative_to(directory))
            if rel.split("/")[0] in skip:
                continue
            out.append(rel)
    return sorted(out)


# ------------------------------------------------------------------ generated definitions
def load_defs(ctx, name, text):
    """write distinct source text to a module file in the scratch directory and import it"""
    path = ctx.scratch / f"{name}.py"
    path.write_text(text)
    spec = importlib.util.spec_from_file_location(name, path)
    mod = importlib.util.module_from_spec(spec)
    sys.modules[name] = mod
    spec.loader.exec_module(mod)
    return mod


HEADER = """import typing as ty
from fileformats.core import FileSet
from fileformats.generic import File, Directory
from pydra.compose import python, workflow
"""


def private_hash_cache(ctx):
    """pydra's persistent file-hash cache lives in a per-user directory that every Submitter run scans
    completely (PersistentCache.clean_up); on a shared machine it holds tens of thousands of entries.  The
    documented variable PYDRA_HASH_CACHE moves it into the scratch directory of this run."""
    d = ctx.scratch / "hashcache"
    d.mkdir(exist_ok=True)
    os.environ["PYDRA_HASH_CACHE"] = str(d)


BASE = None  # set by the driver to ctx.scratch before the fork pool starts


class Scratch:
    def __init__(self, prefix):
        self.path = Path(tempfile.mkdtemp(prefix=prefix, dir=BASE)).resolve()

    def __enter__(self):
        return self.path

    def __exit__(self, *a):
        shutil.rmtree(self.path, ignore_errors=True)
