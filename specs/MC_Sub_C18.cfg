SPECIFICATION FairSpec
CONSTANTS
  Graphs <- Small
  Ks <- KAll
  FailChoices = "any"
  SliceIgnoresRunning = FALSE
  RunningLoopRaises = FALSE
CHECK_DEADLOCK FALSE
PROPERTY Terminates
