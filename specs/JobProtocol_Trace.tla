------------------------- MODULE JobProtocol_Trace -------------------------
(* Mode M4: batched, monitor-style validation of traces recorded from the   *)
(* real pydra (hook points of pydra.engine._verif, normalised by            *)
(* harness/job_common.py) against the UNMODIFIED actions of JobProtocol.    *)
(* One ndjson line per trace:                                               *)
(*   {"tid": n, "init": {"root": <dir>, "ro1": <dir>, "ro2": <dir>},        *)
(*    "ev": [ {"a": <action>, "p": <proc>, ...logged fields...}, ... ]}     *)
(* Verdict per trace (total): accepted | rejected at event l (+ action) |   *)
(* invariant <name> violated at event l.                                    *)
EXTENDS JobProtocol, Json, IOUtils

Traces == ndJsonDeserialize(IOEnv.TRACE_FILE)

VARIABLES tid, l, verdict
tvars == <<vars, tid, l, verdict>>

T  == Traces[tid]
Ev == T.ev
Has(e, f) == f \in DOMAIN e

ToDir(d) == DirState(d.ex, d.job, d.res, d.errf)

TraceInit ==
  /\ tid \in 1..Len(Traces)
  /\ l = 1 /\ verdict = <<"run">>
  /\ dir = [c \in CacheSet |-> ToDir(Traces[tid].init[c])]
  /\ lock = "free"
  /\ alive = [p \in Procs |-> TRUE]
  /\ pc = [p \in Procs |-> "idle"]
  /\ cwd = [p \in Procs |-> "home"]
  /\ info = [p \in Procs |-> FALSE]
  /\ rr = [p \in Procs |-> FALSE]
  /\ subs = [p \in Procs |-> 0]
  /\ exc = [p \in Procs |-> "none"]
  /\ ret = [p \in Procs |-> "none"]
  /\ outcome = [p \in Procs |-> "none"]
  /\ preTask = [p \in Procs |-> 0]
  /\ postTask = [p \in Procs |-> 0]
  /\ bodyStarts = 0 /\ bodyEnds = 0 /\ crashes = 0 /\ raises = 0
  /\ okAtCheck = [p \in Procs |-> FALSE]
  /\ executed = [p \in Procs |-> FALSE]
  /\ touched = FALSE

(* event name -> spec action *)
Act(e) ==
  LET p == e.p IN
  CASE e.a = "Submit"      -> Submit(p, e.rerun)
    [] e.a = "Acquire"     -> Acquire(p)
    [] e.a = "StaleBreak"  -> StaleBreak(p)
    [] e.a = "CheckSkip"   -> CheckSkip(p)
    [] e.a = "CheckHit"    -> CheckHit(p)
    [] e.a = "CheckMiss"   -> CheckMiss(p)
    [] e.a = "WriteInfo"   -> WriteInfo(p)
    [] e.a = "ClearDir"    -> ClearDir(p)
    [] e.a = "MakeDir"     -> MakeDir(p)
    [] e.a = "SaveJob"     -> SaveJob(p)
    [] e.a = "Chdir"       -> Chdir(p)
    [] e.a = "PreTask"     -> PreTask(p)
    [] e.a = "AuditStart"  -> AuditStart(p)
    [] e.a = "BodyStart"   -> BodyStart(p)
    [] e.a = "BodyOk"      -> BodyOk(p)
    [] e.a = "BodyRaise"   -> BodyRaise(p)
    [] e.a = "CollectRaise" -> CollectRaise(p)
    [] e.a = "Collect"     -> Collect(p)
    [] e.a = "RecordError" -> RecordError(p)
    [] e.a = "PostTask"    -> PostTask(p)
    [] e.a = "AuditEnd"    -> AuditEnd(p)
    [] e.a = "SaveBegin"   -> SaveBegin(p)
    [] e.a = "SaveResult"  -> SaveResult(p)
    [] e.a = "UnlinkInfo"  -> UnlinkInfo(p)
    [] e.a = "RestoreCwd"  -> RestoreCwd(p)
    [] e.a = "Release"     -> Release(p)
    [] e.a = "PostRun"     -> PostRun(p)
    [] e.a = "Return"      -> Return(p) /\ (ret'[p] = "ok") = e.ok
    [] e.a = "RaiseOut"    -> RaiseOut(p)
    [] e.a = "Crash"       -> Crash(p) \/ CrashEmpty(p)
    [] e.a = "Inject"      -> InjectAt(p)
    [] OTHER               -> FALSE

(* logged cheap state must agree with the spec state AFTER the step *)
ResKind(r) == IF r \in {"partial", "ok", "err"} THEN "some" ELSE r
FsAgrees(e) ==
  Has(e, "fs") =>
     /\ dir'["root"].ex = e.fs.ex
     /\ ResKind(dir'["root"].res) = e.fs.res
     /\ info'[e.p] = e.fs.info
     /\ (cwd'[e.p] = "jobdir") = e.fs.injob
     /\ (lock' # "free") = e.fs.lock
ResAgrees(e) == Has(e, "res") => (e.res = "ok") = (e.a = "CheckHit")

(* the safety properties of JobProtocol, evaluated on the state after each step *)
Viol ==
  IF ~MutualExclusion' THEN "MutualExclusion"
  ELSE IF ~OneBodyPerId' THEN "OneBodyPerId"
  ELSE IF ~ReuseComplete' THEN "ReuseComplete"
  ELSE IF ~RerunReexecutes' THEN "RerunReexecutes"
  ELSE IF (dir'["root"].res = "ok" /\ T.init["root"].res # "ok" /\ bodyEnds' = 0) THEN "SuccessMeansBodyFinished"
  ELSE IF ~ErrNeverServed' THEN "ErrNeverServed"
  ELSE IF ~RaiseIsReported' THEN "RaiseIsReported"
  ELSE IF ~ErrorRecorded' THEN "ErrorRecorded"
  ELSE IF ~CwdRestored' THEN "CwdRestored"
  ELSE IF ~InfoRemoved' THEN "InfoRemoved"
  ELSE IF ~DirHasJobAndResult' THEN "DirHasJobAndResult"
  ELSE IF ~TaskHooksOncePerExecution' THEN "TaskHooksOncePerExecution"
  ELSE IF \E c \in CacheSet \ {"root"} : dir'[c] # dir[c] THEN "ReadonlyUntouched"
  ELSE "none"

TraceNext ==
  /\ verdict = <<"run">> /\ l <= Len(Ev)
  /\ \/ /\ Act(Ev[l]) /\ FsAgrees(Ev[l]) /\ ResAgrees(Ev[l])
        /\ l' = l + 1 /\ tid' = tid
        /\ verdict' = IF Viol # "none" THEN <<"invariant", Viol, l>>
                      ELSE IF l + 1 > Len(Ev) THEN <<"accepted">> ELSE <<"run">>
     \/ /\ ~ENABLED (Act(Ev[l]) /\ FsAgrees(Ev[l]) /\ ResAgrees(Ev[l]))
        /\ UNCHANGED <<vars, tid, l>>
        /\ verdict' = <<"rejected", l, Ev[l].a,
                         IF ~ENABLED Act(Ev[l]) THEN "action not enabled"
                         ELSE IF ~ENABLED (Act(Ev[l]) /\ FsAgrees(Ev[l])) THEN "logged file-system state disagrees"
                         ELSE "logged lookup result disagrees">>
TraceSpec == TraceInit /\ [][TraceNext]_tvars

Done == verdict # <<"run">> \/ l > Len(Ev)
Report == Done => PrintT(ToJson([tid |-> T.tid, verdict |-> verdict, l |-> l, pc |-> pc, root |-> dir["root"]]))
EmptyOk == TRUE
=============================================================================
