SPECIFICATION Spec
CONSTANTS
  Defs <- DF
  Vectors <- VF
  MaxOps = 3
  BranchInputsMayBeLazy = FALSE
  KeyOnContentOnly = TRUE
INVARIANT Transparent
INVARIANT NoLeak

CHECK_DEADLOCK FALSE
