SPECIFICATION Spec
CONSTANTS
  Defs <- D2
  Vectors <- V3
  MaxOps = 4
  BranchInputsMayBeLazy = FALSE
  KeyOnContentOnly = FALSE
INVARIANT Transparent
INVARIANT NoLeak
INVARIANT Emit
CHECK_DEADLOCK FALSE
