--------------------------- MODULE SplitAlgebra ---------------------------
(***************************************************************************)
(* Reference semantics of pydra's splitter / combiner algebra for ONE task *)
(* (properties C01, C02, C04, C05).  Written from the documentation        *)
(* (docs/source/explanation/splitting-combining.rst) and the property      *)
(* statements in set-theoretic style: products, zips, partitions.  Nothing *)
(* here resembles the implementation (no RPN, no index tables).            *)
(*                                                                         *)
(* A splitter term is a uniform record  [op, name, kids]:                  *)
(*    op = "f"  : leaf, the field `name`                                   *)
(*    op = "*"  : outer product of kids (python list  [k1, .., kn])        *)
(*    op = "."  : inner product of kids (python tuple (k1, .., kn))        *)
(* n >= 1; n = 1 is the one-element list/tuple spelling.                   *)
(* `len` maps a field to the length of the list it is split over.          *)
(***************************************************************************)
EXTENDS Naturals, Sequences, FiniteSets, SequencesExt, FiniteSetsExt, Functions, TLC

Leaf(f)     == [op |-> "f", name |-> f, kids |-> <<>>]
Node(o, ks) == [op |-> o, name |-> "", kids |-> ks]
Outer(ks)   == Node("*", ks)
Inner(ks)   == Node(".", ks)

RECURSIVE FieldsOf(_)
FieldsOf(t) == IF t.op = "f" THEN <<t.name>>
               ELSE FlattenSeq([k \in 1..Len(t.kids) |-> FieldsOf(t.kids[k])])

NoDuplicateField(t) == LET fs == FieldsOf(t) IN Cardinality(Range(fs)) = Len(fs)

(* ---- enumeration of splitter trees over a sequence of distinct fields ---- *)
RECURSIVE Compositions(_)   \* all ways to cut s into >= 2 consecutive non-empty parts
Compositions(s) ==
  IF Len(s) < 2 THEN {}
  ELSE UNION { { <<SubSeq(s, 1, i)>> \o rest :
                   rest \in ({<<SubSeq(s, i+1, Len(s))>>} \cup Compositions(SubSeq(s, i+1, Len(s)))) }
               : i \in 1..(Len(s)-1) }

RECURSIVE SeqProd(_)
SeqProd(sets) == IF sets = <<>> THEN {<<>>}
                 ELSE { <<h>> \o t : h \in Head(sets), t \in SeqProd(Tail(sets)) }

RECURSIVE Trees(_)          \* n-ary trees, every internal node has >= 2 kids
Trees(s) == IF Len(s) = 1 THEN {Leaf(s[1])}
            ELSE UNION { { Node(o, ks) : o \in {"*", "."},
                                         ks \in SeqProd([i \in 1..Len(parts) |-> Trees(parts[i])]) }
                         : parts \in Compositions(s) }

Perms(S) == { s \in [1..Cardinality(S) -> S] : \A i, j \in DOMAIN s : i # j => s[i] # s[j] }

RECURSIVE Wraps(_)          \* t and every tree obtained by wrapping ONE subtree in a unary node
Wraps(t) ==
  {t} \cup {Node(o, <<t>>) : o \in {"*", "."}}
      \cup (IF t.op = "f" THEN {}
            ELSE UNION { { Node(t.op, [t.kids EXCEPT ![k] = w]) : w \in Wraps(t.kids[k]) \ {t.kids[k]} }
                         : k \in 1..Len(t.kids) })

(* ---- normal form: drop unary nodes, flatten chains of the same operator ---- *)
RECURSIVE Normalize(_)
Normalize(t) ==
  IF t.op = "f" THEN t
  ELSE LET ks == [k \in 1..Len(t.kids) |-> Normalize(t.kids[k])] IN
       IF Len(ks) = 1 THEN ks[1]
       ELSE Node(t.op, FlattenSeq([k \in 1..Len(ks) |->
                         IF ks[k].op = t.op THEN ks[k].kids ELSE <<ks[k]>>]))

(* ---- expansion: sequence of jobs, each a function field -> 0-based index ---- *)
RECURSIVE ProdSeq(_, _)     \* lexicographic product, left operand varies slowest
ProdSeq(a, b) == IF a = <<>> THEN <<>>
                 ELSE [j \in 1..Len(b) |-> a[1] @@ b[j]] \o ProdSeq(Tail(a), b)
RECURSIVE FoldOuter(_)
FoldOuter(es) == IF Len(es) = 1 THEN es[1] ELSE ProdSeq(es[1], FoldOuter(Tail(es)))
RECURSIVE FoldInner(_)      \* positional zip (callers guarantee equal lengths)
FoldInner(es) == IF Len(es) = 1 THEN es[1]
                 ELSE LET r == FoldInner(Tail(es)) IN [j \in 1..Len(r) |-> es[1][j] @@ r[j]]

RECURSIVE Expand(_, _)
Expand(t, len) ==
  IF t.op = "f" THEN [i \in 1..len[t.name] |-> (t.name :> (i-1))]
  ELSE LET es == [k \in 1..Len(t.kids) |-> Expand(t.kids[k], len)] IN
       IF t.op = "*" THEN FoldOuter(es) ELSE FoldInner(es)

(* shape = lengths of the independent axes, in order *)
RECURSIVE Shape(_, _)
Shape(t, len) == IF t.op = "f" THEN <<len[t.name]>>
                 ELSE IF t.op = "*" THEN FlattenSeq([k \in 1..Len(t.kids) |-> Shape(t.kids[k], len)])
                 ELSE Shape(t.kids[1], len)

RECURSIVE WellShaped(_, _)  \* every inner product pairs operands of equal shape
WellShaped(t, len) ==
  IF t.op = "f" THEN TRUE
  ELSE /\ \A k \in 1..Len(t.kids) : WellShaped(t.kids[k], len)
       /\ (t.op = "." => \A k \in 2..Len(t.kids) : Shape(t.kids[k], len) = Shape(t.kids[1], len))

RECURSIVE FlatLen(_, _)
FlatLen(t, len) ==
  IF t.op = "f" THEN len[t.name]
  ELSE IF t.op = "*" THEN FoldFunction(LAMBDA a, b : a * b, 1, [k \in 1..Len(t.kids) |-> FlatLen(t.kids[k], len)])
  ELSE FlatLen(t.kids[1], len)

RECURSIVE FlatOk(_, _)      \* weaker: inner operands agree at least on the flat length
FlatOk(t, len) ==
  IF t.op = "f" THEN TRUE
  ELSE /\ \A k \in 1..Len(t.kids) : FlatOk(t.kids[k], len)
       /\ (t.op = "." => \A k \in 2..Len(t.kids) : FlatLen(t.kids[k], len) = FlatLen(t.kids[1], len))

RECURSIVE InnerLengthsDiffer(_, _)  \* C01: "inner splits over fields of different lengths"
InnerLengthsDiffer(t, len) == ~FlatOk(t, len)

(* ---- axes, combiner closure, groups ---- *)
RECURSIVE AxesOf(_)         \* sequence of sets of fields: fields zipped together share an axis
AxesOf(t) == IF t.op = "f" THEN << {t.name} >>
             ELSE IF t.op = "*" THEN FlattenSeq([k \in 1..Len(t.kids) |-> AxesOf(t.kids[k])])
             ELSE LET as == [k \in 1..Len(t.kids) |-> AxesOf(t.kids[k])] IN
                  [i \in 1..Len(as[1]) |-> UNION { as[k][i] : k \in 1..Len(as) }]

Closure(t, C)   == UNION { a \in Range(AxesOf(t)) : a \cap C # {} }
Remaining(t, C) == Range(FieldsOf(t)) \ Closure(t, C)
RemainingAxes(t, C) == SelectSeq(AxesOf(t), LAMBDA a : a \cap C = {})
Proj(e, R)      == [f \in R |-> e[f]]

RECURSIVE GroupKeys(_, _, _)   \* distinct projections in order of first occurrence
GroupKeys(es, R, seen) ==
  IF es = <<>> THEN <<>>
  ELSE LET k == Proj(es[1], R) IN
       IF k \in seen THEN GroupKeys(Tail(es), R, seen)
       ELSE <<k>> \o GroupKeys(Tail(es), R, seen \cup {k})

(* one group per distinct assignment of the uncombined fields, in enumeration order; *)
(* each group lists (0-based) job indices in enumeration order                        *)
Groups(t, len, C) ==
  LET es == Expand(t, len)
      R  == Remaining(t, C)
      ks == GroupKeys(es, R, {})
  IN [g \in 1..Len(ks) |-> SelectSeq([i \in 1..Len(es) |-> i-1], LAMBDA i : Proj(es[i+1], R) = ks[g])]

FlatOutput(t, C) == Remaining(t, C) = {}      \* combining every axis yields one flat list

IsOrderedPartition(gs, n) ==
  /\ \A g \in 1..Len(gs) : gs[g] # <<>> /\ \A i \in 1..(Len(gs[g])-1) : gs[g][i] < gs[g][i+1]
  /\ LET fl == FlattenSeq(gs) IN Len(fl) = n /\ Range(fl) = 0..(n-1)
  /\ \A g \in 1..(Len(gs)-1) : gs[g][1] < gs[g+1][1]

(* ---- well-formedness of a split / combine request (C05) ---- *)
(* req = [tree, given (set of fields with values), comb (set), known (all task fields), split (BOOLEAN)] *)
WellFormed(req) ==
  /\ req.split => /\ NoDuplicateField(req.tree)
                  /\ Range(FieldsOf(req.tree)) = req.given
                  /\ req.given \subseteq req.known
  /\ req.comb # {} => /\ req.split
                      /\ req.comb \subseteq Range(FieldsOf(req.tree))

(* ---- nested containers (C04) ---- *)
(* value: [k |-> "l", v |-> <<values>>, a |-> 0]  or atom [k |-> "a", v |-> <<>>, a |-> n] *)
Atom(n)  == [k |-> "a", v |-> <<>>, a |-> n]
List(vs) == [k |-> "l", v |-> vs, a |-> 0]
RECURSIVE Flat(_, _)        \* elements found at depth n, depth-first
Flat(x, n) == IF n = 0 THEN <<x>>
              ELSE FlattenSeq([i \in 1..Len(x.v) |-> Flat(x.v[i], n-1)])
RECURSIVE DepthOf(_)
DepthOf(x) == IF x.k = "a" THEN 0
              ELSE IF x.v = <<>> THEN 1
              ELSE 1 + Max({DepthOf(x.v[i]) : i \in 1..Len(x.v)})
RECURSIVE Skel(_)           \* the value with every atom replaced by the same atom
Skel(x) == IF x.k = "a" THEN Atom(0) ELSE List([i \in 1..Len(x.v) |-> Skel(x.v[i])])
RECURSIVE Regular(_)        \* all siblings have the same shape, recursively
Regular(x) == IF x.k = "a" THEN TRUE
              ELSE /\ \A i \in 1..Len(x.v) : Regular(x.v[i])
                   /\ \A i, j \in 1..Len(x.v) : Skel(x.v[i]) = Skel(x.v[j])
=============================================================================
