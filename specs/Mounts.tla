------------------------------- MODULE Mounts -------------------------------
(***************************************************************************)
(* Reference semantics of the mount lookup used to decide whether files    *)
(* may be hard-linked or symlinked (property C38).                         *)
(*                                                                         *)
(* Written from the property statement and the doc-strings of              *)
(* pydra/utils/mount_identifier.py:                                        *)
(*   - a path is a sequence of COMPONENTS (the root is the empty sequence);*)
(*   - the mount table holds "mount points that fall under a CIFS mount"   *)
(*     (generate_cifs_table), i.e. every CIFS mount and every mount nested *)
(*     below one; everything else counts as the default ("/", "ext4");     *)
(*   - the mount of a path is the LONGEST mount point of that table that   *)
(*     is a path-component prefix of the path ("most recent parent").      *)
(*                                                                         *)
(* The prefix relation is a parameter `kind`:                              *)
(*   "component" - the documented semantics (ideal reference);             *)
(*   "string"    - the named AS-BUILT reference C38-string-prefix: the     *)
(*                 rendered strings are compared character by character,   *)
(*                 so /data "covers" /data2 and /database.  It predicts    *)
(*                 the deviation exactly and is never used as the oracle.  *)
(* Path strings are sequences of character codes (characters matter here). *)
(***************************************************************************)
EXTENDS Naturals, Sequences, FiniteSets, SequencesExt, TLC

Names == {"d", "data", "data2"}

Chars(n) == CASE n = "d"     -> <<100>>
              [] n = "data"  -> <<100, 97, 116, 97>>
              [] n = "data2" -> <<100, 97, 116, 97, 50>>

Slash == 47

(* the string a path is written as: "/" for the root, "/a/b" otherwise *)
Render(p) == IF p = <<>> THEN <<Slash>>
             ELSE FlattenSeq([i \in 1..Len(p) |-> <<Slash>> \o Chars(p[i])])

IsSeqPrefix(a, b) == Len(a) <= Len(b) /\ SubSeq(b, 1, Len(a)) = a

IsCompPrefix(m, p) == IsSeqPrefix(m, p)                    \* whole components
IsStrPrefix(m, p)  == IsSeqPrefix(Render(m), Render(p))    \* characters

PreDef(kind, m, p) == IF kind = "component" THEN IsCompPrefix(m, p) ELSE IsStrPrefix(m, p)
RLenDef(m)         == Len(Render(m))
(* Pre and RLen are the names the rest of the module uses; a model may replace them   *)
(* by tabulated versions (Mounts_Gen does, and has TLC check the tables against the   *)
(* definitions above).                                                                *)
Pre(kind, m, p) == PreDef(kind, m, p)
RLen(m)         == RLenDef(m)

(* A mount table is a set of entries [mp |-> path, fs |-> fstype] with     *)
(* pairwise distinct mount points.                                         *)
Default == [mp |-> <<>>, fs |-> "ext4"]

WellFormed(tbl) == \A e, f \in tbl : e.mp = f.mp => e = f

(* the entries kept in the table: CIFS mounts and what lies under them *)
RelevantBy(kind, tbl) ==
  { e \in tbl : \E c \in tbl : c.fs = "cifs" /\ Pre(kind, c.mp, e.mp) }

CoveringBy(kind, tbl, p) == { e \in tbl : Pre(kind, e.mp, p) }

Longest(S) == CHOOSE e \in S : \A f \in S : RLen(f.mp) <= RLen(e.mp)

LookupBy(kind, tbl, p) ==
  LET c == CoveringBy(kind, tbl, p) IN IF c = {} THEN Default ELSE Longest(c)

(* ---- the documented semantics ---- *)
Relevant(tbl)        == RelevantBy("component", tbl)
GetMount(tbl, p)     == LookupBy("component", Relevant(tbl), p)
OnCifs(tbl, p)       == GetMount(tbl, p).fs = "cifs"
SameMount(tbl, p, q) == GetMount(tbl, p).mp = GetMount(tbl, q).mp

(* ---- as-built reference (known finding C38-string-prefix) ---- *)
RelevantAsBuilt(tbl)        == RelevantBy("string", tbl)
GetMountAsBuilt(tbl, p)     == LookupBy("string", RelevantAsBuilt(tbl), p)
OnCifsAsBuilt(tbl, p)       == GetMountAsBuilt(tbl, p).fs = "cifs"

(* ---- lookup in the complete table (not judged: the statement speaks of  *)
(*      the table "as parsed"; recorded as an observation by the driver) ---- *)
GetMountFull(tbl, p) == LookupBy("component", tbl, p)

(* ---- theorems (checked by TLC on every enumerated case) ---- *)
ChainOf(S) == \A e, f \in S : IsCompPrefix(e.mp, f.mp) \/ IsCompPrefix(f.mp, e.mp)

LookupTheorems(tbl, p) ==
  /\ ChainOf(CoveringBy("component", tbl, p))           \* so "the longest" is unique
  /\ CoveringBy("component", tbl, p) \subseteq CoveringBy("string", tbl, p)
  /\ Relevant(tbl) \subseteq RelevantAsBuilt(tbl)
  /\ LET m == GetMount(tbl, p) IN
       /\ IsCompPrefix(m.mp, p)
       /\ (m \in tbl \/ m = Default)
       /\ \A e \in Relevant(tbl) : IsCompPrefix(e.mp, p) => Len(e.mp) <= Len(m.mp)
  \* dropping the mounts that are not under a CIFS mount never changes the CIFS verdict
  /\ OnCifs(tbl, p) <=> (GetMountFull(tbl, p).fs = "cifs")
  \* the two references part only where a string prefix is not a component prefix
  /\ (\A e \in tbl : \A x \in {f.mp : f \in tbl} \cup {p} : IsStrPrefix(e.mp, x) => IsCompPrefix(e.mp, x))
        => GetMountAsBuilt(tbl, p) = GetMount(tbl, p)
=============================================================================
