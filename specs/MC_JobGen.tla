----------------------------- MODULE MC_JobGen -----------------------------
EXTENDS JobProtocol_Gen
NoRO      == <<>>
OneRO     == <<"ro1">>
TwoRO     == <<"ro1", "ro2">>
OnlyAbsent   == {Absent}
AbsentOrDone == {Absent, Complete}
Leftovers    == {Absent, EmptyDir, JobOnly, PartialRes, EmptyRes}
LeftoversAndDone == {Absent, EmptyDir, JobOnly, PartialRes, Complete}
ROStates     == {Absent, Complete}
OnlyFalse == {FALSE}
Both      == {FALSE, TRUE}
OkOnly    == {"ok"}
OkOrRaise == {"ok", "raise"}
=============================================================================
