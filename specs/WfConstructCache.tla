-------------------------- MODULE WfConstructCache --------------------------
(* Workflow.construct memo (pydra/engine/workflow.py): cache keyed by            *)
(* type hash -> set of non-lazy input names -> hash of their values.             *)
(* An exact hit returns the cached object itself, a hit on an entry built with   *)
(* a SUBSET of the non-lazy names returns a deep copy with the extra values set, *)
(* a miss runs the constructor.  C30: whatever the history of constructions and  *)
(* runs, what is returned is observationally a fresh construction for the        *)
(* requested inputs, and no construction's inputs leak into another's.           *)
(* A constructor may branch on the input "flag"; BranchInputsMayBeLazy = FALSE   *)
(* is the usage assumption under which transparency holds (TLC shows it fails    *)
(* otherwise: the constructor then branches on a lazy field).                    *)
(* FILE-VALUED INPUTS: the memo is keyed by the HASH of the values, and a file   *)
(* hashes by name and content only.  x >= 10 stands for "the file x - 10 at      *)
(* another path" (equal name and content).  KeyOnContentOnly = TRUE is the memo  *)
(* as first built (key = content hash): TLC reports NoLeak violated - the second *)
(* construction gets the first one's paths; FALSE = the key also distinguishes   *)
(* paths (fix recorded under C30).                                               *)
EXTENDS Naturals, Sequences, FiniteSets, TLC, Json
CONSTANTS Defs,          \* workflow definitions, e.g. {"W", "V"}
          Vectors,       \* set of input vectors: records [x, ys, flag]
          MaxOps, BranchInputsMayBeLazy, KeyOnContentOnly
Inputs == {"x", "ys", "flag"}
LazySets == IF BranchInputsMayBeLazy THEN SUBSET Inputs ELSE SUBSET {"x", "ys"}
VARIABLES cache,   \* set of [w, keys, vals, obj]
          objs,    \* obj id -> [w, vals (on non-lazy keys), branch, ran]
          nobj, h
vars == <<cache, objs, nobj, h>>
Init == cache = {} /\ objs = <<>> /\ nobj = 0 /\ h = <<>>
Sub(v, K) == [k \in K |-> v[k]]
(* what the memo compares: the key image of the values *)
KeyOf(k, val) == IF KeyOnContentOnly /\ k = "x" /\ val >= 10 THEN val - 10 ELSE val
KSub(v, K) == [k \in K |-> KeyOf(k, v[k])]
(* the branch a constructor takes: decided by the flag value when it is concrete, *)
(* a lazy flag is truthy                                                          *)
Branch(v, K) == IF "flag" \in K THEN v.flag ELSE TRUE
FreshObs(w, v, K) == [w |-> w, branch |-> Branch(v, Inputs), vals |-> Sub(v, K)]
Obs(o, K) == [w |-> objs[o].w, branch |-> objs[o].branch, vals |-> Sub(objs[o].vals, K \cap DOMAIN objs[o].vals)]

Construct(w, v, lazy, isRun) ==
  LET K == Inputs \ lazy
      exact == {e \in cache : e.w = w /\ e.keys = K /\ e.vals = KSub(v, K)}
      super == {e \in cache : e.w = w /\ e.keys \subseteq K /\ e.vals = KSub(v, e.keys)}
  IN /\ Len(h) < MaxOps
     /\ IF exact # {}
        THEN LET e == CHOOSE e \in exact : TRUE IN
             /\ h' = Append(h, [op |-> IF isRun THEN "run" ELSE "construct", w |-> w, v |-> v, lazy |-> lazy,
                                how |-> "exact", obj |-> e.obj, obs |-> Obs(e.obj, K)])
             /\ objs' = IF isRun THEN [objs EXCEPT ![e.obj].ran = @ + 1] ELSE objs
             /\ UNCHANGED <<cache, nobj>>
        ELSE IF super # {}
        THEN LET e == CHOOSE e \in super : TRUE
                 n == nobj + 1
                 \* a deep copy of the cached object: ITS values on the keys it was built with, the request's on the others
                 cv == [k \in K |-> IF k \in e.keys THEN objs[e.obj].vals[k] ELSE v[k]]
                 new == [w |-> w, vals |-> cv, branch |-> objs[e.obj].branch, ran |-> IF isRun THEN 1 ELSE 0]
             IN /\ objs' = Append(objs, new) /\ nobj' = n /\ UNCHANGED cache
                /\ h' = Append(h, [op |-> IF isRun THEN "run" ELSE "construct", w |-> w, v |-> v, lazy |-> lazy,
                                   how |-> "superset", obj |-> n, obs |-> [w |-> w, branch |-> new.branch, vals |-> cv]])
        ELSE LET n == nobj + 1
                 new == [w |-> w, vals |-> Sub(v, K), branch |-> Branch(v, K), ran |-> IF isRun THEN 1 ELSE 0]
             IN /\ objs' = Append(objs, new) /\ nobj' = n
                /\ cache' = cache \cup {[w |-> w, keys |-> K, vals |-> KSub(v, K), obj |-> n]}
                /\ h' = Append(h, [op |-> IF isRun THEN "run" ELSE "construct", w |-> w, v |-> v, lazy |-> lazy,
                                   how |-> "miss", obj |-> n, obs |-> [w |-> w, branch |-> new.branch, vals |-> Sub(v, K)]])
Next == \E w \in Defs, v \in Vectors : \/ \E lazy \in LazySets : Construct(w, v, lazy, FALSE)
                                        \/ Construct(w, v, {}, TRUE)
Spec == Init /\ [][Next]_vars
(* C30 *)
Transparent == \A i \in 1..Len(h) : h[i].obs = FreshObs(h[i].w, h[i].v, Inputs \ h[i].lazy)
NoLeak == \A i \in 1..Len(h) : \A k \in DOMAIN h[i].obs.vals : h[i].obs.vals[k] = h[i].v[k]
Emit == (Len(h) = MaxOps) => PrintT(ToJson(h))
=============================================================================
