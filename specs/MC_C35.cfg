SPECIFICATION Spec
CONSTANTS
  Procs = {p1,p2}
  ROSeq <- NoRO
  MaxSubs = 2
  RerunAllowed <- Both
  BodyOutcomes <- OkOrRaise
  CrashBudget = 0
  RaiseBudget = 1
  LeftoverRoot <- AbsentOrDone
  LeftoverRO <- OnlyAbsent
  FirstExistingDirDecides = FALSE
  TryStartsLate = FALSE
INVARIANT TypeOK
INVARIANT CwdRestored
INVARIANT InfoRemoved
INVARIANT DirHasJobAndResult
INVARIANT TaskHooksOncePerExecution
CHECK_DEADLOCK FALSE
