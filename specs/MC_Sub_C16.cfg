SPECIFICATION Spec
CONSTANTS
  Graphs <- Conc
  Ks <- KLim
  FailChoices = "none"
  SliceIgnoresRunning = FALSE
  RunningLoopRaises = FALSE
CHECK_DEADLOCK FALSE
INVARIANT WithinLimit
INVARIANT StartAfterPredsSucceeded
