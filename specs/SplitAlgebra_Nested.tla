------------------------ MODULE SplitAlgebra_Nested ------------------------
(* Case generator for C04: nested lists (uniform depth, regular and ragged), *)
(* container dimension n, alone and as an operand of an outer / inner       *)
(* splitter with a plain second field y.  Expected = Flat(v, n) (DFS).      *)
EXTENDS SplitAlgebra, Json
CONSTANTS Depths,       \* set of depths, e.g. {1,2}
          MaxInner,     \* inner lengths 0..MaxInner
          Contexts      \* subset of {"alone","outer-left","outer-right","inner"}

RECURSIVE Vals(_)
Vals(d) == IF d = 0 THEN {Atom(0)}
           ELSE { List(s) : s \in UNION { [1..n -> Vals(d-1)] : n \in 0..MaxInner } }

RECURSIVE Size(_)
Size(x) == IF x.k = "a" THEN 1
           ELSE FoldFunction(LAMBDA a, b : a + b, 0, [i \in 1..Len(x.v) |-> Size(x.v[i])])
RECURSIVE LabelFrom(_, _)   \* atoms numbered in depth-first order starting at s
LabelFrom(x, s) ==
  IF x.k = "a" THEN Atom(s)
  ELSE List([i \in 1..Len(x.v) |->
         LabelFrom(x.v[i], s + FoldFunction(LAMBDA a, b : a + b, 0, [j \in 1..(i-1) |-> Size(x.v[j])]))])

VARIABLES val, ndim, cx
vars == <<val, ndim, cx>>
Init == \E d \in Depths : /\ val \in { LabelFrom(v, 0) : v \in Vals(d) }
                          /\ ndim \in 1..d
                          /\ cx \in Contexts
Next == FALSE /\ UNCHANGED vars

Case == [ v |-> val, n |-> ndim, cx |-> cx, depth |-> DepthOf(val), regular |-> Regular(val),
          flat |-> Flat(val, ndim) ]
Emit == PrintT(ToJson(Case))
(* sanity: flattening at full depth visits every atom exactly once, in order *)
Theorems ==
  /\ LET fl == Flat(val, DepthOf(val)) IN
       (val.v # <<>> /\ Size(val) > 0 /\ \A i \in 1..Len(fl) : fl[i].k = "a")
          => /\ Len(fl) = Size(val)
             /\ \A i \in 1..Len(fl) : fl[i].a = i - 1
  /\ Len(Flat(val, 1)) = Len(val.v)
=============================================================================
