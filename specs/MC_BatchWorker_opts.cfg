\* M1 design check (thorough): every option string x every response sequence of length <= 4
SPECIFICATION Spec
CONSTANTS
  Kinds = {"slurm", "sge"}
  Modes = {"intended"}
  MaxPolls = 4
  ExhLen = 4
  SampleMod = 1
  Seed = 0
  OptPlan = "all"
INVARIANT Inv
CHECK_DEADLOCK FALSE
