SPECIFICATION Spec
CONSTANTS
  Procs = {p1,p2}
  ROSeq <- TwoRO
  MaxSubs = 2
  RerunAllowed <- Both
  BodyOutcomes <- OkOnly
  CrashBudget = 0
  RaiseBudget = 0
  LeftoverRoot <- Leftovers
  LeftoverRO <- ROStates
  FirstExistingDirDecides = TRUE
  TryStartsLate = FALSE
INVARIANT ReuseComplete
CHECK_DEADLOCK FALSE
