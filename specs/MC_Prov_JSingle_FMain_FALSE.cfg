SPECIFICATION Spec
CONSTANTS
  Jobs <- JSingle
  Parent <- PSingle
  Failing <- FMain
  SharedAuditId = FALSE
INVARIANT OneStartOneEndSameId
INVARIANT EndFlagMatchesResult
INVARIANT NoOrphanEnd
CHECK_DEADLOCK FALSE
