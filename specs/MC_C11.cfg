SPECIFICATION Spec
CONSTANTS
  Procs = {p1,p2}
  ROSeq <- TwoRO
  MaxSubs = 2
  RerunAllowed <- Both
  BodyOutcomes <- OkOnly
  CrashBudget = 0
  RaiseBudget = 0
  LeftoverRoot <- Leftovers
  LeftoverRO <- ROStates
  FirstExistingDirDecides = FALSE
  TryStartsLate = FALSE
INVARIANT TypeOK
INVARIANT MutualExclusion
INVARIANT ReuseComplete
INVARIANT RerunReexecutes
PROPERTY ReadonlyUntouched
CHECK_DEADLOCK FALSE
