SPECIFICATION Spec
CONSTANTS
  Procs = {p1, p2, p3}
  LockFreeRead = FALSE
INVARIANT SameDigestEverywhere
CHECK_DEADLOCK FALSE
