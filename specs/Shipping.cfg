SPECIFICATION Spec
INVARIANT Report
PROPERTY ShipPreservesProjection
CHECK_DEADLOCK FALSE
