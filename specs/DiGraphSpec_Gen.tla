--------------------------- MODULE DiGraphSpec_Gen ---------------------------
(* Behaviour generator (mode M3) for C37.  A history variable h records    *)
(* every step together with the graph state the spec reaches, so TLC's BFS *)
(* enumerates PATHS of DiGraphSpec; a behaviour is printed when it reaches *)
(* Depth steps (every shorter history is a prefix of a printed one: Sort   *)
(* and Copy are always enabled).  With Sim = TRUE the module is meant for  *)
(* `tlc -simulate`: the kind of the next step is drawn first (so removals  *)
(* are as frequent as additions), then TLC draws the arguments.            *)
(* The cfg replaces DiGraphSpec!Orders by CanonOrders: the generator needs *)
(* one representative sorted list per graph, not all of them.  Every step  *)
(* is still a step of DiGraphSpec (its actions are conjoined unchanged).   *)
EXTENDS DiGraphSpec, Json, SequencesExt

CONSTANTS Depth,      \* length of the printed behaviours
          MaxList,    \* 1: one node / connection per call; 2: also two-element lists
          Sym,        \* TRUE: new nodes are taken in id order (symmetry reduction for BFS)
          Sim,        \* TRUE: simulation mode (uses RandomElement)
          Start,      \* "empty": from the empty graph; "dags": from every DAG on <= N nodes
          Shard, NShards

VARIABLES h,       \* the history
          left     \* steps still to take
hvars == <<nodes, edges, wip, sorted, h, left>>

SeqsUpTo(S) == { <<a>> : a \in S } \cup
               (IF MaxList >= 2 THEN { <<a, b>> : a \in S, b \in S } ELSE {})

Free == Node \ (nodes \cup wip)
Lowest(S, k) == { n \in S : Cardinality({ m \in S : m < n }) < k }   \* the k smallest
CandAddNodes ==
  { s \in SeqsUpTo(Free) : DistinctSeq(s) /\ (Sym => Range(s) = Lowest(Free, Len(s))) }
Addable == { e \in nodes \X nodes : e[1] # e[2] /\ e \notin edges /\ ~Reaches(edges, e[2], e[1]) }
CandAddEdges    == LET A == Addable IN
                   { <<e>> : e \in A } \cup
                   (IF MaxList >= 2
                    THEN { s \in { <<e, f>> : e \in A, f \in A } :
                             s[1] # s[2] /\ ~Reaches(edges \cup {s[1]}, s[2][2], s[2][1]) }
                    ELSE {})
Ready           == { n \in nodes : Preds(edges, n) = {} }
CandRemoveNodes == { s \in SeqsUpTo(Ready) : DistinctSeq(s) }
CandRemoveConn  == { s \in SeqsUpTo(wip) : DistinctSeq(s) }

(* the statement does not say whether connections may be added while a removal is *)
(* pending (a wip node still has connections): such steps are marked `open`       *)
Pending == \E e \in edges : e[1] \in wip

Rec(a, x, open) == [a |-> a, x |-> x, open |-> open,
                    ns |-> nodes', es |-> edges', w |-> wip',
                    \* what the statement demands of the sorted list after this step
                    before |-> { e \in edges' : e[1] \in nodes' /\ e[2] \in nodes' }]

Step(kind) ==
  \/ kind = "addn" /\ \E s \in CandAddNodes    : AddNodes(s)          /\ h' = Append(h, Rec("addn", s, FALSE))
  \/ kind = "adde" /\ \E s \in CandAddEdges    : AddEdges(s)          /\ h' = Append(h, Rec("adde", s, Pending))
  \/ kind = "rmn"  /\ \E s \in CandRemoveNodes : RemoveNodes(s)       /\ h' = Append(h, Rec("rmn", s, FALSE))
  \/ kind = "rmc"  /\ \E s \in CandRemoveConn  : RemoveConnections(s) /\ h' = Append(h, Rec("rmc", s, FALSE))
  \/ kind = "rms"  /\ \E n \in wip             : RemoveSuccessors(n)  /\ h' = Append(h, Rec("rms", <<n>>, FALSE))
  \/ kind = "sort" /\ Sort                                            /\ h' = Append(h, Rec("sort", <<>>, FALSE))
  \/ kind = "copy" /\ Copy                                            /\ h' = Append(h, Rec("copy", <<>>, FALSE))

Kinds == {"addn", "adde", "rmn", "rmc", "rms", "sort", "copy"}
EnabledKinds ==
  { k \in Kinds : CASE k = "addn" -> CandAddNodes # {}
                    [] k = "adde" -> CandAddEdges # {}
                    [] k = "rmn"  -> CandRemoveNodes # {}
                    [] k = "rmc"  -> CandRemoveConn # {}
                    [] k = "rms"  -> wip # {}
                    [] OTHER      -> TRUE }
(* additions and removals weigh more than sort/copy in simulation *)
Weighted == EnabledKinds \X {1, 2, 3} \ ({"sort", "copy"} \X {2, 3})

(* Start = "dags": every DAG on k <= N nodes, labelled so that connections go from   *)
(* smaller to larger ids (every DAG has such a labelling), reached by the obvious     *)
(* prefix of additions, which is part of the printed history                          *)
UpPairs(k)  == { e \in (1..k) \X (1..k) : e[1] < e[2] }
StartGraphs == UNION { { [k |-> k, es |-> E] : E \in SUBSET UpPairs(k) } : k \in 0..N }
StartSeq    == SetToSeq(StartGraphs)
PrefixOf(g) ==
  LET eseq == SetToSeq(g.es)
      addn == [i \in 1..g.k |-> [a |-> "addn", x |-> <<i>>, open |-> FALSE,
                                 ns |-> 1..i, es |-> {}, w |-> {}, before |-> {}]]
      adde == [j \in 1..Len(eseq) |->
                 LET cur == { eseq[m] : m \in 1..j } IN
                 [a |-> "adde", x |-> <<eseq[j]>>, open |-> FALSE,
                  ns |-> 1..g.k, es |-> cur, w |-> {}, before |-> cur]]
  IN addn \o adde

GInit == /\ left = Depth
         /\ IF Start = "empty" THEN Init /\ h = <<>>
            ELSE \E i \in { j \in 1..Len(StartSeq) : j % NShards = Shard } :
                   LET g == StartSeq[i] IN
                   /\ nodes = 1..g.k /\ edges = g.es /\ wip = {}
                   /\ sorted = CanonFrom(1..g.k, g.es)
                   /\ h = PrefixOf(g)
GNext == /\ left > 0
         /\ left' = left - 1
         /\ IF Sim THEN Step(RandomElement(Weighted)[1])
                   ELSE \E k \in Kinds : Step(k)

EmitH == (left = 0) => PrintT(ToJson([h |-> h]))

(* spec-level checks on every generated state *)
GenInv == /\ TypeOK /\ SortedValid /\ AcyclicInv /\ WipReady
          /\ \A i \in DOMAIN h : h[i].before \subseteq h[i].es
=============================================================================
