SPECIFICATION TraceSpec
CONSTANTS
  Graphs = {}
  Ks = {}
  FailChoices = "any"
  SliceIgnoresRunning = FALSE
  RunningLoopRaises = FALSE
INVARIANT Report
CHECK_DEADLOCK FALSE
