----------------------------- MODULE Rules_Gen -----------------------------
(* Case generator (mode M2) for C31/C32: one initial state per task          *)
(* DEFINITION (kinds, requires, xor); the emitted case carries the verdict   *)
(* `Executable` of the reference predicate for EVERY value assignment of the *)
(* definition (so #(definition, assignment) pairs = sum of Len(tab)).        *)
(* The `Theorems` invariant evaluates spec-level sanity theorems on every    *)
(* enumerated definition.                                                    *)
EXTENDS Rules, Json, SequencesExt
CONSTANTS N,            \* number of fields (names p, q, r, s, t in definition order)
          Kinds,        \* subset of {"b", "s", "i", "m"}
          MaxMand,      \* at most this many mandatory ("m") fields
          MaxReqSets,   \* field p carries <= this many alternative requirement sets ...
          MaxReqs,      \* ... of <= this many requirements each (with / without allowed values)
          Owners,       \* 2: field q additionally carries one requirement from a small menu
          MaxXor,       \* <= this many xor groups ...
          MinGroup, MaxGroup,   \* ... of this many members, each with / without None
          Shard, NShards

VARIABLES kind, req, xor
vars == <<kind, req, xor>>

AllNames == <<"p", "q", "r", "s", "t">>
Names    == SubSeq(AllNames, 1, N)
NameSet  == Range(Names)

(* subsets with at most k (<= 2) elements, built without enumerating SUBSET S *)
UpTo(S, k) == {{}} \cup (IF k >= 1 THEN { {x} : x \in S } ELSE {})
                   \cup (IF k >= 2 THEN { {x, y} : x \in S, y \in S } ELSE {})

KindVecs == { kv \in [NameSet -> Kinds] : Cardinality({ f \in NameSet : kv[f] = "m" }) <= MaxMand }
KindList == SetToSeq(KindVecs)
MyKinds  == { KindList[i] : i \in { j \in 1..Len(KindList) : j % NShards = Shard } }

Stringy(kv, g) == kv[g] \in {"s", "m"}
Atoms(kv, f) == { Req(g) : g \in NameSet \ {f} }
           \cup { ReqIn(g, {"v"}) : g \in { h \in NameSet \ {f} : Stringy(kv, h) } }
ReqSets(kv, f) == UpTo(Atoms(kv, f), MaxReqs) \ {{}}
MainReq(kv)    == UpTo(ReqSets(kv, "p"), MaxReqSets)
SecondReq(kv)  ==
  IF Owners < 2 \/ N < 2 THEN {{}}
  ELSE {{}} \cup { {{Req("p")}} }
            \cup (IF N >= 3 THEN { {{Req("r")}} } ELSE {})
            \cup (IF Stringy(kv, "p") THEN { {{ReqIn("p", {"v"})}} } ELSE {})
ReqChoices(kv) == { [f \in NameSet |-> IF f = "p" THEN a ELSE IF f = "q" THEN b ELSE {}] :
                      a \in MainReq(kv), b \in SecondReq(kv) }

Groups == { [members |-> M, none |-> b] :
              M \in { X \in SUBSET NameSet : Cardinality(X) >= MinGroup /\ Cardinality(X) <= MaxGroup },
              b \in BOOLEAN }
XorChoices == UpTo(Groups, MaxXor)

Init == /\ kind \in MyKinds
        /\ req \in ReqChoices(kind)
        /\ xor \in XorChoices
Next == FALSE /\ UNCHANGED vars

Def == [fields |-> Names, kind |-> kind, req |-> req, xor |-> xor]

RECURSIVE Enc(_, _)     \* an assignment as a string, one character per field in definition order
Enc(a, i) == IF i > N THEN "" ELSE a[Names[i]] \o Enc(a, i + 1)
Why(B) == (IF "r" \in B THEN "r" ELSE "") \o (IF "x" \in B THEN "x" ELSE "")
       \o (IF "n" \in B THEN "n" ELSE "") \o (IF "m" \in B THEN "m" ELSE "")

AsgList == SetToSeq(Assignments(Def))
Case ==
  [ n   |-> Names,
    k   |-> kind,
    req |-> [f \in NameSet |-> SetToSeq({ SetToSeq(rs) : rs \in req[f] })],
    xor |-> SetToSeq({ [m |-> SetToSeq(g.members), none |-> g.none] : g \in xor }),
    \* a = assignment, y = broken clauses ("" <=> Executable)
    tab |-> [i \in 1..Len(AsgList) |-> [a |-> Enc(AsgList[i], 1), y |-> Why(Broken(Def, AsgList[i]))]] ]
Emit == PrintT(ToJson(Case))

AllUnset == [f \in NameSet |-> IF kind[f] = "b" THEN "F" ELSE "-"]
Theorems ==
  /\ WellFormedDef(Def)
  /\ \A a \in Assignments(Def) :
        /\ Executable(Def, a) <=> Broken(Def, a) = {}
        \* removing a clause family never makes an executable assignment non-executable
        /\ Executable(Def, a) => Executable(NoRequires(Def), a) /\ Executable(NoXor(Def), a)
        \* a definition without rules and without mandatory fields accepts everything
        /\ (\A f \in NameSet : kind[f] # "m") => Executable(NoXor(NoRequires(Def)), a)
        \* requires only ever constrains assignments in which the owner is set
        /\ (\A f \in NameSet : req[f] # {} => ~IsSet(a, f)) => RequiresHold(Def, a)
  \* nothing set: executable iff every group allows none and nothing is mandatory
  /\ Executable(Def, AllUnset) <=> (\A g \in xor : g.none) /\ (\A f \in NameSet : kind[f] # "m")
=============================================================================
