----------------------------- MODULE Rules_Gen -----------------------------
(* Case generator (mode M2) for C31/C32: one initial state per task          *)
(* DEFINITION (kinds, requires, xor); the emitted case carries the verdict   *)
(* `Executable` of the reference predicate for EVERY value assignment of the *)
(* definition (so #(definition, assignment) pairs = sum of Len(tab)).        *)
(* The `Theorems` invariant evaluates spec-level sanity theorems on every    *)
(* enumerated definition.                                                    *)
EXTENDS RulesEnum, Json

VARIABLES kind, req, xor
vars == <<kind, req, xor>>

Init == /\ kind \in MyKinds
        /\ req \in ReqChoices(kind)
        /\ xor \in XorChoices
Next == FALSE /\ UNCHANGED vars

Def == [fields |-> Names, kind |-> kind, req |-> req, xor |-> xor]

RECURSIVE Enc(_, _)     \* an assignment as a string, one character per field in definition order
Enc(a, i) == IF i > N THEN "" ELSE a[Names[i]] \o Enc(a, i + 1)
Why(B) == (IF "r" \in B THEN "r" ELSE "") \o (IF "x" \in B THEN "x" ELSE "")
       \o (IF "n" \in B THEN "n" ELSE "") \o (IF "m" \in B THEN "m" ELSE "")

(* the assignments of the definition as a direct product of the per-field menus *)
(* (= Assignments(Def); the equality is part of Theorems)                        *)
RECURSIVE Product(_)
Product(i) == IF i > N THEN { <<>> }
              ELSE { (Names[i] :> v) @@ t : v \in Menu(kind[Names[i]]), t \in Product(i + 1) }

Case ==
  LET D  == Def
      as == SetToSeq(Product(1))
  IN [ n   |-> Names,
       k   |-> kind,
       req |-> [f \in NameSet |-> SetToSeq({ SetToSeq(rs) : rs \in req[f] })],
       xor |-> SetToSeq({ [m |-> SetToSeq(g.members), none |-> g.none] : g \in xor }),
       \* a = assignment, y = broken clauses ("" <=> Executable)
       tab |-> [i \in 1..Len(as) |-> [a |-> Enc(as[i], 1), y |-> Why(Broken(D, as[i]))]] ]
Emit == PrintT(ToJson(Case))

AllUnset == [f \in NameSet |-> IF kind[f] = "b" THEN "F" ELSE "-"]
Theorems ==
  LET D == Def IN
  /\ WellFormedDef(D)
  /\ N <= 3 => Product(1) = Assignments(D)      \* (6^N candidate functions: only for small N)
  /\ \A a \in Product(1) :
        LET ex == Executable(D, a) IN
        /\ ex <=> Broken(D, a) = {}
        \* removing a clause family never makes an executable assignment non-executable
        /\ ex => Executable(NoRequires(D), a) /\ Executable(NoXor(D), a)
        \* a definition without rules and without mandatory fields accepts everything
        /\ (\A f \in NameSet : kind[f] # "m") => Executable(NoXor(NoRequires(D)), a)
        \* requires only ever constrains assignments in which the owner is set
        /\ (\A f \in NameSet : req[f] # {} => ~IsSet(a, f)) => RequiresHold(D, a)
  \* nothing set: executable iff every group allows none and nothing is mandatory
  /\ Executable(D, AllUnset) <=> (\A g \in xor : g.none) /\ (\A f \in NameSet : kind[f] # "m")
=============================================================================
