---------------------------- MODULE Staging_Gen ----------------------------
(* Case generator (mode M2) for C33 / C34: one initial state per case.     *)
(* A case is a sequence of one or two fields; a single field holds any     *)
(* value of container depth <= 2 with exactly NLeaves leaves (or a bare    *)
(* file object); two fields hold values of depth <= 1 each.  Every leaf    *)
(* ranges over the objects of Pool and the non-file value "#".             *)
(* The pool layout is printed once (ASSUME) so that the replayer builds    *)
(* the very files the spec talks about.                                    *)
EXTENDS Staging, Json

CONSTANTS Pool,        \* objects the leaves range over (subset of AllObjects)
          NLeaves,     \* total number of leaves of a case
          TwoFields,   \* TRUE: also cases with two fields
          WithModes,   \* TRUE (C34): every case carries the mode x collation table
          Shard, NShards

VARIABLES fields
vars == <<fields>>

Labels == Pool \cup {Scalar}

RECURSIVE SeqProd(_)
SeqProd(sets) == IF sets = <<>> THEN {<<>>}
                 ELSE { <<h>> \o t : h \in Head(sets), t \in SeqProd(Tail(sets)) }

RECURSIVE Compositions(_)     \* sequences of positive integers summing to n
Compositions(n) == IF n = 0 THEN {<<>>}
                   ELSE UNION { { <<i>> \o r : r \in Compositions(n - i) } : i \in 1..n }

Flat(n)  == { Cont(kd, [i \in 1..n |-> Leaf(s[i])]) : kd \in Kinds, s \in [1..n -> Labels] }
Elem(m)  == IF m = 1 THEN { Leaf(l) : l \in Labels } \cup Flat(1) ELSE Flat(m)
Deep(n)  == UNION { { Cont(kd, ks) : kd \in Kinds,
                                      ks \in SeqProd([i \in 1..Len(c) |-> Elem(c[i])]) }
                    : c \in Compositions(n) }
Shallow(m) == (IF m = 1 THEN { Leaf(l) : l \in Labels } ELSE {}) \cup Flat(m)

OneField == { <<v>> : v \in Deep(NLeaves) \cup (IF NLeaves = 1 THEN { Leaf(l) : l \in Pool } ELSE {}) }
Two      == IF TwoFields /\ NLeaves >= 2
            THEN UNION { { <<a, b>> : a \in Shallow(i), b \in Shallow(NLeaves - i) } : i \in 1..(NLeaves - 1) }
            ELSE {}
CaseSeq  == SetToSeq(OneField \cup Two)
MyCases  == { CaseSeq[i] : i \in { j \in 1..Len(CaseSeq) : j % NShards = Shard } }

ASSUME PrintT(ToJson([pool |-> [o \in Pool |-> Info(o)], shard |-> Shard]))

Init == fields \in MyCases
Next == FALSE /\ UNCHANGED vars

L == CaseLeaves(fields)
SetToSortedPairs(S) == SetToSeq(S)

ModeTable ==
  [m \in Modes |-> [c \in Collations |->
     [k \in {"file", "dir", "pair"} |->
        [rel |-> Relation(m), stage |-> MustStage(m, c, k), layout |-> Layout(m, c, k)]]]]

Case ==
  [ fields   |-> fields,
    leaves   |-> L,
    shape    |-> [f \in 1..Len(fields) |-> ShapeOf(fields[f])],
    differ   |-> SetToSeq(MustDiffer(L)),
    same     |-> SetToSeq(SameObject(L)),
    across   |-> SetToSeq(AcrossFields(L)),
    content  |-> ContentOf(L),
    clash    |-> NameClash(L),
    modes    |-> IF WithModes THEN ModeTable ELSE <<>> ]
Emit == PrintT(ToJson(Case))

Theorems ==
  /\ StagingTheorems(L)
  \* the per-field demand is the mode table entry of the leaf's own field (what the replayer looks up)
  /\ WithModes => \A i \in FileIdx(L) : \A m1, m2 \in Modes :
        LET fm == [f \in 1..Len(fields) |-> IF f = 1 THEN m1 ELSE m2]
            fc == [f \in 1..Len(fields) |-> "any"] IN
        LeafDemand(L, fm, fc, i) = ModeTable[fm[L[i].f]]["any"][Info(L[i].o).kind]
  /\ \A f \in 1..Len(fields) : DepthOf(fields[f]) <= 2 /\ LeavesOf(ShapeOf(fields[f])) # <<>>
  /\ Len(L) = NLeaves
  /\ \A m \in Modes : \A c \in Collations : \A k \in {"file", "dir", "pair"} :
        /\ (Relation(m) = "independent" => MustStage(m, c, k))   \* a copy cannot be the original
        /\ (Layout(m, c, k) # "open" => MustStage(m, c, k))
=============================================================================
