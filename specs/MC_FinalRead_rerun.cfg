SPECIFICATION Spec
CONSTANTS
  Procs = {p1,p2}
  ROSeq <- NoRO
  MaxSubs = 1
  RerunAllowed <- Both
  BodyOutcomes <- OkOnly
  CrashBudget = 0
  RaiseBudget = 0
  LeftoverRoot <- AbsentOrDone
  LeftoverRO <- OnlyAbsent
  FirstExistingDirDecides = FALSE
  TryStartsLate = FALSE
CHECK_DEADLOCK FALSE
INVARIANT FinalReadFindsResult
