SPECIFICATION Spec
CONSTANTS
  Graphs <- Conc
  Ks <- KLim
  FailChoices = "none"
  SliceIgnoresRunning = TRUE
  RunningLoopRaises = FALSE
CHECK_DEADLOCK FALSE
INVARIANT WithinLimit
