----------------------------- MODULE Mounts_Gen -----------------------------
(* Case generator (mode M2) for C38: one initial state per mount table.    *)
(* Every case carries, for EVERY query path of the bounded space (in the   *)
(* order of QuerySeq, printed once by the ASSUME below), the mount the     *)
(* documented semantics selects (im ic ig), the mount the as-built         *)
(* reference C38-string-prefix selects (am ac ag), and the lookup in the   *)
(* unfiltered table (fg, observation only).  Mounts are indices into tbl   *)
(* (0 = the default ("/", "ext4")).                                        *)
EXTENDS Mounts, Json, FiniteSetsExt
CONSTANTS MaxDepth,               \* mount points have <= MaxDepth components
          MinEntries, MaxEntries, \* number of table entries
          QDepth,                 \* query paths have <= QDepth components
          Shard, NShards

VARIABLES tbl
vars == <<tbl>>

FsTypes == {"cifs", "ext4", "nfs"}

RECURSIVE PathsOfLen(_)
PathsOfLen(n) == IF n = 0 THEN {<<>>}
                 ELSE { <<h>> \o t : h \in Names, t \in PathsOfLen(n - 1) }
PathsUpTo(n) == UNION { PathsOfLen(k) : k \in 0..n }

MountPaths == PathsUpTo(MaxDepth)
QuerySeq   == SetToSeq(PathsUpTo(QDepth))
NQ         == Len(QuerySeq)

MPSets   == UNION { kSubset(k, MountPaths) : k \in MinEntries..MaxEntries }
MPSeq    == SetToSeq(MPSets)
MyMPSets == { MPSeq[i] : i \in { j \in 1..Len(MPSeq) : j % NShards = Shard } }

(* tabulated prefix relations (replace Mounts!Pre / Mounts!RLen through the cfg);    *)
(* the ASSUME makes TLC check them against the definitions once per run              *)
AllPaths  == PathsUpTo(IF QDepth > MaxDepth THEN QDepth ELSE MaxDepth)
CompTab   == [m \in MountPaths |-> { p \in AllPaths : IsCompPrefix(m, p) }]
StrTab    == [m \in MountPaths |-> { p \in AllPaths : IsStrPrefix(m, p) }]
RLenTab   == [m \in MountPaths |-> RLenDef(m)]
FastPre(kind, m, p) == IF kind = "component" THEN p \in CompTab[m] ELSE p \in StrTab[m]
FastRLen(m)         == RLenTab[m]
ASSUME \A m \in MountPaths : /\ FastRLen(m) = RLenDef(m)
                              /\ \A p \in AllPaths : \A kind \in {"component", "string"} :
                                    FastPre(kind, m, p) = PreDef(kind, m, p)

ASSUME PrintT(ToJson([queries |-> QuerySeq, shard |-> Shard]))

Init == \E S \in MyMPSets : \E f \in [S -> FsTypes] :
           tbl = { [mp |-> m, fs |-> f[m]] : m \in S }
Next == FALSE /\ UNCHANGED vars

TblSeq == SetToSeq(tbl)
Idx(e) == IF e \in tbl THEN CHOOSE i \in 1..Len(TblSeq) : TblSeq[i] = e ELSE 0
(* two lookups are "the same mount" iff the mount POINTS agree; the default *)
(* and a root entry share the mount point "/"                              *)
Grp(e) == IF e.mp = <<>> THEN 0 ELSE Idx(e)

Case ==
  LET ri == Relevant(tbl)            \* GetMount(tbl, q) = LookupBy("component", Relevant(tbl), q)
      ra == RelevantAsBuilt(tbl)
      I == [k \in 1..NQ |-> LookupBy("component", ri, QuerySeq[k])]
      A == [k \in 1..NQ |-> LookupBy("string", ra, QuerySeq[k])]
      F == [k \in 1..NQ |-> GetMountFull(tbl, QuerySeq[k])]
  IN [ tbl |-> TblSeq,
       ip  |-> [i \in 1..Len(TblSeq) |-> TblSeq[i] \in Relevant(tbl)],
       ap  |-> [i \in 1..Len(TblSeq) |-> TblSeq[i] \in RelevantAsBuilt(tbl)],
       im  |-> [k \in 1..NQ |-> Idx(I[k])],
       ic  |-> [k \in 1..NQ |-> I[k].fs = "cifs"],
       ig  |-> [k \in 1..NQ |-> Grp(I[k])],
       am  |-> [k \in 1..NQ |-> Idx(A[k])],
       ac  |-> [k \in 1..NQ |-> A[k].fs = "cifs"],
       ag  |-> [k \in 1..NQ |-> Grp(A[k])],
       fg  |-> [k \in 1..NQ |-> Grp(F[k])] ]
Emit == PrintT(ToJson(Case))

ShortQ   == { k \in 1..NQ : Len(QuerySeq[k]) <= 2 }
TheoremQ == { k \in 1..NQ : Len(QuerySeq[k]) <= 3 }
Theorems ==
  /\ WellFormed(tbl)
  /\ \A k \in TheoremQ : LookupTheorems(tbl, QuerySeq[k])
  \* the group key emitted for the replayer is sound for SameMount
  /\ \A j, k \in ShortQ :
        SameMount(tbl, QuerySeq[j], QuerySeq[k])
          <=> (Grp(GetMount(tbl, QuerySeq[j])) = Grp(GetMount(tbl, QuerySeq[k])))
=============================================================================
