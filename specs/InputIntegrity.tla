--------------------------- MODULE InputIntegrity ---------------------------
(* C19: executing a task cannot silently alter the inputs it was submitted with. *)
(* One submission: the value v of an input (0 = as submitted, 1 = modified), the *)
(* copy the body actually sees (same object with the sequential worker, a        *)
(* pickled copy in a pool worker, a staged copy for files with copy mode copy),  *)
(* the body (mutates in place or not), the post-run hash check.                  *)
EXTENDS Naturals, TLC, Json, Sequences
CONSTANTS Kinds,      \* input kinds, e.g. {"list","dict","set","object","array","array-shape","file-any","file-copy"}
          Workers     \* {"debug","cf"}
VARIABLES kind, worker, mutates, pc, callerVal, bodyVal, reported, storedUnder, origId
vars == <<kind, worker, mutates, pc, callerVal, bodyVal, reported, storedUnder, origId>>
Init == /\ kind \in Kinds /\ worker \in Workers /\ mutates \in BOOLEAN
        /\ pc = "submitted" /\ callerVal = 0 /\ bodyVal = 0 /\ reported = FALSE
        /\ storedUnder = "none" /\ origId = "id0"
(* does the body work on the caller's object (aliasing) ? *)
Aliased == kind = "file-any" \/ (worker = "debug" /\ kind # "file-copy")   \* files are shared by path whatever the worker
IdOf(v) == IF v = 0 THEN "id0" ELSE "id1"
Body == /\ pc = "submitted"
        /\ bodyVal' = IF mutates THEN 1 ELSE 0
        /\ callerVal' = IF mutates /\ Aliased THEN 1 ELSE callerVal
        /\ pc' = "ran" /\ UNCHANGED <<kind, worker, mutates, reported, storedUnder, origId>>
Save == /\ pc = "ran" /\ storedUnder' = origId      \* the directory was named before the body ran
        /\ pc' = "saved" /\ UNCHANGED <<kind, worker, mutates, callerVal, bodyVal, reported, origId>>
HashCheck == /\ pc = "saved"
             /\ reported' = (IdOf(callerVal) # origId)     \* the submitting side re-hashes its inputs
             /\ pc' = "done" /\ UNCHANGED <<kind, worker, mutates, callerVal, bodyVal, storedUnder, origId>>
Next == Body \/ Save \/ HashCheck
Spec == Init /\ [][Next]_vars
(* C19 *)
MutationReported == pc = "done" => (callerVal = 0 \/ reported)
NoFalseReport    == pc = "done" => (reported => callerVal # 0)
StoredUnderOriginalId == pc \in {"saved", "done"} => storedUnder = "id0"
CopyLeavesOriginal == (kind = "file-copy" /\ pc = "done") => callerVal = 0
Emit == pc = "done" => PrintT(ToJson([kind |-> kind, worker |-> worker, mutates |-> mutates,
                                      caller_changed |-> callerVal = 1, reported |-> reported, stored |-> storedUnder]))
=============================================================================
