------------------------------ MODULE WfState ------------------------------
(***************************************************************************)
(* Reference semantics of state propagation through a workflow DAG (C03,   *)
(* oracle of C17): a nested-loop evaluation with NAMED AXES.               *)
(*                                                                         *)
(* A workflow is a record                                                  *)
(*   [ins    : [input name -> length]   (list inputs; 0 = scalar input),   *)
(*    nodes  : sequence of node records, in definition (topological) order *)
(*    outs   : sequence of node names whose output is a workflow output ]  *)
(* node = [name, x, y   : sources [k : "wf" | "node" | "none", v : name],  *)
(*         hassplit, split : splitter tree (SplitAlgebra) over the fields  *)
(*                           "x","y" bound to list inputs,                 *)
(*         comb : sequence of axes <<node, field>> to combine ]            *)
(*                                                                         *)
(* Every node exposes Coords = the ordered list of assignments of its      *)
(* remaining axes (one per output element).  The jobs of a node are the    *)
(* NATURAL JOIN of the coordinate lists of its upstream nodes (in input    *)
(* field order: an upstream coordinate extends a partial assignment only   *)
(* if it agrees on every shared axis - alignment; disjoint axes multiply,  *)
(* left slowest), then the product with the node's own splitter expansion. *)
(* Outputs are symbolic terms [n, x, y], so equality of outputs checks     *)
(* pairing, order, loss and duplication at once.                           *)
(***************************************************************************)
EXTENDS SplitAlgebra

NoneVal == [t |-> "none"]
Elem(inp, i) == [t |-> "elem", inp |-> inp, i |-> i]          \* i-th element (0-based) of list input
Whole(inp, n) == [t |-> "list", v |-> [k \in 1..n |-> Elem(inp, k - 1)]]
Scalar(inp) == [t |-> "scalar", inp |-> inp]
Term(n, x, y) == [t |-> "term", n |-> n, x |-> x, y |-> y]
ListOf(vs) == [t |-> "list", v |-> vs]

Fields == <<"x", "y">>
SplitFields(nd) == IF nd.hassplit THEN Range(FieldsOf(nd.split)) ELSE {}

Compat(r, e) == \A a \in (DOMAIN r) \cap (DOMAIN e) : r[a] = e[a]
RECURSIVE Extend(_, _)        \* r joined with every compatible coordinate of es, in order
Extend(r, es) == IF es = <<>> THEN <<>>
                 ELSE (IF Compat(r, Head(es)) THEN << r @@ Head(es) >> ELSE <<>>) \o Extend(r, Tail(es))
Join(R, es) == FlattenSeq([i \in 1..Len(R) |-> Extend(R[i], es)])

RestrictTo(r, axes) == [a \in axes |-> r[a]]
RECURSIVE Dedup(_, _)
Dedup(s, seen) == IF s = <<>> THEN <<>>
                  ELSE IF Head(s) \in seen THEN Dedup(Tail(s), seen)
                  ELSE <<Head(s)>> \o Dedup(Tail(s), seen \cup {Head(s)})

(* upstream node names of a node, in input-field order, without repetition *)
Ups(nd) == Dedup(SelectSeq(<<nd.x, nd.y>>, LAMBDA s : s.k = "node"), {})

(* info[n] = [keys : ordered coordinate list of the remaining axes,
              rem  : set of remaining axes,
              out  : function key -> value,
              zrem : set of sets of zipped remaining axes,
              njobs: number of jobs] *)
EvalNode(wf, nd, info) ==
  LET nm   == nd.name
      ups  == Ups(nd)
      RECURSIVE JoinUps(_, _)
      JoinUps(R, k) == IF k > Len(ups) THEN R ELSE JoinUps(Join(R, info[ups[k].v].keys), k + 1)
      R0   == JoinUps(<< <<>> >>, 1)       \* one empty assignment (the empty function)
      lens == [f \in SplitFields(nd) |-> wf.ins[(IF f = "x" THEN nd.x ELSE nd.y).v]]
      ok   == ~nd.hassplit \/ WellShaped(nd.split, lens)
      ex   == IF nd.hassplit /\ ok THEN Expand(nd.split, lens) ELSE << <<>> >>
      own(e) == [a \in {<<nm, f>> : f \in DOMAIN e} |-> e[a[2]]]
      R    == IF nd.hassplit /\ ~ok THEN <<>>
              ELSE IF nd.hassplit THEN FlattenSeq([i \in 1..Len(R0) |-> [j \in 1..Len(ex) |-> R0[i] @@ own(ex[j])]])
              ELSE R0
      val(r, s, f) ==
        IF s.k = "none" THEN NoneVal
        ELSE IF s.k = "wf" THEN
             (IF wf.ins[s.v] = 0 THEN Scalar(s.v)
              ELSE IF f \in SplitFields(nd) THEN Elem(s.v, r[<<nm, f>>]) ELSE Whole(s.v, wf.ins[s.v]))
        ELSE info[s.v].out[RestrictTo(r, info[s.v].rem)]
      jobs == [i \in 1..Len(R) |-> Term(nm, val(R[i], nd.x, "x"), val(R[i], nd.y, "y"))]
      upz  == UNION {info[ups[k].v].zrem : k \in 1..Len(ups)}
      ownz == IF nd.hassplit /\ ok THEN {{<<nm, f>> : f \in g} : g \in Range(AxesOf(nd.split))} ELSE {}
      zg   == upz \cup ownz
      allaxes == IF Len(R) = 0 THEN {} ELSE DOMAIN R[1]
      comb == Range(nd.comb)
      clos == UNION {g \in zg : g \cap comb # {}} \cup (comb \cap allaxes)
      rem  == allaxes \ clos
      keyOf(i) == RestrictTo(R[i], rem)
      keys == Dedup([i \in 1..Len(R) |-> keyOf(i)], {})
      outv(k) == LET idx == SelectSeq([i \in 1..Len(R) |-> i], LAMBDA i : keyOf(i) = k) IN
                 IF clos = {} THEN jobs[idx[1]] ELSE ListOf([j \in 1..Len(idx) |-> jobs[idx[j]]])
      (* structural classes used ONLY to name recorded known findings (DESIGN section 7) *)
      ancOf(k) == info[ups[k].v].anc \cup {ups[k].v}
      shared(i, j) == info[ups[i].v].rem \cap info[ups[j].v].rem
      related(i, j) == ups[i].v \in info[ups[j].v].anc \/ ups[j].v \in info[ups[i].v].anc
      (* cD: the recorded finding class "repeated upstream state".  Either a true diamond (two upstream
         nodes sharing an originating axis, neither derived from the other), or "direct + via" where the
         via node split further or combined on the way, or the shared axis is combined here.  A plain
         triangle d(x = a.out, y = f(a.out)) (f without splitter/combiner) is NOT in the class: pydra aligns it. *)
      (* the one shape of repeated upstream state that pydra aligns: an upstream node with a state of its
         own only (no inherited axes) plus a node fed DIRECTLY by it that neither splits nor combines *)
      simple(i, j) == /\ info[ups[i].v].anc = {}
                      /\ ups[i].v \in info[ups[j].v].direct
                      /\ info[ups[j].v].rem = info[ups[i].v].rem
                      /\ ~info[ups[i].v].combined /\ ~info[ups[j].v].combined /\ ~info[ups[j].v].ownsplit
      cD == \E i, j \in 1..Len(ups) : i # j /\ shared(i, j) # {} /\
              (~(simple(i, j) \/ simple(j, i)) \/ comb \cap shared(i, j) # {})
      cP == \E i \in 1..Len(ups) : info[ups[i].v].partial
      cI == nd.hassplit /\ \E a \in comb : a[1] # nm
      prodUps == FoldFunction(LAMBDA a, b : a * b, 1, [k \in 1..Len(ups) |-> Len(info[ups[k].v].keys)])
  IN [ok |-> ok, keys |-> keys, rem |-> rem, out |-> [k \in Range(keys) |-> outv(k)],
      zrem |-> {g \ clos : g \in zg} \ {{}}, njobs |-> Len(R), combined |-> clos # {},
      partial |-> (clos # comb \cap allaxes), cD |-> cD, cP |-> cP, cI |-> cI,
      noalign |-> prodUps * (IF nd.hassplit THEN Len(ex) ELSE 1), allaxes |-> allaxes,
      anc |-> UNION {ancOf(k) : k \in 1..Len(ups)}, direct |-> {ups[k].v : k \in 1..Len(ups)}, ownsplit |-> nd.hassplit]

RECURSIVE EvalFrom(_, _, _)
EvalFrom(wf, i, info) ==
  IF i > Len(wf.nodes) THEN info
  ELSE LET nd == wf.nodes[i] IN EvalFrom(wf, i + 1, info @@ (nd.name :> EvalNode(wf, nd, info)))
Eval(wf) == EvalFrom(wf, 1, <<>>)

Rejected(wf) == LET info == Eval(wf) IN \E i \in 1..Len(wf.nodes) : ~info[wf.nodes[i].name].ok

(* workflow outputs: a node with remaining axes yields the list of its values in   *)
(* coordinate order, otherwise its single value ([] when it ran zero jobs)         *)
OutOf(info, n) ==
  LET u == info[n] IN
  IF u.rem # {} THEN ListOf([k \in 1..Len(u.keys) |-> u.out[u.keys[k]]])
  ELSE IF Len(u.keys) = 0 THEN ListOf(<<>>) ELSE u.out[u.keys[1]]

Result(wf) ==
  LET info == Eval(wf) IN
  [ rejected |-> \E i \in 1..Len(wf.nodes) : ~info[wf.nodes[i].name].ok,
    outs     |-> [k \in 1..Len(wf.outs) |-> OutOf(info, wf.outs[k])],
    njobs    |-> [k \in 1..Len(wf.nodes) |-> info[wf.nodes[k].name].njobs],
    classes  |-> [k \in 1..Len(wf.nodes) |-> LET u == info[wf.nodes[k].name] IN
                    [cD |-> u.cD, cP |-> u.cP, cI |-> u.cI, noalign |-> u.noalign]],
    absent   |-> \E k \in 1..Len(wf.nodes) : \E a \in Range(wf.nodes[k].comb) : a \notin info[wf.nodes[k].name].allaxes ]
=============================================================================
