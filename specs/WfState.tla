------------------------------ MODULE WfState ------------------------------
(***************************************************************************)
(* Reference semantics of state propagation through a workflow DAG (C03,   *)
(* oracle of C17): a nested-loop evaluation with NAMED AXES.               *)
(*                                                                         *)
(* A workflow is a record                                                  *)
(*   [ins    : [input name -> length]   (list inputs; 0 = scalar input),   *)
(*    nodes  : sequence of node records, in definition (topological) order *)
(*    outs   : sequence of node names whose output is a workflow output ]  *)
(* node = [name, x, y   : sources [k : "wf" | "node" | "none", v : name],  *)
(*         hassplit, split : splitter tree (SplitAlgebra) over the fields  *)
(*                           "x","y" bound to list inputs,                 *)
(*         comb : sequence of axes <<node, field>> to combine ]            *)
(*                                                                         *)
(* A node may SPLIT OVER AN UPSTREAM OUTPUT (a split field whose source is a *)
(* node): the value delivered for every upstream coordinate is taken apart *)
(* (AsList: a list value gives its elements, a term [n, x, y] - a Python    *)
(* list of three - gives name, x, y) and the node's own axis ranges over    *)
(* the positions.  The lengths must agree over all upstream coordinates     *)
(* (else flagged badsplit and not replayed).  A LIST-MAKER node (mk = k >= 0)*)
(* returns the k-element list [[n, 0, x], .., [n, k-1, x]]; k = 0 gives the *)
(* empty list, hence nodes with ZERO jobs: a fully combined node without    *)
(* jobs still has one (empty-list) output and its consumers run.            *)
(*                                                                         *)
(* A plain node may take a THIRD input z (never split): its job term is then *)
(* [n, x, y, z].  Three inputs carrying one originating split must still    *)
(* be aligned on it.                                                        *)
(*                                                                         *)
(* A node may be a NESTED WORKFLOW (field inner):                           *)
(*   "none"   a plain task                                                 *)
(*   "chain1" an inner workflow of one task  i0(x, y)                      *)
(*   "chain2" an inner workflow  i1(x = i0(x, y).out)                      *)
(*   "split" / "splitc"  an inner workflow whose task i0 SPLITS over the   *)
(*            elements of its list input x (and combines them again):      *)
(*            its output is the list of the per-element terms.             *)
(* A nested workflow is one node of the outer graph: it is split, combined *)
(* and aligned like any other node, each of its jobs evaluates the inner   *)
(* graph on that job's input values (JobTerm).                             *)
(*                                                                         *)
(* Every node exposes Coords = the ordered list of assignments of its      *)
(* remaining axes (one per output element).  The jobs of a node are the    *)
(* NATURAL JOIN of the coordinate lists of its upstream nodes (in input    *)
(* field order: an upstream coordinate extends a partial assignment only   *)
(* if it agrees on every shared axis - alignment; disjoint axes multiply,  *)
(* left slowest), then the product with the node's own splitter expansion. *)
(* Outputs are symbolic terms [n, x, y], so equality of outputs checks     *)
(* pairing, order, loss and duplication at once.                           *)
(***************************************************************************)
EXTENDS SplitAlgebra

NoneVal == [t |-> "none"]
Elem(inp, i) == [t |-> "elem", inp |-> inp, i |-> i]          \* i-th element (0-based) of list input
Whole(inp, n) == [t |-> "list", v |-> [k \in 1..n |-> Elem(inp, k - 1)]]
Scalar(inp) == [t |-> "scalar", inp |-> inp]
Term(n, x, y) == [t |-> "term", n |-> n, x |-> x, y |-> y]
ListOf(vs) == [t |-> "list", v |-> vs]
Str(x) == [t |-> "str", s |-> x]
IntV(i) == [t |-> "int", i |-> i]
Term4(n, x, y, z) == [t |-> "term4", n |-> n, x |-> x, y |-> y, z |-> z]
Splittable(v) == v.t \in {"list", "term", "term4"}
AsList(v) == IF v.t = "list" THEN v.v ELSE IF v.t = "term" THEN <<Str(v.n), v.x, v.y>>
             ELSE IF v.t = "term4" THEN <<Str(v.n), v.x, v.y, v.z>> ELSE <<>>
Zs(nd) == IF "z" \in DOMAIN nd THEN nd.z ELSE [k |-> "none", v |-> ""]
MkOf(nd) == IF "mk" \in DOMAIN nd THEN nd.mk ELSE 0 - 1

InnerKind(nd) == IF "inner" \in DOMAIN nd THEN nd.inner ELSE "none"
InnerSplits(nd) == InnerKind(nd) \in {"split", "splitc"}
(* the value one job of node nd produces from its input values *)
JobTerm(nd, xv, yv) ==
  LET nm == nd.name IN
  CASE InnerKind(nd) = "none"   -> Term(nm, xv, yv)
    [] InnerKind(nd) = "chain1" -> Term(nm \o "_i0", xv, yv)
    [] InnerKind(nd) = "chain2" -> Term(nm \o "_i1", Term(nm \o "_i0", xv, yv), NoneVal)
    [] InnerSplits(nd)      -> IF xv.t = "list"
                               THEN ListOf([k \in 1..Len(xv.v) |-> Term(nm \o "_i0", xv.v[k], yv)])
                               ELSE NoneVal       \* flagged badinner, never replayed

Fields == <<"x", "y">>
SplitFields(nd) == IF nd.hassplit THEN Range(FieldsOf(nd.split)) ELSE {}

Compat(r, e) == \A a \in (DOMAIN r) \cap (DOMAIN e) : r[a] = e[a]
RECURSIVE Extend(_, _)        \* r joined with every compatible coordinate of es, in order
Extend(r, es) == IF es = <<>> THEN <<>>
                 ELSE (IF Compat(r, Head(es)) THEN << r @@ Head(es) >> ELSE <<>>) \o Extend(r, Tail(es))
Join(R, es) == FlattenSeq([i \in 1..Len(R) |-> Extend(R[i], es)])

RestrictTo(r, axes) == [a \in axes |-> r[a]]
RECURSIVE Dedup(_, _)
Dedup(s, seen) == IF s = <<>> THEN <<>>
                  ELSE IF Head(s) \in seen THEN Dedup(Tail(s), seen)
                  ELSE <<Head(s)>> \o Dedup(Tail(s), seen \cup {Head(s)})

(* upstream node names of a node, in input-field order, without repetition *)
Ups(nd) == Dedup(SelectSeq(<<nd.x, nd.y, Zs(nd)>>, LAMBDA s : s.k = "node"), {})

(* info[n] = [keys : ordered coordinate list of the remaining axes,
              rem  : set of remaining axes,
              out  : function key -> value,
              zrem : set of sets of zipped remaining axes,
              njobs: number of jobs] *)
EvalNode(wf, nd, info) ==
  LET nm   == nd.name
      ups  == Ups(nd)
      RECURSIVE JoinUps(_, _)
      JoinUps(R, k) == IF k > Len(ups) THEN R ELSE JoinUps(Join(R, info[ups[k].v].keys), k + 1)
      R0   == JoinUps(<< <<>> >>, 1)       \* one empty assignment (the empty function)
      srcOf(f) == IF f = "x" THEN nd.x ELSE nd.y
      NF   == {f \in SplitFields(nd) : srcOf(f).k = "node"}        \* split over an upstream output
      uv(r, f) == info[srcOf(f).v].out[RestrictTo(r, info[srcOf(f).v].rem)]
      lenOf(f) == IF f \in NF THEN (IF Len(R0) = 0 THEN 0 ELSE Len(AsList(uv(R0[1], f))))
                  ELSE wf.ins[srcOf(f).v]
      badsplit == \E f \in NF : \E i \in 1..Len(R0) :
                     ~Splittable(uv(R0[i], f)) \/ Len(AsList(uv(R0[i], f))) # lenOf(f)
      \* class cN of a recorded finding: splitting over the output of a node that still HAS a state
      \* ("inner splitter" below an upstream state)
      innerstate == \E f \in NF : info[srcOf(f).v].rem # {}
      lens == [f \in SplitFields(nd) |-> lenOf(f)]
      ok   == ~nd.hassplit \/ WellShaped(nd.split, lens)
      ex   == IF nd.hassplit /\ ok THEN Expand(nd.split, lens) ELSE << <<>> >>
      own(e) == [a \in {<<nm, f>> : f \in DOMAIN e} |-> e[a[2]]]
      R    == IF nd.hassplit /\ ~ok THEN <<>>
              ELSE IF nd.hassplit THEN FlattenSeq([i \in 1..Len(R0) |-> [j \in 1..Len(ex) |-> R0[i] @@ own(ex[j])]])
              ELSE R0
      val(r, s, f) ==
        IF s.k = "none" THEN NoneVal
        ELSE IF s.k = "wf" THEN
             (IF wf.ins[s.v] = 0 THEN Scalar(s.v)
              ELSE IF f \in SplitFields(nd) THEN Elem(s.v, r[<<nm, f>>]) ELSE Whole(s.v, wf.ins[s.v]))
        ELSE LET u == info[s.v].out[RestrictTo(r, info[s.v].rem)] IN
             IF f \in SplitFields(nd) THEN (IF badsplit THEN NoneVal ELSE AsList(u)[r[<<nm, f>>] + 1]) ELSE u
      jobval(r) == LET xv == val(r, nd.x, "x")  yv == val(r, nd.y, "y") IN
                   IF MkOf(nd) >= 0 THEN ListOf([k \in 1..MkOf(nd) |-> Term(nm, IntV(k - 1), xv)])
                   ELSE IF Zs(nd).k # "none" THEN Term4(nm, xv, yv, val(r, Zs(nd), "z"))
                   ELSE JobTerm(nd, xv, yv)
      jobs == [i \in 1..Len(R) |-> jobval(R[i])]
      badinner == InnerSplits(nd) /\ \E i \in 1..Len(R) : val(R[i], nd.x, "x").t # "list"
      upz  == UNION {info[ups[k].v].zrem : k \in 1..Len(ups)}
      ownz == IF nd.hassplit /\ ok THEN {{<<nm, f>> : f \in g} : g \in Range(AxesOf(nd.split))} ELSE {}
      zg   == upz \cup ownz
      allaxes == UNION {info[ups[k].v].rem : k \in 1..Len(ups)} \cup
                 (IF nd.hassplit /\ ok THEN {<<nm, f>> : f \in SplitFields(nd)} ELSE {})
      comb == Range(nd.comb)
      clos == UNION {g \in zg : g \cap comb # {}} \cup (comb \cap allaxes)
      rem  == allaxes \ clos
      keyOf(i) == RestrictTo(R[i], rem)
      \* a node without remaining axes has exactly one output - also when it ran no job at all
      keys == IF rem = {} /\ (ok \/ ~nd.hassplit) THEN << <<>> >> ELSE Dedup([i \in 1..Len(R) |-> keyOf(i)], {})
      outv(k) == LET idx == SelectSeq([i \in 1..Len(R) |-> i], LAMBDA i : keyOf(i) = k) IN
                 IF idx = <<>> THEN ListOf(<<>>)
                 ELSE IF clos = {} THEN jobs[idx[1]] ELSE ListOf([j \in 1..Len(idx) |-> jobs[idx[j]]])
      \* zero jobs under a PARTIAL combiner: the nested loops over the remaining axes would still run;
      \* the join formulation cannot express it - flagged, not replayed
      emptypartial == Len(R) = 0 /\ rem # {} /\ clos # {}
      (* structural classes used ONLY to name recorded known findings (DESIGN section 7) *)
      ancOf(k) == info[ups[k].v].anc \cup {ups[k].v}
      shared(i, j) == info[ups[i].v].rem \cap info[ups[j].v].rem
      related(i, j) == ups[i].v \in info[ups[j].v].anc \/ ups[j].v \in info[ups[i].v].anc
      (* cD: the recorded finding class "repeated upstream state".  Either a true diamond (two upstream
         nodes sharing an originating axis, neither derived from the other), or "direct + via" where the
         via node split further or combined on the way, or the shared axis is combined here.  A plain
         triangle d(x = a.out, y = f(a.out)) (f without splitter/combiner) is NOT in the class: pydra aligns it. *)
      (* the one shape of repeated upstream state that pydra aligns: an upstream node with a state of its
         own only (no inherited axes) plus a node fed DIRECTLY by it that neither splits nor combines *)
      simple(i, j) == /\ info[ups[i].v].anc = {}
                      /\ ups[i].v \in info[ups[j].v].direct
                      /\ info[ups[j].v].rem = info[ups[i].v].rem
                      /\ ~info[ups[i].v].combined /\ ~info[ups[j].v].combined /\ ~info[ups[j].v].ownsplit
      cD == \E i, j \in 1..Len(ups) : i # j /\ shared(i, j) # {} /\
              (~(simple(i, j) \/ simple(j, i)) \/ comb \cap shared(i, j) # {})
      cP == \E i \in 1..Len(ups) : info[ups[i].v].partial
      cI == nd.hassplit /\ \E a \in comb : a[1] # nm
      prodUps == FoldFunction(LAMBDA a, b : a * b, 1, [k \in 1..Len(ups) |-> Len(info[ups[k].v].keys)])
  IN [ok |-> ok, keys |-> keys, rem |-> rem, out |-> [k \in Range(keys) |-> outv(k)],
      zrem |-> {g \ clos : g \in zg} \ {{}}, njobs |-> Len(R), combined |-> clos # {},
      partial |-> (clos # comb \cap allaxes), cD |-> cD, cP |-> cP, cI |-> cI,
      noalign |-> prodUps * (IF nd.hassplit THEN Len(ex) ELSE 1), allaxes |-> allaxes,
      badinner |-> badinner, badsplit |-> badsplit, emptypartial |-> emptypartial, innerstate |-> innerstate,
      anc |-> UNION {ancOf(k) : k \in 1..Len(ups)}, direct |-> {ups[k].v : k \in 1..Len(ups)}, ownsplit |-> nd.hassplit]

RECURSIVE EvalFrom(_, _, _)
EvalFrom(wf, i, info) ==
  IF i > Len(wf.nodes) THEN info
  ELSE LET nd == wf.nodes[i] IN EvalFrom(wf, i + 1, info @@ (nd.name :> EvalNode(wf, nd, info)))
Eval(wf) == EvalFrom(wf, 1, <<>>)

Rejected(wf) == LET info == Eval(wf) IN \E i \in 1..Len(wf.nodes) : ~info[wf.nodes[i].name].ok

(* workflow outputs: a node with remaining axes yields the list of its values in   *)
(* coordinate order, otherwise its single value ([] when it ran zero jobs)         *)
OutOf(info, n) ==
  LET u == info[n] IN
  IF u.rem # {} THEN ListOf([k \in 1..Len(u.keys) |-> u.out[u.keys[k]]])
  ELSE IF Len(u.keys) = 0 THEN ListOf(<<>>) ELSE u.out[u.keys[1]]

Result(wf) ==
  LET info == Eval(wf) IN
  [ rejected |-> \E i \in 1..Len(wf.nodes) : ~info[wf.nodes[i].name].ok,
    outs     |-> [k \in 1..Len(wf.outs) |-> OutOf(info, wf.outs[k])],
    njobs    |-> [k \in 1..Len(wf.nodes) |-> info[wf.nodes[k].name].njobs],
    classes  |-> [k \in 1..Len(wf.nodes) |-> LET u == info[wf.nodes[k].name] IN
                    [cD |-> u.cD, cP |-> u.cP, cI |-> u.cI, cN |-> u.innerstate, noalign |-> u.noalign]],
    badinner |-> \E k \in 1..Len(wf.nodes) : info[wf.nodes[k].name].badinner,
    badsplit |-> \E k \in 1..Len(wf.nodes) : info[wf.nodes[k].name].badsplit,
    emptypartial |-> \E k \in 1..Len(wf.nodes) : info[wf.nodes[k].name].emptypartial,
    innerstate |-> \E k \in 1..Len(wf.nodes) : info[wf.nodes[k].name].innerstate,
    absent   |-> \E k \in 1..Len(wf.nodes) : \E a \in Range(wf.nodes[k].comb) : a \notin info[wf.nodes[k].name].allaxes ]
=============================================================================
