---------------------------- MODULE MC_JobTrace ----------------------------
EXTENDS JobProtocol_Trace
TwoRO == <<"ro1", "ro2">>
AnyDir == {Absent}
Both == {FALSE, TRUE}
OkOrRaise == {"ok", "raise"}
=============================================================================
