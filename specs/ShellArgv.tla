----------------------------- MODULE ShellArgv -----------------------------
(***************************************************************************)
(* Reference semantics of the argument vector of a pydra shell task        *)
(* (properties C22, C23; the argv side of C24).                            *)
(*                                                                         *)
(* Written from the property statements and the documentation of           *)
(* `shell.arg` (argstr / position / sep, docs + field docstring):          *)
(*   - the argument vector is: the executable, the arguments of every set  *)
(*     field, the free arguments (`append_args`);                          *)
(*   - fields are ordered by position: non-negative ascending, then the    *)
(*     unpositioned fields in definition order, then negative ascending;   *)
(*   - unset / None fields, False flags and empty multi-inputs contribute  *)
(*     nothing; a True flag contributes its flag;                          *)
(*   - a value is written after its flag (`-f`, `-f {x}`), glued into the  *)
(*     word its template builds (`--k={x}`), or on its own (`""`);         *)
(*   - a list is repeated element by element with `...`, otherwise joined  *)
(*     with the field separator;                                           *)
(*   - an argstr of None keeps the field out of the command.               *)
(* The model is "a command-line template with OPAQUE values": only the     *)
(* blanks written in the argstr or used as separator divide words; a value *)
(* element is an atom (C23: it reaches the command exactly as supplied,    *)
(* as its own argument or verbatim inside the word built around it).       *)
(*                                                                         *)
(* Strings are sequences of character codes.  Codes >= 1000 are opaque     *)
(* place-holders the harness substitutes (1000 = "<scratch dir>/",         *)
(* 2000 = the executable).                                                 *)
(*                                                                         *)
(* Where the statement does not decide an outcome the reference is a SET   *)
(* of admissible argument vectors (see Contribs).                          *)
(*                                                                         *)
(* The second half of the module is the named AS-BUILT reference           *)
(* (`AsBuilt`): the same rendering flattened to a string and re-tokenised  *)
(* by a model of Python's shlex, with slot-numbered implicit positions and *)
(* truthiness-tested plain values.  It exists only to recognise listed     *)
(* known findings exactly; it is never used as the oracle.                 *)
(***************************************************************************)
EXTENDS Integers, Sequences, FiniteSets, SequencesExt, FiniteSetsExt, Functions, TLC

SP == 32   TAB == 9   NL == 10   CR == 13   DASH == 45   EQ == 61   COMMA == 44
SQ == 39   DQ == 34   BS == 92
EXE == << 2000 >>                 \* the executable word (opaque)
DirCode == 1000                   \* "<scratch dir>/" (opaque)

NoPos == 0                        \* position 0 belongs to the executable; 0 = "unpositioned"

(* ---- definitions and values ------------------------------------------ *)
(* field  = [id, kind, opt, form, rep, sep, pos]                           *)
(*   kind \in {"bool","str","int","float","file","list","multi"}           *)
(*   form \in {"none","bare","flag","flagtpl","eqtpl"}                     *)
(*            argstr = None | "" | "-p" | "-p {x}" | "--p={x}"             *)
(*   rep  : argstr ends with "..."      sep \in {SP, COMMA}                *)
(* value  = [k, es, z]                                                     *)
(*   k \in {"unset","none","true","false","scalar","list","single"}        *)
(*   es : the string elements; z : the Python value is falsy (0, 0.0, "")  *)
FlagWord(id) == << DASH, 111 + id >>               \* -p -q -r -s
EqPrefix(id) == << DASH, DASH, 111 + id, EQ >>     \* --p=

Absent(v)  == v.k \in {"unset", "none"}
ScalarKinds == {"str", "int", "float", "file"}

JoinWith(es, c) == FlattenSeq([k \in 1..Len(es) |-> IF k = 1 THEN es[k] ELSE << c >> \o es[k]])

(* the value words: elements joined with the separator; a blank separator divides words *)
ValueWords(es, sep) == IF sep = SP THEN es
                       ELSE IF es = << >> THEN << >> ELSE << JoinWith(es, sep) >>

(* the argstr applied to the value words *)
Apply(f, ws) ==
  CASE f.form = "bare"                -> ws
    [] f.form \in {"flag", "flagtpl"} -> << FlagWord(f.id) >> \o ws
    [] f.form = "eqtpl"               -> IF ws = << >> THEN << EqPrefix(f.id) >>
                                         ELSE << EqPrefix(f.id) \o ws[1] >> \o Tail(ws)

Joined(f, es)      == Apply(f, ValueWords(es, f.sep))
Repeated(f, es)    == FlattenSeq([i \in 1..Len(es) |-> Apply(f, << es[i] >>)])
RepeatedSep(f, es) == FlattenSeq([i \in 1..Len(es) |->
                         Apply(f, << IF i < Len(es) THEN es[i] \o << f.sep >> ELSE es[i] >>)])

DropEmpty(ws) == SelectSeq(ws, LAMBDA w : w # << >>)

(* sw = [pos, falsy] : as-built switches; both FALSE = the documented semantics *)
Ideal == [pos |-> FALSE, falsy |-> FALSE]

(* Admissible contributions of one field (a set of word sequences).        *)
(* Open points (statement silent, both outcomes admissible):               *)
(*   o1  a set empty string: an empty word, or no word (the flag stays);   *)
(*   o2  an empty plain list: nothing, or the bare flag/prefix;            *)
(*   o3  a MultiInputObj without "...": joined (statement) or flag per     *)
(*       element (tutorial: "the flag itself is printed multiple times");  *)
(*   o4  "..." together with a non-blank separator: the separator is       *)
(*       unused, or follows every element but the last.                    *)
Contribs(f, v, sw) ==
  IF f.form = "none" \/ Absent(v) THEN { << >> }
  ELSE IF f.kind = "bool" THEN { IF v.k = "true" THEN << FlagWord(f.id) >> ELSE << >> }
  ELSE IF f.kind \in ScalarKinds THEN
         IF sw.falsy /\ v.z /\ f.form \in {"bare", "flag"} THEN { << >> }
         ELSE LET ws == Apply(f, v.es) IN { ws, DropEmpty(ws) }                       \* o1
  ELSE IF v.es = << >> THEN
         IF f.kind = "multi" \/ f.rep THEN { << >> }
         ELSE { << >>, Apply(f, << >>) }                                              \* o2
  ELSE IF f.rep THEN
         { Repeated(f, v.es) } \cup (IF f.sep # SP THEN { RepeatedSep(f, v.es) } ELSE {})  \* o4
  ELSE IF f.kind = "list" THEN { Joined(f, v.es) }
  ELSE { Joined(f, v.es), Repeated(f, v.es) }                                         \* o3

OpenPoints(f, v) ==
  IF f.form = "none" \/ Absent(v) \/ f.kind = "bool" THEN {}
  ELSE IF f.kind \in ScalarKinds THEN (IF v.es = << << >> >> THEN {"o1-empty-string"} ELSE {})
  ELSE IF v.es = << >> THEN (IF f.kind = "list" /\ ~f.rep THEN {"o2-empty-list"} ELSE {})
  ELSE IF f.rep THEN (IF f.sep # SP /\ Len(v.es) > 1 THEN {"o4-ellipsis-with-separator"} ELSE {})
  ELSE IF f.kind = "multi" /\ Len(v.es) > 1 THEN {"o3-multi-without-ellipsis"} ELSE {}

(* ---- ordering ---------------------------------------------------------- *)
Idx(def)    == 1..Len(def)
NonNeg(def) == { i \in Idx(def) : def[i].pos > 0 }
Neg(def)    == { i \in Idx(def) : def[i].pos < 0 }
Unpos(def)  == { i \in Idx(def) : def[i].pos = NoPos }
DistinctPositions(def) ==
  \A i, j \in Idx(def) : (i # j /\ def[i].pos # NoPos) => def[i].pos # def[j].pos

ByPos(def, S) == SetToSortSeq(S, LAMBDA a, b : def[a].pos < def[b].pos)
ByIdx(S)      == SetToSortSeq(S, LAMBDA a, b : a < b)

(* documented: non-negative ascending, unpositioned in definition order, negative ascending *)
IdealOrder(def) == ByPos(def, NonNeg(def)) \o ByIdx(Unpos(def)) \o ByPos(def, Neg(def))

(* as built: every field is given a slot 0..n when the class is made (0 = executable);    *)
(* a negative position -k claims slot n+1-k; unpositioned fields take the lowest free      *)
(* slots in definition order; two explicit claims on one slot reject the definition.       *)
SlotOf(def, i)  == IF def[i].pos > 0 THEN def[i].pos ELSE Len(def) + 1 + def[i].pos
Explicit(def)   == Idx(def) \ Unpos(def)
AsBuiltRejects(def) ==
  \/ \E i \in Explicit(def) : SlotOf(def, i) = 0
  \/ \E i, j \in Explicit(def) : i # j /\ SlotOf(def, i) = SlotOf(def, j)
FreeSlots(def)  == ByIdx({ s \in 1..Len(def) : \A i \in Explicit(def) : SlotOf(def, i) # s })
Rank(def, i)    == Cardinality({ j \in Unpos(def) : j <= i })
SortKey(def, i) == IF def[i].pos = NoPos THEN FreeSlots(def)[Rank(def, i)] ELSE def[i].pos
AsBuiltOrder(def) ==
  SetToSortSeq(Idx(def) \ Neg(def), LAMBDA a, b : SortKey(def, a) < SortKey(def, b))
    \o ByPos(def, Neg(def))

(* the explicit non-negative positions are 1..m: no gap an unpositioned field could fall into *)
NoGap(def) == Unpos(def) = {} \/ { def[i].pos : i \in NonNeg(def) } = 1..Cardinality(NonNeg(def))

(* ---- the argument vector ---------------------------------------------- *)
RECURSIVE Concats(_)
Concats(sets) == IF sets = << >> THEN { << >> }
                 ELSE { h \o t : h \in Head(sets), t \in Concats(Tail(sets)) }

ArgvSet(def, vals, app, sw) ==
  LET ord   == IF sw.pos THEN AsBuiltOrder(def) ELSE IdealOrder(def)
      parts == [k \in 1..Len(ord) |-> Contribs(def[ord[k]], vals[ord[k]], sw)]
  IN  { << EXE >> \o body \o app : body \in Concats(parts) }

Argv(def, vals, app) == ArgvSet(def, vals, app, Ideal)

(* C23 as a theorem about the reference: every supplied element is found verbatim inside   *)
(* one word of every admissible vector                                                     *)
Infix(s, w) == \E k \in 0..(Len(w) - Len(s)) : SubSeq(w, k + 1, k + Len(s)) = s
Intact(def, vals, app) ==
  \A a \in Argv(def, vals, app) :
    /\ \A i \in Idx(def) :
         (def[i].form # "none" /\ ~Absent(vals[i]) /\ def[i].kind # "bool") =>
            \A e \in Range(vals[i].es) : e = << >> \/ \E w \in Range(a) : Infix(e, w)
    /\ \A k \in 1..Len(app) : a[Len(a) - Len(app) + k] = app[k]

(***************************************************************************)
(* AS-BUILT reference (named deviations; see known_findings.json)          *)
(***************************************************************************)
(* Named switches of the as-built reference.  When a finding is repaired in pydra, set its   *)
(* switch to FALSE here: the as-built prediction then follows the documented semantics for  *)
(* that aspect and the check requires the repaired behaviour.                               *)
BuiltWith == [pos   |-> TRUE,     \* C22-implicit-position-gap : slot-numbered implicit positions
              falsy |-> TRUE]     \* C22-falsy-scalar-dropped  : truthiness test on plain values

IsWS(c)    == c \in {SP, TAB, NL, CR}
IsStripWS(c) == c \in {SP, TAB, NL, CR, 11, 12}

RECURSIVE LStrip(_)
LStrip(s) == IF s # << >> /\ IsStripWS(Head(s)) THEN LStrip(Tail(s)) ELSE s
Strip(s)  == Reverse(LStrip(Reverse(LStrip(s))))

(* Python shlex (posix, whitespace_split) as a character machine *)
ShlexInit == [m |-> "ws", ret |-> "word", tok |-> << >>, quoted |-> FALSE, out |-> << >>]
ShlexStep(st, c) ==
  CASE st.m = "ws" ->
         IF IsWS(c) THEN st
         ELSE IF c = BS THEN [st EXCEPT !.m = "esc", !.ret = "word"]
         ELSE IF c = SQ THEN [st EXCEPT !.m = "sq", !.quoted = TRUE]
         ELSE IF c = DQ THEN [st EXCEPT !.m = "dq", !.quoted = TRUE]
         ELSE [st EXCEPT !.m = "word", !.tok = << c >>]
    [] st.m = "word" ->
         IF IsWS(c) THEN [st EXCEPT !.m = "ws", !.tok = << >>, !.quoted = FALSE,
                                    !.out = IF st.tok # << >> \/ st.quoted THEN Append(@, st.tok) ELSE @]
         ELSE IF c = BS THEN [st EXCEPT !.m = "esc", !.ret = "word"]
         ELSE IF c = SQ THEN [st EXCEPT !.m = "sq", !.quoted = TRUE]
         ELSE IF c = DQ THEN [st EXCEPT !.m = "dq", !.quoted = TRUE]
         ELSE [st EXCEPT !.tok = Append(@, c)]
    [] st.m = "sq" ->
         IF c = SQ THEN [st EXCEPT !.m = "word"] ELSE [st EXCEPT !.tok = Append(@, c)]
    [] st.m = "dq" ->
         IF c = DQ THEN [st EXCEPT !.m = "word"]
         ELSE IF c = BS THEN [st EXCEPT !.m = "esc", !.ret = "dq"]
         ELSE [st EXCEPT !.tok = Append(@, c)]
    [] st.m = "esc" ->
         [st EXCEPT !.m = st.ret,
                    !.tok = IF st.ret = "dq" /\ c # BS /\ c # DQ THEN @ \o << BS, c >> ELSE Append(@, c)]

ShlexRun(st, s) == FoldLeft(ShlexStep, st, s)

(* result: [err, ws];  err \in {"", "noclose", "noesc"} *)
Shlex(s) ==
  LET st == ShlexRun(ShlexInit, s) IN
  CASE st.m \in {"sq", "dq"} -> [err |-> "noclose", ws |-> << >>]
    [] st.m = "esc"          -> [err |-> "noesc", ws |-> << >>]
    [] st.m = "ws"           -> [err |-> "", ws |-> st.out]
    [] st.m = "word"         -> [err |-> "", ws |-> IF st.tok # << >> \/ st.quoted
                                                   THEN Append(st.out, st.tok) ELSE st.out]

(* split_cmd: shlex, then one pair of matching outer quotes is removed from every word *)
Unquote(w) == IF Len(w) >= 2 /\ w[1] \in {SQ, DQ} /\ w[Len(w)] = w[1]
              THEN SubSeq(w, 2, Len(w) - 1) ELSE w
SplitCmd(s) == LET r == Shlex(s) IN [err |-> r.err, ws |-> [k \in 1..Len(r.ws) |-> Unquote(r.ws[k])]]

ArgstrText(f) == CASE f.form = "bare" -> << >>
                   [] f.form \in {"flag", "flagtpl"} -> FlagWord(f.id)
                   [] f.form = "eqtpl" -> EqPrefix(f.id)
IsTemplate(f) == f.form \in {"flagtpl", "eqtpl"}
Filled(f, s)  == IF f.form = "eqtpl" THEN EqPrefix(f.id) \o s ELSE FlagWord(f.id) \o << SP >> \o s

(* the string built for one value (s, falsy) of a non-repeating field *)
PlainString(f, s, falsy) ==
  IF IsTemplate(f) THEN Strip(Filled(f, s))
  ELSE IF falsy /\ BuiltWith.falsy THEN << >> ELSE ArgstrText(f) \o << SP >> \o s

(* the string built for a list value of a repeating ("...") list field *)
RepString(f, es) ==
  JoinWith([i \in 1..Len(es) |->
              IF IsTemplate(f) THEN << SP >> \o Strip(Filled(f, es[i]))
              ELSE << SP >> \o ArgstrText(f) \o << SP >> \o es[i]], f.sep)

(* strings re-tokenised for one field, in order *)
FieldStrings(f, v) ==
  IF f.kind \in ScalarKinds THEN << PlainString(f, v.es[1], v.z) >>
  ELSE IF f.kind = "multi" THEN [i \in 1..Len(v.es) |-> PlainString(f, v.es[i], v.es[i] = << >>)]
  ELSE IF f.rep THEN << RepString(f, v.es) >>
  ELSE LET j == JoinWith(v.es, f.sep) IN << PlainString(f, j, j = << >>) >>

RECURSIVE SplitAll(_)
SplitAll(strs) ==
  IF strs = << >> THEN [err |-> "", ws |-> << >>]
  ELSE LET h == SplitCmd(Head(strs)) IN
       IF h.err # "" THEN h
       ELSE LET t == SplitAll(Tail(strs)) IN
            IF t.err # "" THEN t ELSE [err |-> "", ws |-> h.ws \o t.ws]

AsBuiltField(f, v) ==
  IF f.form = "none" \/ Absent(v) THEN [err |-> "", ws |-> << >>]
  ELSE IF f.kind = "bool" THEN [err |-> "", ws |-> IF v.k = "true" THEN << FlagWord(f.id) >> ELSE << >>]
  ELSE SplitAll(FieldStrings(f, v))

(* result: [rejected, err, argv]; errors surface in definition order *)
AsBuilt(def, vals, app) ==
  IF AsBuiltRejects(def) THEN [rejected |-> TRUE, err |-> "", argv |-> << >>]
  ELSE LET per  == [i \in Idx(def) |-> AsBuiltField(def[i], vals[i])]
           bad  == { i \in Idx(def) : per[i].err # "" }
           ord  == IF BuiltWith.pos THEN AsBuiltOrder(def) ELSE IdealOrder(def)
       IN IF bad # {} THEN [rejected |-> FALSE, err |-> per[Min(bad)].err, argv |-> << >>]
          ELSE [rejected |-> FALSE, err |-> "",
                argv |-> << EXE >> \o FlattenSeq([k \in 1..Len(ord) |-> per[ord[k]].ws]) \o app]

(* character classes that the re-tokenisation does not transport *)
CharClasses(s) == (IF \E k \in 1..Len(s) : s[k] \in {SQ, DQ} THEN {"quote"} ELSE {})
             \cup (IF \E k \in 1..Len(s) : s[k] = BS THEN {"backslash"} ELSE {})
             \cup (IF \E k \in 1..Len(s) : IsWS(s[k]) THEN {"whitespace"} ELSE {})
FieldClasses(def, vals) ==
  UNION { UNION { CharClasses(e) : e \in Range(vals[i].es) }
          : i \in { j \in Idx(def) : def[j].form # "none" /\ ~Absent(vals[j]) /\ def[j].kind # "bool" } }
ClassOf(S) == IF "quote" \in S THEN "quote" ELSE IF "backslash" \in S THEN "backslash"
              ELSE IF "whitespace" \in S THEN "whitespace" ELSE "none"

(* Which named deviation explains the as-built prediction?                                  *)
(*   "ideal"  it is admissible under the documented semantics                               *)
(*   "position" / "falsy" / "position+falsy"  admissible once those switches are on         *)
(*   "retokenise-<class>"  none of the above and a value contains characters of the class   *)
(*   "rejected"  the definition is refused when the class is made (not an argv at all)      *)
Explain(def, vals, app) ==
  LET ab == AsBuilt(def, vals, app)
      in(sw) == ab.err = "" /\ ab.argv \in ArgvSet(def, vals, app, sw)
  IN  IF ab.rejected THEN "rejected"
      ELSE IF in(Ideal) THEN "ideal"
      ELSE IF in([pos |-> TRUE, falsy |-> FALSE]) THEN "position"
      ELSE IF in([pos |-> FALSE, falsy |-> TRUE]) THEN "falsy"
      ELSE IF in([pos |-> TRUE, falsy |-> TRUE]) THEN "position+falsy"
      ELSE IF ClassOf(FieldClasses(def, vals)) # "none"
           THEN "retokenise-" \o ClassOf(FieldClasses(def, vals))
      ELSE "unexplained"
=============================================================================
