----------------------------- MODULE PosixWords -----------------------------
(***************************************************************************)
(* POSIX shell word splitting and quote removal as a character state       *)
(* machine (property C24: "splitting the displayed command line with       *)
(* POSIX shell rules gives back exactly the executed arguments").          *)
(*                                                                         *)
(* Written from the Shell Command Language (XCU 2.2 Quoting, 2.3 Token     *)
(* Recognition, 2.6 Word Expansions).  The machine reads one character     *)
(* (code point) per step:                                                  *)
(*   ws    between words            word  inside an unquoted word part     *)
(*   sq    inside '...'             dq    inside "..."                     *)
(*   bs    after an unquoted \      dqbs  after a \ inside "..."           *)
(* A command line is a LITERAL rendering of its words only if the shell    *)
(* would do nothing but split and remove quotes.  Characters that make the *)
(* shell do more when they are not quoted -- operators (| & ; < > ( ) and  *)
(* newline), expansions ($name ${ $( $@ ... and `), patterns (star, ?, [),      *)
(* a comment (# at the start of a word), a tilde prefix -- set `active`.   *)
(* What POSIX leaves unspecified (a $ not followed by an expansion start,  *)
(* a trailing backslash) sets `unspec`; such renderings are not judged.    *)
(*                                                                         *)
(* Status of a command line:                                               *)
(*   "unterminated" > "active" > "unspec" > "ok"                           *)
(* and with "ok" the field `words` is exactly what the command receives.   *)
(***************************************************************************)
EXTENDS Integers, Sequences, FiniteSets, SequencesExt, TLC

SP == 32   TAB == 9   NL == 10   SQ == 39   DQ == 34   BS == 92
DOLLAR == 36   BQ == 96   HASH == 35   TILDE == 126

Blank(c)    == c \in {SP, TAB}
Operator(c) == c \in {124, 38, 59, 60, 62, 40, 41, NL}            \* | & ; < > ( ) newline
Pattern(c)  == c \in {42, 63, 91}                                  \* * ? [
AlNum(c)    == (c >= 48 /\ c <= 57) \/ (c >= 65 /\ c <= 90) \/ (c >= 97 /\ c <= 122) \/ c = 95
ExpStart(c) == AlNum(c) \/ c \in {123, 40, 64, 42, 35, 63, 45, 36, 33}   \* { ( @ * # ? - $ !
DqEscapable(c) == c \in {DOLLAR, BQ, DQ, BS}

St0 == [m |-> "ws", cur |-> << >>, has |-> FALSE, words |-> << >>,
        active |-> FALSE, unspec |-> FALSE, dol |-> FALSE]

(* a pending $ is classified by the character that follows it *)
Resolve(st, c) == IF ~st.dol THEN st
                  ELSE IF ExpStart(c) THEN [st EXCEPT !.dol = FALSE, !.active = TRUE]
                  ELSE [st EXCEPT !.dol = FALSE, !.unspec = TRUE]

Put(st, c)  == [st EXCEPT !.m = IF st.m = "ws" THEN "word" ELSE st.m, !.cur = Append(@, c), !.has = TRUE]
EndWord(st) == [st EXCEPT !.m = "ws", !.cur = << >>, !.has = FALSE,
                          !.words = IF st.has THEN Append(@, st.cur) ELSE @]

Unquoted(st, c) ==     \* m \in {"ws", "word"}
  IF Blank(c) THEN EndWord(st)
  ELSE IF Operator(c) THEN [EndWord(st) EXCEPT !.active = TRUE]
  ELSE IF c = BS THEN [st EXCEPT !.m = "bs"]
  ELSE IF c = SQ THEN [st EXCEPT !.m = "sq", !.has = TRUE]
  ELSE IF c = DQ THEN [st EXCEPT !.m = "dq", !.has = TRUE]
  ELSE IF c = DOLLAR THEN [Put(st, c) EXCEPT !.dol = TRUE]
  ELSE IF c = BQ \/ Pattern(c) THEN [Put(st, c) EXCEPT !.active = TRUE]
  ELSE IF st.m = "ws" /\ c \in {HASH, TILDE} THEN [Put(st, c) EXCEPT !.active = TRUE]
  ELSE Put(st, c)

Step(s0, c) ==
  LET st == Resolve(s0, c) IN
  CASE st.m \in {"ws", "word"} -> Unquoted(st, c)
    [] st.m = "sq"   -> IF c = SQ THEN [st EXCEPT !.m = "word"] ELSE Put(st, c)
    [] st.m = "dq"   -> IF c = DQ THEN [st EXCEPT !.m = "word"]
                        ELSE IF c = BS THEN [st EXCEPT !.m = "dqbs"]
                        ELSE IF c = DOLLAR THEN [Put(st, c) EXCEPT !.dol = TRUE]
                        ELSE IF c = BQ THEN [Put(st, c) EXCEPT !.active = TRUE]
                        ELSE Put(st, c)
    [] st.m = "bs"   -> IF c = NL THEN [st EXCEPT !.m = IF st.has THEN "word" ELSE "ws"]   \* line continuation
                        ELSE [Put(st, c) EXCEPT !.m = "word"]
    [] st.m = "dqbs" -> IF c = NL THEN [st EXCEPT !.m = "dq"]
                        ELSE IF DqEscapable(c) THEN [Put(st, c) EXCEPT !.m = "dq"]
                        ELSE [Put(Put(st, BS), c) EXCEPT !.m = "dq"]

(* end of input *)
Finish(s0) ==
  LET st == IF s0.dol THEN [s0 EXCEPT !.dol = FALSE, !.unspec = TRUE] ELSE s0
      fin == IF st.m = "bs" THEN [EndWord(Put(st, BS)) EXCEPT !.unspec = TRUE] ELSE EndWord(st)
  IN [ status |-> IF st.m \in {"sq", "dq", "dqbs"} THEN "unterminated"
                  ELSE IF fin.active THEN "active"
                  ELSE IF fin.unspec THEN "unspec" ELSE "ok",
       words  |-> fin.words ]

Run(st, s) == FoldLeft(Step, st, s)          \* the machine run over a whole string
Split(s)   == Finish(Run(St0, s))

(* ---- the machine as a behaviour spec (checked by TLC in PosixWords_Gen) ---- *)
VARIABLES inp, i, st
mvars == << inp, i, st >>
MInit(Inputs) == inp \in Inputs /\ i = 1 /\ st = St0
MNext == /\ i <= Len(inp)
         /\ st' = Step(st, inp[i])
         /\ i' = i + 1
         /\ UNCHANGED inp
Done == i = Len(inp) + 1
Result == Finish(st)

(* ---- renderings ------------------------------------------------------------ *)
JoinSp(ws) == FlattenSeq([k \in 1..Len(ws) |-> IF k = 1 THEN ws[k] ELSE << SP >> \o ws[k]])

(* reference: every word in single quotes, an embedded ' written as '\'' *)
EscSq(w) == FlattenSeq([k \in 1..Len(w) |-> IF w[k] = SQ THEN << SQ, BS, SQ, SQ >> ELSE << w[k] >>])
Quote(w) == << SQ >> \o EscSq(w) \o << SQ >>
RenderQuoted(ws) == JoinSp([k \in 1..Len(ws) |-> Quote(ws[k])])

(* AS-BUILT (named deviation): arguments that are empty or contain whitespace, a quote or a  *)
(* backslash are quoted the way Python's shlex.quote does (single quotes, an embedded '     *)
(* written as '"'"'); every other argument - also one with shell metacharacters - and the   *)
(* first word are written as they are.  (Before the repair recorded as fixed under C24 only *)
(* arguments containing a space were wrapped, unescaped: RenderSpacesOnly.)                 *)
HasSpace(w) == \E k \in 1..Len(w) : w[k] = SP
EscShlex(w) == FlattenSeq([k \in 1..Len(w) |-> IF w[k] = SQ THEN << SQ, DQ, SQ, DQ, SQ >> ELSE << w[k] >>])
NeedsQuoteAsBuilt(w) == w = << >> \/ \E k \in 1..Len(w) : w[k] \in {SP, TAB, NL, 13, 11, 12, SQ, DQ, BS}
OneAsBuilt(w) == IF NeedsQuoteAsBuilt(w) THEN << SQ >> \o EscShlex(w) \o << SQ >> ELSE w
OneSpacesOnly(w) == IF HasSpace(w) THEN << SQ >> \o w \o << SQ >> ELSE w
RenderSpacesOnly(ws) ==
  JoinSp([k \in 1..Len(ws) |-> IF k = 1 THEN ws[k] ELSE OneSpacesOnly(ws[k])])
RenderAsBuilt(ws) ==
  JoinSp([k \in 1..Len(ws) |-> IF k = 1 THEN ws[k] ELSE OneAsBuilt(ws[k])])

Faithful(cl, ws) == LET r == Split(cl) IN r.status = "ok" /\ r.words = ws

(* which character class of the arguments does the spaces-only rendering fail to protect?  *)
Has(w, S) == \E k \in 1..Len(w) : w[k] \in S
MetaChars == {DOLLAR, BQ, 42, 63, 91, 124, 38, 59, 60, 62, 40, 41, HASH, TILDE}
Offending(ws) == { k \in 2..Len(ws) : ~Faithful(OneAsBuilt(ws[k]), << ws[k] >>) }
ClassOfArgs(ws) ==
  LET off == Offending(ws) IN
  IF off = {} THEN "none"
  ELSE IF \E k \in off : Has(ws[k], {SQ, DQ}) THEN "quote"
  ELSE IF \E k \in off : Has(ws[k], {BS}) THEN "backslash"
  ELSE IF \E k \in off : Has(ws[k], MetaChars) THEN "metachar"
  ELSE IF \E k \in off : Has(ws[k], {TAB, NL}) THEN "whitespace"
  ELSE IF \E k \in off : ws[k] = << >> THEN "empty-arg"
  ELSE "other"
=============================================================================
