-------------------------- MODULE PathTemplate_Val --------------------------
(* Validation of observations recorded from the real pydra code against    *)
(* PathTemplate!Failures (mode M4, batched): one initial state per line of  *)
(* the ndjson file named by the environment variable C26_OBS; each line is  *)
(* {"id": n, "c": <case as generated>, "obs": {"i1":..,"i2":..,"av":..,     *)
(* "ou":..}}.  The verdict of every line is printed.                        *)
EXTENDS PathTemplate, Json, IOUtils
VARIABLE n
Lines == ndJsonDeserialize(IOEnv.C26_OBS)
Init == n \in 1..Len(Lines)
Next == FALSE /\ UNCHANGED n
Verdict == LET ln == Lines[n] fs == Failures(ln.c, ln.obs) IN
           [id |-> ln.id, ok |-> fs = {}, failed |-> fs]
Emit == PrintT(ToJson(Verdict))
=============================================================================
