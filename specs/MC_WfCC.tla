------------------------------ MODULE MC_WfCC ------------------------------
EXTENDS WfConstructCache
V2 == {[x |-> 1, ys |-> 2, flag |-> TRUE], [x |-> 2, ys |-> 3, flag |-> FALSE]}
V3 == V2 \cup {[x |-> 1, ys |-> 2, flag |-> FALSE]}
D2 == {"W", "V"}
D1 == {"W"}
\* file-valued x: 1 and 11 are the same file (name, content) at two paths, 2 is another file
DF == {"F"}
VF == {[x |-> 1, ys |-> 2, flag |-> TRUE], [x |-> 11, ys |-> 2, flag |-> TRUE], [x |-> 2, ys |-> 2, flag |-> TRUE],
       [x |-> 11, ys |-> 2, flag |-> FALSE]}
=============================================================================
