SPECIFICATION TraceSpec
CONSTANTS
  Procs = {"p1","p2","p3","p4"}
  ROSeq <- TwoRO
  MaxSubs = 8
  RerunAllowed <- Both
  BodyOutcomes <- OkOrRaise
  CrashBudget = 4
  RaiseBudget = 4
  LeftoverRoot <- AnyDir
  LeftoverRO <- AnyDir
  FirstExistingDirDecides = TRUE
  TryStartsLate = TRUE
INVARIANT Report
INVARIANT EmptyOk
CHECK_DEADLOCK FALSE
