----------------------------- MODULE Provenance -----------------------------
(* Provenance records of job executions (C36).  Jobs may be nested (a workflow *)
(* job executes its node jobs between its own start and end record when the   *)
(* sequential worker is used).  Intended: every executed job owns one activity *)
(* id, emits one start record and one end record carrying that id, and the end *)
(* record's error flag is the job's result.  AS-BUILT switch SharedAuditId:    *)
(* one mutable `aid` per submitter, overwritten by every start.                *)
EXTENDS Naturals, Sequences, FiniteSets, TLC
CONSTANTS Jobs,          \* job names
          Parent,        \* [Jobs -> Jobs \cup {"none"}]  nesting (node -> its workflow job)
          Failing,       \* subset of Jobs whose result is errored
          SharedAuditId
VARIABLES phase,         \* [Jobs -> {"idle","started","ended"}]
          aid,           \* [Jobs -> Nat]  id owned by the job (0 = none)
          shared,        \* the submitter-wide id (as built)
          next,          \* fresh id counter
          recs           \* sequence of records [kind, id, errored, job]
vars == <<phase, aid, shared, next, recs>>
Init == /\ phase = [j \in Jobs |-> "idle"] /\ aid = [j \in Jobs |-> 0] /\ shared = 0 /\ next = 1 /\ recs = <<>>
CanStart(j) == phase[j] = "idle" /\ (IF Parent[j] = "none" THEN TRUE ELSE phase[Parent[j]] = "started")
Start(j) == /\ CanStart(j)
            /\ phase' = [phase EXCEPT ![j] = "started"]
            /\ aid' = [aid EXCEPT ![j] = next] /\ shared' = next /\ next' = next + 1
            /\ recs' = Append(recs, [kind |-> "start", id |-> next, errored |-> FALSE, job |-> j])
Children(j) == {c \in Jobs : Parent[c] = j}
Errored(j) == j \in Failing \/ \E c \in Children(j) : c \in Failing
End(j) == /\ phase[j] = "started" /\ \A c \in Children(j) : phase[c] # "started"
          /\ IF Children(j) = {} THEN TRUE
             ELSE IF \A c \in Children(j) : phase[c] = "ended" THEN TRUE
             ELSE \E c \in Children(j) : phase[c] = "ended" /\ c \in Failing
          /\ phase' = [phase EXCEPT ![j] = "ended"]
          /\ recs' = Append(recs, [kind |-> "end", id |-> IF SharedAuditId THEN shared ELSE aid[j],
                                   errored |-> Errored(j), job |-> j])
          /\ UNCHANGED <<aid, shared, next>>
Next == \E j \in Jobs : Start(j) \/ End(j)
Spec == Init /\ [][Next]_vars
RecsOf(k, i) == {n \in 1..Len(recs) : recs[n].kind = k /\ recs[n].id = i}
(* C36 *)
OneStartOneEndSameId ==
  \A j \in Jobs : phase[j] = "ended" =>
     /\ Cardinality(RecsOf("start", aid[j])) = 1
     /\ Cardinality(RecsOf("end", aid[j])) = 1
EndFlagMatchesResult ==
  \A n \in 1..Len(recs) : recs[n].kind = "end" =>
     \E j \in Jobs : aid[j] = recs[n].id /\ recs[n].errored = Errored(j)
NoOrphanEnd == \A n \in 1..Len(recs) : recs[n].kind = "end" => Cardinality(RecsOf("start", recs[n].id)) = 1
=============================================================================
