-------------------------- MODULE MC_JobProtocol --------------------------
(* Model-checking instances of JobProtocol (constants that a cfg file cannot hold). *)
EXTENDS JobProtocol
NoRO      == <<>>
OneRO     == <<"ro1">>
TwoRO     == <<"ro1", "ro2">>
OnlyAbsent   == {Absent}
AbsentOrDone == {Absent, Complete}
Leftovers    == {Absent, EmptyDir, JobOnly, PartialRes, EmptyRes}
LeftoversAndDone == {Absent, EmptyDir, JobOnly, PartialRes, Complete}
ROStates     == {Absent, Complete}
OnlyFalse == {FALSE}
Both      == {FALSE, TRUE}
OkOnly    == {"ok"}
OkOrRaise == {"ok", "raise"}
(* bounded-depth search is not needed: every variable is bounded by the constants *)
=============================================================================
