SPECIFICATION Spec
CONSTANTS
  Procs = {p1,p2,p3}
  ROSeq <- OneRO
  MaxSubs = 1
  RerunAllowed <- Both
  BodyOutcomes <- OkOrRaise
  CrashBudget = 2
  RaiseBudget = 1
  LeftoverRoot <- Leftovers
  LeftoverRO <- ROStates
  FirstExistingDirDecides = FALSE
  TryStartsLate = FALSE
INVARIANT TypeOK
INVARIANT MutualExclusion
INVARIANT SuccessMeansBodyFinished
INVARIANT ErrNeverServed
PROPERTY OkResultOnlyAfterOkBody
CHECK_DEADLOCK FALSE
