------------------------------ MODULE LockCore ------------------------------
(***************************************************************************)
(* The mutual-exclusion core of JobProtocol (Job.run: lock - check - body  *)
(* - save - release) for an ARBITRARY set of submitting processes, without *)
(* crashes: the part of C10/C11 that does not depend on the number of      *)
(* submitters.  JobProtocol.tla (TLC, 2-3 processes) adds crashes, stale   *)
(* locks, leftovers, read-only caches and reruns; this module is the       *)
(* unbounded complement: the invariants below are proved inductive with    *)
(* TLAPS for every Proc (proof at the end), and checked by Apalache for    *)
(* |Proc| = 4 as a cross-check of the proof obligations' transcription.    *)
(***************************************************************************)
EXTENDS Naturals, TLAPS
CONSTANTS
  \* @type: Set(Str);
  Proc,
  \* @type: Str;
  None
ASSUME NoneNotProc == None \notin Proc
VARIABLES
  \* @type: Str -> Str;
  pc,
  \* @type: Str;
  lock,
  \* @type: Str;
  res,
  \* @type: Int;
  ran,
  \* @type: Str -> Str;
  got
vars == <<pc, lock, res, ran, got>>

Crit == {"check", "body", "save", "rel"}
PCs  == {"start", "done"} \cup Crit

Init == /\ pc = [p \in Proc |-> "start"]
        /\ lock = None
        /\ res = "none"
        /\ ran = 0
        /\ got = [p \in Proc |-> "none"]

Acquire(p)   == /\ pc[p] = "start" /\ lock = None
                /\ lock' = p /\ pc' = [pc EXCEPT ![p] = "check"]
                /\ UNCHANGED <<res, ran, got>>
CheckHit(p)  == /\ pc[p] = "check" /\ res = "complete"
                /\ got' = [got EXCEPT ![p] = "complete"] /\ pc' = [pc EXCEPT ![p] = "rel"]
                /\ UNCHANGED <<lock, res, ran>>
CheckMiss(p) == /\ pc[p] = "check" /\ res # "complete"
                /\ res' = "none"                        \* _populate_filesystem clears the directory
                /\ pc' = [pc EXCEPT ![p] = "body"]
                /\ UNCHANGED <<lock, ran, got>>
Body(p)      == /\ pc[p] = "body"
                /\ ran' = ran + 1 /\ pc' = [pc EXCEPT ![p] = "save"]
                /\ UNCHANGED <<lock, res, got>>
SaveBegin(p) == /\ pc[p] = "save" /\ res = "none"
                /\ res' = "partial"
                /\ UNCHANGED <<pc, lock, ran, got>>
SaveEnd(p)   == /\ pc[p] = "save" /\ res = "partial"
                /\ res' = "complete" /\ got' = [got EXCEPT ![p] = "complete"]
                /\ pc' = [pc EXCEPT ![p] = "rel"]
                /\ UNCHANGED <<lock, ran>>
Release(p)   == /\ pc[p] = "rel"
                /\ lock' = None /\ pc' = [pc EXCEPT ![p] = "done"]
                /\ UNCHANGED <<res, ran, got>>

Step(p) == Acquire(p) \/ CheckHit(p) \/ CheckMiss(p) \/ Body(p) \/ SaveBegin(p) \/ SaveEnd(p) \/ Release(p)
Next == \E p \in Proc : Step(p)
Spec == Init /\ [][Next]_vars

(* ---- the properties (C10 / C11 core) ---- *)
Mutex        == \A p, q \in Proc : (pc[p] \in Crit /\ pc[q] \in Crit) => p = q
AtMostOnce   == ran <= 1
NoPartialOut == \A p \in Proc : got[p] # "none" => (got[p] = "complete" /\ res = "complete")
Safety == Mutex /\ AtMostOnce /\ NoPartialOut

(* ---- inductive invariant ---- *)
TypeOK == /\ pc \in [Proc -> PCs]
          /\ lock \in Proc \cup {None}
          /\ res \in {"none", "partial", "complete"}
          /\ ran \in Nat
          /\ got \in [Proc -> {"none", "complete"}]
LockOwner == \A p \in Proc : pc[p] \in Crit <=> lock = p
Progress ==
  /\ (\E p \in Proc : pc[p] = "body") => (ran = 0 /\ res = "none")
  /\ (\E p \in Proc : pc[p] = "save") => (ran = 1 /\ res \in {"none", "partial"})
  /\ (\E p \in Proc : pc[p] = "rel")  => (ran = 1 /\ res = "complete")
  /\ (\A p \in Proc : pc[p] \notin {"body", "save", "rel"}) =>
        ((ran = 0 /\ res = "none") \/ (ran = 1 /\ res = "complete"))
GotOK == \A p \in Proc : got[p] = "complete" => res = "complete"
IndInv == TypeOK /\ LockOwner /\ Progress /\ GotOK

(* ---- Apalache cross-check (4 processes): apalache-mc check --cinit=CInit --init=IndInv --inv=IndInv --length=1 ---- *)
CInit == Proc = {"p1", "p2", "p3", "p4"} /\ None = "none"

(* ---- proof ---- *)
LEMMA OwnerUnique == IndInv => Mutex
  BY NoneNotProc DEF IndInv, LockOwner, Mutex

THEOREM InitInd == Init => IndInv
  BY NoneNotProc DEF Init, IndInv, TypeOK, LockOwner, Progress, GotOK, Crit, PCs

THEOREM IndStep == IndInv /\ [Next]_vars => IndInv'
<1> SUFFICES ASSUME IndInv, [Next]_vars PROVE IndInv'
  OBVIOUS
<1>1. CASE UNCHANGED vars
  BY <1>1 DEF vars, IndInv, TypeOK, LockOwner, Progress, GotOK
<1>2. ASSUME NEW p \in Proc, Acquire(p) PROVE IndInv'
  BY <1>2, NoneNotProc DEF Acquire, IndInv, TypeOK, LockOwner, Progress, GotOK, Crit, PCs
<1>3. ASSUME NEW p \in Proc, CheckHit(p) PROVE IndInv'
  BY <1>3, NoneNotProc DEF CheckHit, IndInv, TypeOK, LockOwner, Progress, GotOK, Crit, PCs
<1>4. ASSUME NEW p \in Proc, CheckMiss(p) PROVE IndInv'
  BY <1>4, NoneNotProc DEF CheckMiss, IndInv, TypeOK, LockOwner, Progress, GotOK, Crit, PCs
<1>5. ASSUME NEW p \in Proc, Body(p) PROVE IndInv'
  BY <1>5, NoneNotProc DEF Body, IndInv, TypeOK, LockOwner, Progress, GotOK, Crit, PCs
<1>6. ASSUME NEW p \in Proc, SaveBegin(p) PROVE IndInv'
  BY <1>6, NoneNotProc DEF SaveBegin, IndInv, TypeOK, LockOwner, Progress, GotOK, Crit, PCs
<1>7. ASSUME NEW p \in Proc, SaveEnd(p) PROVE IndInv'
  BY <1>7, NoneNotProc DEF SaveEnd, IndInv, TypeOK, LockOwner, Progress, GotOK, Crit, PCs
<1>8. ASSUME NEW p \in Proc, Release(p) PROVE IndInv'
  BY <1>8, NoneNotProc DEF Release, IndInv, TypeOK, LockOwner, Progress, GotOK, Crit, PCs
<1> QED
  BY <1>1, <1>2, <1>3, <1>4, <1>5, <1>6, <1>7, <1>8 DEF Next, Step

THEOREM IndImpliesSafety == IndInv => Safety
  BY OwnerUnique, NoneNotProc DEF IndInv, TypeOK, LockOwner, Progress, GotOK, Safety, AtMostOnce, NoPartialOut, Crit

THEOREM Correct == Spec => []Safety
<1>1. Spec => []IndInv
  BY InitInd, IndStep, PTL DEF Spec
<1> QED
  BY <1>1, IndImpliesSafety, PTL
=============================================================================
