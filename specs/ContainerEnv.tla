--------------------------- MODULE ContainerEnv ---------------------------
(***************************************************************************)
(* Reference semantics of running a shell task inside a container          *)
(* environment (Docker / Singularity), property C27.  Written from the     *)
(* property statement, docs/source/explanation/environments.rst, the       *)
(* class documentation of pydra.environments.base.Container (image, tag,   *)
(* root, xargs) and the command line interfaces of the two runtimes        *)
(* (`docker run -v H:T:mode -w DIR IMAGE ARGV`, `singularity exec          *)
(* -B H:T:mode --pwd DIR IMAGE ARGV`).  Nothing here resembles the         *)
(* implementation (no binding dictionaries, no string splitting).          *)
(*                                                                         *)
(* TEXTS.  A text is a non-empty sequence of blank-free TLA+ strings, the  *)
(* words; it denotes the words joined by single blanks.  Render(t) is the  *)
(* ONE command-line token the text stands for.                             *)
(* PATHS.  A path is a sequence of components (each a text); the absolute  *)
(* path it denotes is "/" c1 "/" c2 ...  "<root>p" of the statement is the *)
(* concatenation of the component sequences.                               *)
(* The host layout is symbolic: everything lives under the directory       *)
(* <<"T">> (the harness substitutes a real temporary directory), the       *)
(* cache root is T/cache and the job's cache directory is T/cache/JOB      *)
(* (the harness substitutes the real directory name).                      *)
(***************************************************************************)
EXTENDS Naturals, Sequences, FiniteSets, SequencesExt, Functions, TLC

(* ------------------------------ texts ---------------------------------- *)
W(s) == <<s>>
Glue(a, b) == IF a = <<>> THEN b
              ELSE IF b = <<>> THEN a
              ELSE Front(a) \o <<Last(a) \o Head(b)>> \o Tail(b)
RECURSIVE GlueAll(_)
GlueAll(ts) == IF ts = <<>> THEN <<>> ELSE Glue(Head(ts), GlueAll(Tail(ts)))
RECURSIVE Render(_)
Render(t) == IF Len(t) = 1 THEN t[1] ELSE t[1] \o " " \o Render(Tail(t))
HasBlank(t) == Len(t) > 1

(* ------------------------------ paths ---------------------------------- *)
PathText(p)    == GlueAll([i \in 1..Len(p) |-> Glue(W("/"), p[i])])
Parent(p)      == Front(p)
Under(root, p) == root \o p                       \* "<root>p"

Base      == << W("T") >>
CacheRoot == Base \o << W("cache") >>
JobDir    == CacheRoot \o << W("JOB") >>
HostFile(file) == Base \o file.dir \o << W(file.name) >>

(* ------------------------------ fields --------------------------------- *)
(* f = [name, kind, flag, rep, copy, files, word, pos]                     *)
(*   kind "file": one input file          kind "list": list of input files *)
(*   kind "out" : output file created in the job directory (word = name)   *)
(*   kind "str" : a plain word                                             *)
(*   flag: "" (bare value) or an option such as "-f"; rep: the flag is     *)
(*   repeated per list element (argstr "-l...")                            *)
(*   copy "any": used where it is; "copy"/"link": the job works on a copy  *)
(*   (resp. a link) placed in its own cache directory before the command   *)
(*   runs - the NATIVE argument vector then names that staged path.        *)
Staged(f) == f.copy \in {"copy", "link"}
NativePaths(f) ==
  IF f.kind = "out" THEN << JobDir \o << W(f.word) >> >>
  ELSE IF f.kind \in {"file", "list"}
       THEN [i \in 1..Len(f.files) |->
               IF Staged(f) THEN JobDir \o << W(f.files[i].name) >> ELSE HostFile(f.files[i])]
       ELSE <<>>

(* argument texts contributed by one field; M maps host paths *)
FieldArgs(f, M(_)) ==
  LET ps == NativePaths(f)
      pt == [i \in 1..Len(ps) |-> PathText(M(ps[i]))]
      fl == IF f.flag = "" THEN <<>> ELSE << W(f.flag) >>
  IN  IF f.kind = "str" THEN fl \o << W(f.word) >>
      ELSE IF f.kind = "list" /\ f.rep THEN FlattenSeq([i \in 1..Len(pt) |-> fl \o << pt[i] >>])
      ELSE fl \o pt

ByPosition(fields) == SortSeq(fields, LAMBDA a, b : a.pos < b.pos)

ArgvTexts(c, M(_)) ==
  LET fs == ByPosition(c.fields)
  IN  << W(c.exe) >> \o FlattenSeq([i \in 1..Len(fs) |-> FieldArgs(fs[i], M)])

NativeArgv(c)    == ArgvTexts(c, LAMBDA p : p)
ContainerArgv(c) == ArgvTexts(c, LAMBDA p : Under(c.root, p))

(* ------------------------------ mounts --------------------------------- *)
(* every path handed to the command demands its parent directory, with a   *)
(* mode: read-write for copied inputs and outputs, read-only otherwise     *)
ModeFor(f) == IF f.kind = "out" \/ f.copy = "copy" THEN "rw" ELSE "ro"
Demands(c) ==
  UNION { { << Parent(NativePaths(c.fields[k])[i]), ModeFor(c.fields[k]) >>
            : i \in 1..Len(NativePaths(c.fields[k])) } : k \in 1..Len(c.fields) }
DemandedDirs(c) == { d[1] : d \in Demands(c) }
(* the statement gives one mode per path; when paths of both kinds share a *)
(* directory the single mount must be read-write (copied inputs and outputs *)
(* must be writable there; a read-only mount would contradict their mode)   *)
Mounts(c) ==
  LET dm      == Demands(c)
      mode(d) == LET ms == { x[2] : x \in { y \in dm : y[1] = d } }
                 IN  IF Cardinality(ms) = 1 THEN CHOOSE m \in ms : TRUE ELSE "rw"
  IN  { [h |-> d, m |-> mode(d)] : d \in { x[1] : x \in dm } }
      \cup { [h |-> CacheRoot, m |-> "rw"] }
OpenDirs(c) == { mt.h : mt \in { x \in Mounts(c) : x.m = "*" } }

BindText(c, mt) == GlueAll(<< PathText(mt.h), W(":"), PathText(Under(c.root, mt.h)),
                              W(":"), W(mt.m) >>)
WorkDir(c)      == PathText(Under(c.root, JobDir))

(* ------------------------------ runtimes ------------------------------- *)
RuntimeWords(rt) == IF rt = "docker" THEN << "docker", "run" >> ELSE << "singularity", "exec" >>
BindFlags(rt)    == IF rt = "docker" THEN { "-v", "--volume" }  ELSE { "-B", "--bind" }
WorkDirFlags(rt) == IF rt = "docker" THEN { "-w", "--workdir" } ELSE { "--pwd" }
(* The statement does not say how image name and tag are written for the  *)
(* runtime; the image argument is only required to name the image (the    *)
(* harness accepts NAME or NAME:TAG and records which one it saw).         *)

(* ---------------------------- invocations ------------------------------ *)
(* Tok turns a text into command-line tokens.  The intended design makes   *)
(* one token per text.  Options are compared as groups (canonical flag "B" *)
(* for a bind, "W" for the working directory, followed by the tokens of    *)
(* the option value), binds as a set: the statement fixes no order.        *)
OneToken(t) == << Render(t) >>
Prefix(c, Tok(_)) ==
  LET mts == Mounts(c) IN
  [ rt    |-> RuntimeWords(c.rt),
    xargs |-> c.xargs,
    binds |-> { << "B" >> \o Tok(BindText(c, mt)) : mt \in mts },
    wd    |-> << << "W", Render(WorkDir(c)) >> >>,
    image |-> c.image ]
Tokens(texts, Tok(_)) == FlattenSeq([i \in 1..Len(texts) |-> Tok(texts[i])])

IdealPrefix(c)        == Prefix(c, OneToken)
IdealContainerArgv(c) == Tokens(ContainerArgv(c), OneToken)
IdealNativeArgv(c)    == Tokens(NativeArgv(c), OneToken)

(* ------------------------- named as-built references ------------------- *)
(* BlankSplit: option values and arguments are re-split at blanks (the     *)
(* working-directory option is not).  Models `" ".join(binds).split()` in  *)
(* Docker/Singularity.execute and, for arguments, the re-tokenisation of   *)
(* rendered arguments that the NATIVE argument vector suffers as well      *)
(* (subject of C23; for C27 only the agreement with the native vector is   *)
(* judged).                                                                *)
SplitAtBlanks(t) == t
BlankSplitPrefix(c)        == Prefix(c, SplitAtBlanks)
BlankSplitContainerArgv(c) == Tokens(ContainerArgv(c), SplitAtBlanks)
BlankSplitNativeArgv(c)    == Tokens(NativeArgv(c), SplitAtBlanks)
BlankInBinds(c) == LET mts == Mounts(c) IN \E mt \in mts : HasBlank(BindText(c, mt))
BlankInArgv(c)  == LET nat == NativeArgv(c) IN \E i \in 1..Len(nat) : HasBlank(nat[i])

(* ListCrash: any non-empty list-of-files input makes the environment fail *)
(* before the runtime is invoked.                                          *)
HasList(c)   == \E k \in 1..Len(c.fields) : c.fields[k].kind = "list"
ListCrashErr == "AttributeError: 'list' object has no attribute 'parent'"

(* ------------------------------ theorems ------------------------------- *)
PathTextsOf(c) == UNION { { PathText(NativePaths(c.fields[k])[i])
                            : i \in 1..Len(NativePaths(c.fields[k])) } : k \in 1..Len(c.fields) }
SpecTheorems(c) ==
  LET nat == NativeArgv(c)
      con == ContainerArgv(c)
      pts == PathTextsOf(c)
      mts == Mounts(c)
      rtx == PathText(c.root)
      nps == [k \in 1..Len(c.fields) |-> NativePaths(c.fields[k])]
  IN
  /\ Len(nat) = Len(con)
  \* the container vector is the native one with <root> put in front of exactly the paths
  /\ \A i \in 1..Len(nat) :
        IF nat[i] \in pts THEN con[i] = Glue(rtx, nat[i]) ELSE con[i] = nat[i]
  \* every path handed to the command lies in a mounted directory; one mount per directory
  /\ \A k \in 1..Len(nps) : \A i \in 1..Len(nps[k]) : \E mt \in mts : mt.h = Parent(nps[k][i])
  /\ \A a, b \in mts : a.h = b.h => a = b
  /\ [h |-> CacheRoot, m |-> "rw"] \in mts
  /\ IsPrefix(CacheRoot, JobDir) /\ CacheRoot \notin DemandedDirs(c)
  \* staged inputs and outputs are in the job directory
  /\ \A k \in 1..Len(nps) :
        (c.fields[k].kind = "out" \/ (c.fields[k].kind \in {"file", "list"} /\ Staged(c.fields[k])))
        => \A i \in 1..Len(nps[k]) : Parent(nps[k][i]) = JobDir
  \* the as-built references differ from the design exactly where a blank occurs
  /\ LET bb == \E mt \in mts : HasBlank(BindText(c, mt))
         ba == \E i \in 1..Len(nat) : HasBlank(nat[i])
     IN  /\ (BlankSplitPrefix(c) = IdealPrefix(c)) <=> ~bb
         /\ (Tokens(con, SplitAtBlanks) = Tokens(con, OneToken)) <=> ~ba
         /\ (Tokens(nat, SplitAtBlanks) = Tokens(nat, OneToken)) <=> ~ba
=============================================================================
