----------------------------- MODULE RerunProp -----------------------------
(* Rerun propagation into workflows (C11): a workflow job and its node jobs *)
(* are separate cache identities; a rerun of the workflow re-executes the   *)
(* workflow job, and its nodes only when propagate_rerun is on.             *)
(* History generator: every sequence of <= MaxLen submissions with flags    *)
(* (rerun, propagate); emits, per submission, whether the workflow body and *)
(* the node bodies must execute.                                            *)
EXTENDS Naturals, Sequences, TLC, Json
CONSTANT MaxLen
VARIABLES wfCached, nodesCached, h
vars == <<wfCached, nodesCached, h>>
Init == wfCached = FALSE /\ nodesCached = FALSE /\ h = <<>>
Submit(rerun, prop) ==
  /\ Len(h) < MaxLen
  /\ LET wfExec   == rerun \/ ~wfCached
         nodeExec == wfExec /\ (~nodesCached \/ (rerun /\ prop))
     IN /\ h' = Append(h, [rerun |-> rerun, prop |-> prop, wf |-> wfExec, nodes |-> nodeExec])
        /\ wfCached' = TRUE
        /\ nodesCached' = (nodesCached \/ nodeExec)
Next == \E r, p \in BOOLEAN : Submit(r, p)
Spec == Init /\ [][Next]_vars
Emit == (Len(h) = MaxLen) => PrintT(ToJson(h))
(* at most once unless rerun: without any rerun only the first submission executes *)
AtMostOnce == \A i \in 2..Len(h) : (~h[i].rerun) => (~h[i].wf /\ ~h[i].nodes)
RerunPropagates == \A i \in 1..Len(h) : (h[i].rerun /\ h[i].prop) => (h[i].wf /\ h[i].nodes)
NoPropagationNoNodeRerun == \A i \in 2..Len(h) : (h[i].rerun /\ ~h[i].prop) => (h[i].wf /\ ~h[i].nodes)
=============================================================================
