\* as-built switch C28-slurm-user-error-option must violate Inv
SPECIFICATION Spec
CONSTANTS
  Kinds = {"slurm"}
  Modes = {"asbuilt"}
  MaxPolls = 1
  ExhLen = 1
  SampleMod = 1
  Seed = 0
  OptPlan = "few"
INVARIANT Inv
CHECK_DEADLOCK FALSE
