\* as-built switch C28-slurm-user-error-option must violate Inv
SPECIFICATION Spec
CONSTANTS
  Kinds = {"slurm"}
  Modes = {"asbuilt"}
  MaxPolls = 2
  ExhLen = 2
  SampleMod = 1
  Seed = 0
  OptPlan = "all"
INVARIANT Inv
CHECK_DEADLOCK FALSE
