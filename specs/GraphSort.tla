----------------------------- MODULE GraphSort -----------------------------
(* DiGraph.sorting (pydra/engine/graph.py) as a state machine: rounds that   *)
(* move every node without remaining predecessors to the sorted list.        *)
(* C18: for EVERY edge set - cyclic ones included, which the engine allows   *)
(* to be built through node input assignment - the procedure terminates,     *)
(* with a valid topological order iff the graph is acyclic, with an error    *)
(* otherwise.  AS-BUILT switch NoProgressCheck: a round that places no node  *)
(* is repeated for ever.                                                     *)
EXTENDS Naturals, Sequences, FiniteSets, TLC, Json
CONSTANTS Nodes, NoProgressCheck
VARIABLES edges, notsorted, sorted, status
vars == <<edges, notsorted, sorted, status>>
NodeSeq == CHOOSE s \in [1..Cardinality(Nodes) -> Nodes] : \A i, j \in DOMAIN s : i # j => s[i] # s[j]
Init == /\ edges \in SUBSET {e \in Nodes \X Nodes : e[1] # e[2]}
        /\ notsorted = NodeSeq /\ sorted = <<>> /\ status = "sorting"
Placed == {sorted[i] : i \in 1..Len(sorted)}
Ready(n) == \A e \in edges : e[2] = n => e[1] \in Placed
Round ==
  /\ status = "sorting"
  /\ IF notsorted = <<>> THEN status' = "sorted" /\ UNCHANGED <<edges, notsorted, sorted>>
     ELSE LET part == SelectSeq(notsorted, Ready) IN
          IF part = <<>>
          THEN IF NoProgressCheck THEN UNCHANGED vars
               ELSE status' = "error" /\ UNCHANGED <<edges, notsorted, sorted>>
          ELSE /\ sorted' = sorted \o part
               /\ notsorted' = SelectSeq(notsorted, LAMBDA n : ~Ready(n))
               /\ UNCHANGED <<edges, status>>
Spec == Init /\ [][Round]_vars /\ WF_vars(Round)
RECURSIVE Reach(_, _)
Reach(S, k) == IF k = 0 THEN S ELSE Reach(S \cup {e[2] : e \in {x \in edges : x[1] \in S}}, k - 1)
Cyclic == \E n \in Nodes : n \in Reach({e[2] : e \in {x \in edges : x[1] = n}}, Cardinality(Nodes))
Terminates == <>(status # "sorting")
SortedIsTopological ==
  status = "sorted" => /\ Len(sorted) = Cardinality(Nodes) /\ Placed = Nodes
                       /\ \A e \in edges : \E i, j \in 1..Len(sorted) : sorted[i] = e[1] /\ sorted[j] = e[2] /\ i < j
ErrorIffCyclic == (status = "error" => Cyclic) /\ (status = "sorted" => ~Cyclic)
(* case generation: one line per edge set with the expected verdict *)
EdgeSeq == LET RECURSIVE F(_) F(T) == IF T = {} THEN <<>> ELSE LET x == CHOOSE y \in T : TRUE IN <<x>> \o F(T \ {x}) IN F(edges)
Emit == (status # "sorting") => PrintT(ToJson([nodes |-> NodeSeq, edges |-> EdgeSeq, status |-> status, order |-> sorted]))
=============================================================================
