---------------------------- MODULE DefRoundTrip ----------------------------
(***************************************************************************)
(* Property C32: task definitions survive dictionary round trips.          *)
(*                                                                         *)
(* Written from the statement and from the tutorial "Canonical form /      *)
(* Converting to/from dictionaries" and the doc strings of                 *)
(* `pydra.utils.unstructure` / `structure`: a task class has a nested      *)
(* dictionary form  {type, name, executor, inputs: {field: {attribute:     *)
(* value}}, outputs, xor}  in which attributes that have their default     *)
(* value are left out; `structure` re-creates the class from it.           *)
(*                                                                         *)
(* A (general) definition d is                                             *)
(*   flavour : "python" | "shell"                                          *)
(*   fields  : sequence of field definitions                               *)
(*   xor     : set of groups [members, none]          (as in Rules)        *)
(* a field definition is a record                                          *)
(*   name, type, default, help          labels / strings                   *)
(*   allowed : set of value labels      (allowed values; {} = any)         *)
(*   req     : set of requirement sets  (as in Rules)                      *)
(*   argstr, position, sep              shell only; position 0 = not given *)
(*   menu    : the value labels the generator assigns (not metadata)       *)
(* Value labels: "-" not passed, "F"/"T" booleans, "v" "w" "x" strings,     *)
(* "1" "2" "3" integers, "12" the list [1, 2].                              *)
(***************************************************************************)
EXTENDS Rules

(* ----- the projection the statement says must be preserved ----- *)
BaseAttrs  == {"type", "default", "help", "allowed", "req"}
ShellAttrs == {"argstr", "position", "sep"}
ProjAttrs(flavour) == IF flavour = "shell" THEN BaseAttrs \cup ShellAttrs ELSE BaseAttrs

FieldNames(d) == { d.fields[i].name : i \in DOMAIN d.fields }
FieldOf(d, f) == CHOOSE fd \in Range(d.fields) : fd.name = f

(* Field ORDER is part of a definition: a python task binds a returned tuple to its      *)
(* outputs by position, and unpositioned shell fields appear in definition order.  The   *)
(* generated python definitions declare two outputs, deliberately not in alphabetical    *)
(* order (PyOuts); shell definitions declare none.                                        *)
Order(d)  == [i \in DOMAIN d.fields |-> d.fields[i].name]
PyOuts    == <<"zed", "alpha">>
OutsOf(d) == IF d.flavour = "python" THEN PyOuts ELSE <<>>

Projection(d) ==
  [ flavour |-> d.flavour,
    fields  |-> [f \in FieldNames(d) |-> [a \in ProjAttrs(d.flavour) |-> FieldOf(d, f)[a]]],
    order   |-> Order(d),
    outs    |-> OutsOf(d),
    xor     |-> d.xor ]

(* ----- dictionary form: attributes at their default are omitted ----- *)
AttrDefault == [ type |-> "any", default |-> "nodefault", help |-> "", allowed |-> {}, req |-> {},
                 argstr |-> "", position |-> 0, sep |-> " " ]

FieldDict(fd, flavour) ==
  LET keep == { a \in ProjAttrs(flavour) : fd[a] # AttrDefault[a] } IN [a \in keep |-> fd[a]]

(* inputs / outputs are ORDERED mappings: keys in declaration order (order, outs) *)
ToDict(d) == [ type   |-> d.flavour,
               inputs |-> [f \in FieldNames(d) |-> FieldDict(FieldOf(d, f), d.flavour)],
               order  |-> Order(d),
               outs   |-> OutsOf(d),
               xor    |-> d.xor ]

FieldFromDict(fdict, flavour) ==
  [a \in ProjAttrs(flavour) |-> IF a \in DOMAIN fdict THEN fdict[a] ELSE AttrDefault[a]]

(* the re-created class, as a projection: fields are created in the mapping's key order *)
FromDict(dict) ==
  [ flavour |-> dict.type,
    fields  |-> [f \in DOMAIN dict.inputs |-> FieldFromDict(dict.inputs[f], dict.type)],
    order   |-> dict.order,
    outs    |-> dict.outs,
    xor     |-> dict.xor ]

RoundTrip(d) == FromDict(ToDict(d))
(* C32 at spec level (checked by TLC on every enumerated definition) *)
RoundTripPreserves(d) == RoundTrip(d) = Projection(d)

(* ----- AS-BUILT reference (known finding C32-requires-roundtrip) ---------------------- *)
(* The dictionary form as built writes every requirement set as a mapping                 *)
(*   {requirements: [{name, allowed_values}, ..]}                                          *)
(* and the reader takes each alternative of `requires` for a collection of requirement    *)
(* NAMES; a mapping is a collection of its keys, so every alternative reads back as the   *)
(* single requirement "requirements".  The re-created definition therefore refers to a    *)
(* field called "requirements"; unless the task has one, re-creation fails with           *)
(* "unrecognised field names ... ['requirements']".                                       *)
ReqAsBuilt(rss) == { {Req("requirements")} : rs \in rss }
RoundTripAsBuilt(d) ==
  LET ideal  == RoundTrip(d)
      fields == [f \in FieldNames(d) |-> [ideal.fields[f] EXCEPT !.req = ReqAsBuilt(@)]]
      unknown == { r.name : r \in UNION UNION { fields[f].req : f \in FieldNames(d) } } \ FieldNames(d)
  IN IF unknown # {} THEN [error |-> "unrecognised-field-names", names |-> unknown]
     ELSE [ideal EXCEPT !.fields = fields]
HasRequires(d) == \E i \in DOMAIN d.fields : d.fields[i].req # {}

(* ----- behaviour for given input values: rule verdict and command line ----- *)
(* a value that is not passed takes the field's default *)
Effective(fd, v) ==
  IF v # "-" THEN v
  ELSE CASE fd.default = "False" -> "F"
         [] fd.default = "3"     -> "3"
         [] OTHER                -> "-"          \* None, or no default at all

EffAsg(d, a) == [f \in FieldNames(d) |-> Effective(FieldOf(d, f), a[f])]

(* "allowed_values: List of allowed values for the field" *)
ValuesAllowed(d, a) ==
  \A f \in FieldNames(d) :
     LET fd == FieldOf(d, f) IN (fd.allowed # {} /\ a[f] \notin {"-", "F"}) => a[f] \in fd.allowed

RulesView(d) ==
  [ fields |-> [i \in DOMAIN d.fields |-> d.fields[i].name],
    kind   |-> [f \in FieldNames(d) |-> IF FieldOf(d, f).default = "nodefault" THEN "m" ELSE "o"],
    req    |-> [f \in FieldNames(d) |-> FieldOf(d, f).req],
    xor    |-> d.xor ]

(* "value" = a value outside the allowed values, else the broken rule clauses of Rules *)
Verdict(d, a) ==
  LET e == EffAsg(d, a) IN
  IF ~ValuesAllowed(d, e) THEN {"value"} ELSE Broken(RulesView(d), e)

(* command line of a shell definition (documented field semantics, restricted to the    *)
(* value shapes of the generator: flags, scalars, integer lists):                        *)
(*   None / not set and False flags contribute nothing, a True flag contributes its      *)
(*   argstr, other values contribute `argstr value` (just the value when argstr is ""),  *)
(*   list elements are joined with sep; fields appear by position: non-negative          *)
(*   ascending, then negative ascending; when no field has a position, in definition     *)
(*   order.  (Mixed explicit/implicit positions are not generated: C22 owns that.)       *)
Elems(v) == IF v = "12" THEN <<"1", "2">> ELSE <<v>>
RECURSIVE Join(_, _)
Join(s, sep) == IF Len(s) = 1 THEN s[1] ELSE s[1] \o sep \o Join(Tail(s), sep)

Contribution(fd, v) ==
  IF v \in {"-", "F"} THEN <<>>
  ELSE IF v = "T" THEN <<fd.argstr>>
  ELSE LET text == Join(Elems(v), fd.sep) IN
       IF fd.argstr = "" THEN <<text>> ELSE <<fd.argstr, text>>

(* rank used for ordering: positive positions first (ascending), then negative ones *)
Before(d, i, j) ==
  LET pi == d.fields[i].position  pj == d.fields[j].position IN
  IF pi = 0 /\ pj = 0 THEN i < j
  ELSE IF (pi > 0) # (pj > 0) THEN pi > 0
  ELSE pi < pj

RECURSIVE Ordered(_, _)          \* indices of d.fields in command-line order
Ordered(d, S) ==
  IF S = {} THEN <<>>
  ELSE LET first == CHOOSE i \in S : \A j \in S \ {i} : Before(d, i, j)
       IN <<first>> \o Ordered(d, S \ {first})

RECURSIVE Flat(_)
Flat(ss) == IF ss = <<>> THEN <<>> ELSE ss[1] \o Flat(Tail(ss))

Args(d, a) ==
  LET e   == EffAsg(d, a)
      ord == Ordered(d, DOMAIN d.fields)
  IN Flat([k \in 1..Len(ord) |-> Contribution(d.fields[ord[k]], e[d.fields[ord[k]].name])])

PositionsUniform(d) ==      \* every field positioned (distinctly) or none
  \/ \A i \in DOMAIN d.fields : d.fields[i].position = 0
  \/ /\ \A i \in DOMAIN d.fields : d.fields[i].position # 0
     /\ \A i, j \in DOMAIN d.fields : i # j => d.fields[i].position # d.fields[j].position
=============================================================================
