------------------------- MODULE SplitAlgebra_Req -------------------------
(* Case generator for C05(ii): valid split/combine requests and every       *)
(* single-point perturbation of them; expected verdict = WellFormed(req).   *)
EXTENDS SplitAlgebra, Json
CONSTANTS Fields,       \* fields used in splitter trees
          Extra         \* further task fields that are never split ("d")
Known == Fields \cup Extra
Unknown == "zz"

VARIABLES req, kind
vars == <<req, kind>>

BaseTrees == UNION { UNION { Trees(p) : p \in Perms(S) } : S \in (SUBSET Fields) \ {{}} }

RECURSIVE Rename(_, _, _)   \* rename the leaf at DFS position n (1-based) to g
Rename(t, n, g) ==
  IF t.op = "f" THEN (IF n = 1 THEN Leaf(g) ELSE t)
  ELSE LET sizes == [k \in 1..Len(t.kids) |-> Len(FieldsOf(t.kids[k]))]
           before(k) == FoldFunction(LAMBDA a, b : a + b, 0, [j \in 1..(k-1) |-> sizes[j]])
       IN Node(t.op, [k \in 1..Len(t.kids) |->
             IF n > before(k) /\ n <= before(k) + sizes[k]
             THEN Rename(t.kids[k], n - before(k), g) ELSE t.kids[k]])

R(t, given, comb, split) == [tree |-> t, given |-> given, comb |-> comb, known |-> Known, split |-> split]
F(t) == Range(FieldsOf(t))

Cases ==
  { <<"valid", R(t, F(t), c, TRUE)>> : t \in BaseTrees, c \in {{}} }
  \cup UNION { { <<"valid-comb", R(t, F(t), c, TRUE)>> : c \in (SUBSET F(t)) \ {{}} } : t \in BaseTrees }
  \cup UNION { UNION { { <<"dup", R(Rename(t, n, g), F(Rename(t, n, g)), {}, TRUE)>> : g \in F(t) \ {FieldsOf(t)[n]} }
                       : n \in 1..Len(FieldsOf(t)) } : t \in BaseTrees }
  \cup UNION { { <<"missing", R(t, F(t) \ {f}, {}, TRUE)>> : f \in F(t) } : t \in BaseTrees }
  \cup UNION { { <<"extra", R(t, F(t) \cup {g}, {}, TRUE)>> : g \in Known \ F(t) } : t \in BaseTrees }
  \cup UNION { { <<"comb-notsplit", R(t, F(t), {g}, TRUE)>> : g \in Known \ F(t) } : t \in BaseTrees }
  \cup UNION { { <<"comb-notsplit2", R(t, F(t), {g, f}, TRUE)>> : g \in Known \ F(t), f \in F(t) } : t \in BaseTrees }
  \cup { <<"comb-unknown", R(t, F(t), {Unknown}, TRUE)>> : t \in BaseTrees }
  \cup { <<"comb-nosplit", R(Leaf(f), {}, {f}, FALSE)>> : f \in Fields }

Init == \E c \in Cases : kind = c[1] /\ req = c[2]
Next == FALSE /\ UNCHANGED vars

Case == [ kind |-> kind, t |-> req.tree, given |-> SetToSeq(req.given), c |-> SetToSeq(req.comb),
          split |-> req.split, wf |-> WellFormed(req),
          ws |-> WellShaped(req.tree, [f \in F(req.tree) |-> 2]) ]
Emit == PrintT(ToJson(Case))
(* every perturbation is ill-formed, every base request well-formed *)
Theorems == WellFormed(req) <=> kind \in {"valid", "valid-comb"}
=============================================================================
