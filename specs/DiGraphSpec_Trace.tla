-------------------------- MODULE DiGraphSpec_Trace --------------------------
(* Trace validation (mode M4) for C37, batched and in monitor style: each   *)
(* line of TRACE_FILE is one real run of pydra.engine.graph.DiGraph:        *)
(*   {"tid": .., "ev": [{"a": kind, "x": args, "seen": bool, "sorted": [..],*)
(*                       "out": outcome, "pre": lists before the call}]}     *)
(* For every event the UNMODIFIED action of DiGraphSpec must be enabled,    *)
(* and the sorted list the real graph showed after it must be a valid order *)
(* of the spec's successor state (IsValidOrder).  One verdict per trace.    *)
(*                                                                          *)
(* Named as-built reference C37-remove-successors (RmsAsBuilt): a model of  *)
(* what remove_successors_nodes does with the LISTS the real graph held     *)
(* before the call (recorded in `pre`).  It predicts exactly when the call  *)
(* spins forever ("diverges") or raises ("raises") instead of completing.   *)
(* It is used only to classify a run that already deviates from the spec.   *)
EXTENDS DiGraphSpec, Json, IOUtils

AllTraces == ndJsonDeserialize(IOEnv.TRACE_FILE)

VARIABLES tid, l, verdict
tvars == <<nodes, edges, wip, sorted, tid, l, verdict>>

Ev == AllTraces[tid].ev

(* ------------------------------------------------------------------ as-built model *)
SRange(s) == { s[i] : i \in DOMAIN s }
Without(s, x) == SelectSeq(s, LAMBDA y : y # x)

(* successors are visited depth first, in list order, repeats included *)
RECURSIVE Dfs(_, _)
Dfs(succ, n) == LET ch == succ[n] IN
  IF ch = <<>> THEN <<>>
  ELSE LET parts == [i \in 1..Len(ch) |-> <<ch[i]>> \o Dfs(succ, ch[i])]
           RECURSIVE Cat(_)
           Cat(k) == IF k > Len(parts) THEN <<>> ELSE parts[k] \o Cat(k + 1)
       IN Cat(1)

(* the layer-by-layer re-sort starting from a pre-sorted list; 0 marks "no node *)
(* of the rest is free of predecessors": the loop can make no progress          *)
RECURSIVE Layers(_, _, _)
Layers(S, rest, P) ==
  IF rest = <<>> THEN <<>>
  ELSE LET part == SelectSeq(rest, LAMBDA x : P[x] = {})
           more == SelectSeq(rest, LAMBDA x : P[x] # {})
       IN IF part = <<>> THEN <<0>>
          ELSE part \o Layers(S, more,
                 [x \in Node |-> P[x] \ { s \in SRange(part) : x \in SRange(S.succ[s]) }])

ResortAB(S, presorted) ==
  IF \E w \in S.wip : \E x \in SRange(S.succ[w]) : x \in S.popped
    THEN <<0, 0>>       \* predecessors[x] is gone: KeyError
    ELSE Layers(S, presorted,
                [x \in Node |-> S.pred[x] \ { w \in S.wip : x \in SRange(S.succ[w]) }])

RECURSIVE RmsLoop(_, _, _)
RmsLoop(S, order, k) ==
  IF k > Len(order) \/ S.out # "run" THEN S
  ELSE LET nd == order[k] IN
    IF nd \notin S.ns THEN RmsLoop(S, order, k + 1)
    ELSE LET S1  == [S EXCEPT !.ns = S.ns \ {nd}, !.wip = S.wip \cup {nd}]        \* remove_nodes
             res == IF S.srt # <<>> /\ S.srt[1] = nd THEN Tail(S.srt)
                    ELSE ResortAB(S1, Without(S.srt, nd))
         IN IF res = <<0, 0>> THEN [S1 EXCEPT !.out = "raises"]
            ELSE IF 0 \in SRange(res) THEN [S1 EXCEPT !.out = "diverges"]
            ELSE RmsLoop(                                                          \* remove_previous_connections
                   [S1 EXCEPT !.srt = res,
                              !.succ = [x \in Node |-> IF x \in S.pred[nd] /\ x \notin S.popped
                                                       THEN Without(S.succ[x], nd) ELSE S.succ[x]],
                              !.popped = S.popped \cup {nd},
                              !.wip = S.wip],
                   order, k + 1)

RmsAsBuilt(pre, n) ==
  LET succ0 == [x \in Node |-> pre.succ[x]]
      pred0 == [x \in Node |-> SRange(pre.pred[x])]
      S0 == [ns |-> SRange(pre.nodes), srt |-> pre.sorted,
             pred |-> [x \in Node |-> IF x \in SRange(succ0[n]) THEN pred0[x] \ {n} ELSE pred0[x]],
             succ |-> succ0, popped |-> {n}, wip |-> SRange(pre.wip) \ {n}, out |-> "run"]   \* remove_nodes_connections
      fin == RmsLoop(S0, Dfs(succ0, n), 1)
  IN IF fin.out = "run" THEN "completes" ELSE fin.out

(* ------------------------------------------------------------------ monitor *)
StepOf(e) == CASE e.a = "addn" -> AddNodes(e.x)
               [] e.a = "adde" -> AddEdges(e.x)
               [] e.a = "rmn"  -> RemoveNodes(e.x)
               [] e.a = "rmc"  -> RemoveConnections(e.x)
               [] e.a = "rms"  -> RemoveSuccessors(e.x[1])
               [] e.a = "sort" -> Sort
               [] e.a = "copy" -> Copy
               [] OTHER        -> FALSE

TInit == Init /\ tid \in 1..Len(AllTraces) /\ l = 1 /\ verdict = "run"

Finished(e) == e.out = "completes"

TNext == /\ verdict = "run" /\ l <= Len(Ev)
         /\ \/ /\ Finished(Ev[l])
               /\ StepOf(Ev[l])
               /\ l' = l + 1 /\ tid' = tid
               /\ verdict' = IF Ev[l].seen /\ ~IsValidOrder(Ev[l].sorted, nodes', edges')
                               THEN "invalid-order"
                             ELSE IF Ev[l].a = "rms" /\ RmsAsBuilt(Ev[l].pre, Ev[l].x[1]) # "completes"
                               THEN "asbuilt-inexact"
                             ELSE IF l + 1 > Len(Ev) THEN "accepted" ELSE "run"
            \/ /\ Finished(Ev[l]) /\ ~ENABLED StepOf(Ev[l])
               /\ UNCHANGED <<nodes, edges, wip, sorted, tid, l>>
               /\ verdict' = "rejected"
            \* the real call did not complete: the spec says it must; classify with the as-built model
            \/ /\ ~Finished(Ev[l])
               /\ UNCHANGED <<nodes, edges, wip, sorted, tid, l>>
               /\ verdict' = IF Ev[l].a = "rms" /\ ENABLED StepOf(Ev[l])
                               THEN "asbuilt-" \o RmsAsBuilt(Ev[l].pre, Ev[l].x[1])
                               ELSE "unexplained"

Report == (verdict # "run") => PrintT(<<"VERDICT", tid, verdict, l>>)
=============================================================================
