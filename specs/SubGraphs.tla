------------------------------ MODULE SubGraphs ------------------------------
(* The workflow graphs the Submitter model is checked on (MC_Submitter, M1) and the  *)
(* schedules are generated from (MC_SubGen, M3): one definition for both.            *)
EXTENDS Naturals, Sequences, FiniteSets, TLC
G(nodes, preds, njobs) == [nodes |-> nodes, preds |-> preds, njobs |-> njobs]
N(name, gr) == [name |-> name] @@ gr
One(ns) == [n \in ns |-> 1]
Chain3  == N("Chain3", G(<<"a","b","c">>, [a |-> {}, b |-> {"a"}, c |-> {"b"}], One({"a","b","c"})))
FanOut  == N("FanOut", G(<<"a","b","c">>, [a |-> {}, b |-> {"a"}, c |-> {"a"}], One({"a","b","c"})))
FanIn   == N("FanIn", G(<<"a","b","c">>, [a |-> {}, b |-> {}, c |-> {"a","b"}], One({"a","b","c"})))
Diamond == N("Diamond", G(<<"a","b","c","d">>, [a |-> {}, b |-> {"a"}, c |-> {"a"}, d |-> {"b","c"}], One({"a","b","c","d"})))
Indep4  == N("Indep4", G(<<"a","b","c","d">>, [a |-> {}, b |-> {}, c |-> {}, d |-> {}], One({"a","b","c","d"})))
SideChain == N("SideChain", G(<<"a","b","c","d">>, [a |-> {}, b |-> {}, c |-> {"b"}, d |-> {"c"}], One({"a","b","c","d"})))
Split32 == N("Split32", G(<<"a","b">>, [a |-> {}, b |-> {"a"}], [a |-> 3, b |-> 2]))
SplitSide == N("SplitSide", G(<<"a","b","c">>, [a |-> {}, b |-> {}, c |-> {"a"}], [a |-> 2, b |-> 2, c |-> 1]))
\* a node WITHOUT jobs (split over an empty list) in the middle of a chain, next to an independent branch:
\* e is done as soon as it is started, d must still run - whatever finishes last
EmptyMid == N("EmptyMid", G(<<"p","q","e","d">>, [p |-> {}, q |-> {}, e |-> {"p"}, d |-> {"e"}], [p |-> 1, q |-> 1, e |-> 0, d |-> 1]))
Wide6   == N("Wide6", G(<<"a">>, [a |-> {}], [a |-> 6]))
GChain3 == {Chain3}  GFanOut == {FanOut}  GFanIn == {FanIn}  GDiamond == {Diamond}  GIndep4 == {Indep4}
GSideChain == {SideChain}  GEmptyMid == {EmptyMid}  GSplit32 == {Split32}  GSplitSide == {SplitSide}  GWide6 == {Wide6}
Quick14 == {SideChain, FanOut, SplitSide, EmptyMid}
Quick15 == {Chain3, FanIn, Diamond, Split32, EmptyMid}
Quick16 == {Indep4, SplitSide}
Small   == {Chain3, FanOut, FanIn, Diamond, Indep4, SideChain, Split32, SplitSide, EmptyMid}
Conc    == {Indep4, Wide6, SplitSide, SideChain}
KAll    == {0, 1, 2, 3}
KLim    == {1, 2, 3}
KNone   == {0}
K0 == {0}  K1 == {1}  K2 == {2}  K3 == {3}
=============================================================================
