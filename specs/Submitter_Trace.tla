--------------------------- MODULE Submitter_Trace ---------------------------
(* Mode M4: traces of real Submitter runs (worker "cf" with gated job bodies, or *)
(* the debug worker) checked against the worker-visible projection of Submitter: *)
(*   scan(tasks) launch(j) S(j) E(j, ok|err) END(done|error, named jobs)          *)
(* Each event drives the Submitter variables it is about (the loop-internal      *)
(* bookkeeping st/started/unrunnable is not observable and left unconstrained);  *)
(* the properties of Submitter are evaluated on the state after every event.     *)
(* One ndjson line per trace: {"tid", "graph": {...}, "K", "fails": [[n,i]..],   *)
(*                             "ev": [{"a":..,"n":..,"i":..,...}]}               *)
EXTENDS Submitter, Json, IOUtils
Traces == ndJsonDeserialize(IOEnv.TRACE_FILE)
VARIABLES tid, l, verdict
tvars == <<vars, tid, l, verdict>>
T == Traces[tid]
Ev == T.ev
Job(e) == <<e.n, e.i>>
ToGraph(r) == [name |-> r.name, nodes |-> r.nodes,
               preds |-> [n \in DOMAIN r.preds |-> {r.preds[n][k] : k \in 1..Len(r.preds[n])}],
               njobs |-> r.njobs]
ToJobs(s) == {<<s[k][1], s[k][2]>> : k \in 1..Len(s)}

TraceInit ==
  /\ tid \in 1..Len(Traces)
  /\ l = 1 /\ verdict = <<"run">>
  /\ g = ToGraph(Traces[tid].graph)
  /\ K = Traces[tid].K
  /\ fails = ToJobs(Traces[tid].fails)
  /\ st = [j \in AllJobs(g) |-> "none"]
  /\ started = [n \in {g.nodes[i] : i \in 1..Len(g.nodes)} |-> FALSE]
  /\ unrunnable = [n \in {g.nodes[i] : i \in 1..Len(g.nodes)} |-> FALSE]
  /\ w = [j \in AllJobs(g) |-> "idle"]
  /\ futured = {} /\ pending = {} /\ errors = {}
  /\ tasks = <<>> /\ loop = "scan" /\ stall = 0

Frame == UNCHANGED <<g, K, fails, st, started, unrunnable, stall>>
EvScan(e) ==                              \* get_runnable_tasks returned e.tasks
  /\ \A k \in 1..Len(e.tasks) : <<e.tasks[k][1], e.tasks[k][2]>> \in Jobs
  /\ (K > 0 => Len(e.tasks) <= K)
  /\ tasks' = [k \in 1..Len(e.tasks) |-> <<e.tasks[k][1], e.tasks[k][2]>>]
  /\ UNCHANGED <<w, futured, pending, errors, loop>> /\ Frame
EvLaunch(e) ==                            \* a future is created for one job: never twice
  /\ Job(e) \in Jobs /\ Job(e) \notin futured
  /\ \E k \in 1..Len(tasks) : tasks[k] = Job(e)
  /\ futured' = futured \cup {Job(e)} /\ pending' = pending \cup {Job(e)}
  /\ w' = [w EXCEPT ![Job(e)] = "submitted"]
  /\ UNCHANGED <<tasks, errors, loop>> /\ Frame
EvStart(e) == /\ Job(e) \in Jobs /\ WorkerStart(Job(e))
EvEnd(e) ==   /\ Job(e) \in Jobs /\ w[Job(e)] = "executing"
              /\ (e.r = "err") = (Job(e) \in fails)
              /\ w' = [w EXCEPT ![Job(e)] = e.r]      \* body end, result and future completion are merged in the trace
              /\ pending' = pending \ {Job(e)}
              /\ UNCHANGED <<futured, errors, tasks, loop>> /\ Frame
EvFinal(e) == /\ loop' = e.outcome
              /\ errors' = ToJobs(e.named)
              /\ UNCHANGED <<w, futured, pending, tasks>> /\ Frame
Act(e) == CASE e.a = "scan" -> EvScan(e)
            [] e.a = "launch" -> EvLaunch(e)
            [] e.a = "S" -> EvStart(e)
            [] e.a = "E" -> EvEnd(e)
            [] e.a = "END" -> EvFinal(e)
            [] OTHER -> FALSE

Viol ==
  IF ~StartAfterPredsSucceeded' THEN "StartAfterPredsSucceeded"
  ELSE IF ~WithinLimit' THEN "WithinLimit"
  ELSE IF ~DependentsNeverRun' THEN "DependentsNeverRun"
  ELSE IF ~EachJobOnce' THEN "EachJobOnce"
  ELSE IF ~IndependentJobsRun' THEN "IndependentJobsRun"
  ELSE IF ~ErrorNamesEveryFailedJob' THEN "ErrorNamesEveryFailedJob"
  ELSE IF ~FailureIsReported' THEN "FailureIsReported"
  ELSE IF ~ErrorOnlyIfFailure' THEN "ErrorOnlyIfFailure"
  ELSE IF ~AllRunWhenNoFailure' THEN "AllRunWhenNoFailure"
  ELSE "none"

TraceNext ==
  /\ verdict = <<"run">> /\ l <= Len(Ev)
  /\ \/ /\ Act(Ev[l]) /\ l' = l + 1 /\ tid' = tid
        /\ verdict' = IF Viol # "none" THEN <<"invariant", Viol, l>>
                      ELSE IF l + 1 > Len(Ev) THEN <<"accepted">> ELSE <<"run">>
     \/ /\ ~ENABLED Act(Ev[l]) /\ UNCHANGED <<vars, tid, l>>
        /\ verdict' = <<"rejected", l, Ev[l].a>>
TraceSpec == TraceInit /\ [][TraceNext]_tvars
Done == verdict # <<"run">> \/ l > Len(Ev)
Report == Done => PrintT(ToJson([tid |-> T.tid, verdict |-> verdict, l |-> l]))
=============================================================================
