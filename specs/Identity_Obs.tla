---------------------------- MODULE Identity_Obs ----------------------------
(* Mode M4 for LARGE observation logs (C07, C08): validates every recorded   *)
(* (term, configuration, digest) observation of the real pydra against the   *)
(* relation of Identity (Deterministic / ContextFree / Injective) -- i.e. ALL *)
(* pairs of observations -- in O(N log N).                                    *)
(*                                                                           *)
(* TRACE_FILE: ndjson, one Observe event per line                             *)
(*   {"term":T,"hassrc":b,"src":T,"cfg":{..},"digest":"hex"}                  *)
(*                                                                           *)
(* The monitor feeds the log to Identity's Observe guards twice: once in      *)
(* (key, position) order, once in (digest, position) order.  Because equal    *)
(* keys (digests) are then contiguous, the relation idOf (keyOf) is pruned to *)
(* the entry of the current key (digest): an entry for a key that cannot      *)
(* occur again is garbage.  The first observation of a key still binds.       *)
(* Contiguity is not assumed from the way TLC happens to order sets: it is    *)
(* checked (RunsOK), so the verdict does not depend on it.                    *)
EXTENDS Identity, Json, IOUtils, SequencesExt, TLCExt

Obs == ndJsonDeserialize(IOEnv.TRACE_FILE)
N   == Len(Obs)

(* Canon is RECURSIVE, so TLC does not treat these as constants to be evaluated once: cache them. *)
Keys   == TLCCache([i \in 1..N |-> Canon(Obs[i].term)], "Keys")
ByKey  == TLCCache(SetToSeq({ <<Keys[i], i>> : i \in 1..N }), "ByKey")
ByDig  == TLCCache(SetToSeq({ <<Obs[i].digest, i>> : i \in 1..N }), "ByDig")
NKeys  == Cardinality({ Keys[i] : i \in 1..N })
NDigs  == Cardinality({ Obs[i].digest : i \in 1..N })
NPairs == Cardinality({ <<Keys[i], Obs[i].digest>> : i \in 1..N })

Runs(seq) == 1 + Cardinality({ j \in 1..(Len(seq) - 1) : seq[j][1] # seq[j + 1][1] })
RunsOK == /\ Len(ByKey) = N /\ Len(ByDig) = N
          /\ Runs(ByKey) = NKeys
          /\ Runs(ByDig) = NDigs

VARIABLES pass, j, nrep
ovars == <<ivars, pass, j, nrep>>
View  == <<pass, j>>

OInit == IInit /\ pass = "det" /\ j = 1 /\ nrep = 0

KeyAB(i) == CanonS(Obs[i].term, Switches)
OnlyCtxDiffers(c1, c2) == \A f \in DOMAIN c1 \ {"ctx"} : c1[f] = c2[f]
Blame(a, b, observedSame) ==      \* single switches that predict the observed (in)equality
  { s \in Switches : (CanonS(Obs[a].term, {s}) = CanonS(Obs[b].term, {s})) = observedSame }
Report(r) == PrintT(ToJson(r))

(* pass 1: Deterministic / ContextFree, and the binding of term_of(build(src)) to src *)
DetStep ==
  LET i   == ByKey[j][2]
      e   == Obs[i]
      key == Keys[i]
      d   == e.digest
      rel == IF key \in DOMAIN idOf THEN idOf ELSE Empty        \* prune: a new key starts
      ok  == DetOK(rel, key, d)
      srcOK == ~e.hassrc \/ Canon(e.src) = key
  IN
  /\ idOf' = Bind(rel, key, [d |-> d, l |-> i])
  /\ UNCHANGED <<keyOf, cache>>
  /\ nrep' = nrep + (IF ok THEN 0 ELSE 1) + (IF srcOK THEN 0 ELSE 1)
  /\ IF srcOK THEN TRUE ELSE
       Report([l |-> i, with |-> i, inv |-> "Binding", ideal_same |-> TRUE, observed_same |-> FALSE,
               asbuilt_same |-> TRUE, blame |-> {}])
  /\ IF ok THEN TRUE ELSE
       LET b == rel[key].l IN
       Report([l |-> i, with |-> b,
               inv |-> IF OnlyCtxDiffers(e.cfg, Obs[b].cfg) /\ e.cfg.ctx # Obs[b].cfg.ctx
                       THEN "ContextFree" ELSE "Deterministic",
               ideal_same |-> TRUE, observed_same |-> FALSE,
               asbuilt_same |-> (KeyAB(i) = KeyAB(b)),
               blame |-> Blame(i, b, FALSE)])

(* pass 2: Injective *)
InjStep ==
  LET i   == ByDig[j][2]
      e   == Obs[i]
      key == Keys[i]
      d   == e.digest
      inv == IF d \in DOMAIN keyOf THEN keyOf ELSE Empty
      ok  == InjOK(inv, key, d)
  IN
  /\ keyOf' = Bind(inv, d, [key |-> key, l |-> i])
  /\ UNCHANGED <<idOf, cache>>
  /\ nrep' = nrep + (IF ok THEN 0 ELSE 1)
  /\ IF ok THEN TRUE ELSE
       LET b == inv[d].l IN
       Report([l |-> i, with |-> b, inv |-> "Injective",
               ideal_same |-> FALSE, observed_same |-> TRUE,
               asbuilt_same |-> (KeyAB(i) = KeyAB(b)),
               blame |-> Blame(i, b, TRUE)])

ONext ==
  \/ /\ pass = "det" /\ j <= N /\ DetStep /\ j' = j + 1 /\ pass' = pass
  \/ /\ pass = "det" /\ j > N /\ pass' = "inj" /\ j' = 1 /\ UNCHANGED <<ivars, nrep>>
  \/ /\ pass = "inj" /\ j <= N /\ InjStep /\ j' = j + 1 /\ pass' = pass
  \/ /\ pass = "inj" /\ j > N /\ pass' = "done" /\ j' = 1 /\ UNCHANGED <<ivars, nrep>>

OSpec == OInit /\ [][ONext]_ovars

(* summary; the relation as a whole: keys x digests is a bijection iff no report *)
Done == (pass = "done") =>
          /\ Assert(RunsOK, "equal keys / digests not contiguous in the scan order")
          /\ Assert((nrep = 0) => (NPairs = NKeys /\ NPairs = NDigs), "scan and cardinalities disagree")
          /\ PrintT(ToJson([done |-> TRUE, events |-> N, reports |-> nrep, keys |-> NKeys,
                            digests |-> NDigs, pairs |-> NPairs]))
=============================================================================
