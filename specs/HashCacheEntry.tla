--------------------------- MODULE HashCacheEntry ---------------------------
(* One entry of the persistent file-hash cache (pydra/utils/hash.py              *)
(* PersistentCache.get_or_calculate_hash) shared by several interpreter          *)
(* processes: take the entry's soft lock, return the stored digest if the entry  *)
(* exists, else compute it and write it (the write creates the file empty and    *)
(* then fills it).  C07: every session obtains the same digest, whatever the     *)
(* interleaving.  Switch LockFreeRead (a plausible "optimisation", not as built):*)
(* an existing entry is read without the lock.                                   *)
EXTENDS Naturals, FiniteSets, TLC
CONSTANTS Procs, LockFreeRead
VARIABLES entry,   \* "absent" | "empty" | "full"
          lock,    \* "free" or the holder
          pc,      \* [Procs -> "start" | "locked" | "writing" | "done"]
          got      \* [Procs -> "none" | "H" | "Hempty"]   digest each process ends up with
vars == <<entry, lock, pc, got>>
Init == entry = "absent" /\ lock = "free" /\ pc = [p \in Procs |-> "start"] /\ got = [p \in Procs |-> "none"]
FastRead(p) == /\ LockFreeRead /\ pc[p] = "start" /\ entry # "absent"
               /\ got' = [got EXCEPT ![p] = IF entry = "full" THEN "H" ELSE "Hempty"]
               /\ pc' = [pc EXCEPT ![p] = "done"] /\ UNCHANGED <<entry, lock>>
Lock(p) == /\ pc[p] = "start" /\ lock = "free" /\ (LockFreeRead => entry = "absent")
           /\ lock' = p /\ pc' = [pc EXCEPT ![p] = "locked"] /\ UNCHANGED <<entry, got>>
ReadLocked(p) == /\ pc[p] = "locked" /\ entry # "absent"
                 /\ got' = [got EXCEPT ![p] = IF entry = "full" THEN "H" ELSE "Hempty"]
                 /\ lock' = "free" /\ pc' = [pc EXCEPT ![p] = "done"] /\ UNCHANGED entry
CreateEmpty(p) == /\ pc[p] = "locked" /\ entry = "absent"
                  /\ entry' = "empty" /\ pc' = [pc EXCEPT ![p] = "writing"] /\ UNCHANGED <<lock, got>>
Fill(p) == /\ pc[p] = "writing" /\ entry' = "full" /\ got' = [got EXCEPT ![p] = "H"]
           /\ lock' = "free" /\ pc' = [pc EXCEPT ![p] = "done"]
Next == \E p \in Procs : FastRead(p) \/ Lock(p) \/ ReadLocked(p) \/ CreateEmpty(p) \/ Fill(p)
Spec == Init /\ [][Next]_vars
SameDigestEverywhere == \A p \in Procs : got[p] \in {"none", "H"}
=============================================================================
